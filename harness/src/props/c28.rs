//! C28 — Standalone compression kernels round trip.
//!
//! Two generated domains:
//!  (a) `Fsst`: byte-string arrays (i32 / i64 offsets) described by a small
//!      recipe (a pool of string specs cycled until a target total size is
//!      reached).  Buffers are sized exactly like the in-tree caller
//!      `lance-encoding/src/encodings/physical/fsst.rs` sizes them
//!      (compress: values `2 * len`, offsets `2 * len`; decompress: values
//!      `8 * compressed_len`, offsets `len`).  Oracle: `compress` returns `Err`
//!      or `decompress(symbol_table, compressed)` gives back the input.
//!  (b) `Bitpack`: FastLanes `unchecked_pack` / `unchecked_unpack` over 1024
//!      values masked to W bits, for T in {u8,u16,u32,u64} and every W in
//!      0..=bits(T); buffers are exactly `1024 * W / bits(T)` and 1024 elements.

use crate::engine::*;
use crate::{ensure, fail};
use arrow_array::OffsetSizeTrait;
use fsst::fsst::{compress, decompress, FSST_LEAST_INPUT_MAX_LENGTH, FSST_LEAST_INPUT_SIZE, FSST_SYMBOL_TABLE_SIZE};
use lance_bitpacking::BitPacking;
use proptest::prelude::*;
use serde::{Deserialize, Serialize};
use std::collections::BTreeSet;

pub struct C28;

// ---------------------------------------------------------------------------
// inputs

/// One string of the pool.  Expansion is a pure function of the spec and a salt.
#[derive(Clone, Debug, Serialize, Deserialize, PartialEq)]
pub enum StrSpec {
    /// explicit bytes
    Lit(Vec<u8>),
    /// `unit` repeated `times` times (long repeats)
    Rep { unit: Vec<u8>, times: u16 },
    /// incompressible: splitmix bytes
    Rand { seed: u32, len: u16 },
    /// start, start+step, start+2*step, ... (odd step => all 256 byte values)
    Ramp { start: u8, step: u8, len: u16 },
    /// words of a small vocabulary joined by blanks (compressible, text-like)
    Words { seed: u32, vocab: u8, len: u16 },
}

#[derive(Clone, Debug, Serialize, Deserialize, PartialEq)]
pub struct FsstCase {
    /// i64 offsets instead of i32
    pub wide: bool,
    pub pool: Vec<StrSpec>,
    /// the pool is cycled until the total number of bytes is >= `total`
    pub total: u32,
    /// cut the last string so that the total is exactly `total`
    pub exact: bool,
    /// salt Rand/Words specs with the cycle number so that cycles differ
    pub vary: bool,
    /// strings dropped from the front / back of the *offsets* (the value buffer stays whole,
    /// like `value_data()` / `value_offsets()` of a sliced Arrow array)
    pub lead: u8,
    pub tail: u8,
    /// compress/decompress rounds (the sampler inside fsst is seeded from the OS)
    pub rounds: u8,
}

#[derive(Clone, Debug, Serialize, Deserialize, PartialEq)]
pub enum Pattern {
    Rand,
    AllOnes,
    Zeros,
    /// value i = i * (2*seed+1) + seed  (distinct per lane and row)
    IndexMul,
    /// only element `seed % 1024` is all-ones
    OneHot,
    /// i even => all ones, odd => 0 (or the other way round)
    Alternate,
    /// only the top bit of the width
    HighBit,
    /// only the lowest bit, on a random subset
    LowBitRand,
}

#[derive(Clone, Debug, Serialize, Deserialize, PartialEq)]
pub struct BpCase {
    /// 0 = u8, 1 = u16, 2 = u32, 3 = u64
    pub ty: u8,
    pub width: u8,
    pub pat: Pattern,
    pub seed: u64,
    /// what the destination buffers contain before the call (the in-tree caller
    /// hands uninitialised memory to `unchecked_pack`)
    pub filler: u8,
}

#[derive(Clone, Debug, Serialize, Deserialize, PartialEq)]
pub enum Input {
    Fsst(FsstCase),
    Bitpack(BpCase),
}

// ---------------------------------------------------------------------------
// deterministic expansion

fn splitmix(x: &mut u64) -> u64 {
    *x = x.wrapping_add(0x9E37_79B9_7F4A_7C15);
    let mut z = *x;
    z = (z ^ (z >> 30)).wrapping_mul(0xBF58_476D_1CE4_E5B9);
    z = (z ^ (z >> 27)).wrapping_mul(0x94D0_49BB_1331_11EB);
    z ^ (z >> 31)
}

fn expand(spec: &StrSpec, salt: u64, out: &mut Vec<u8>) {
    match spec {
        StrSpec::Lit(b) => out.extend_from_slice(b),
        StrSpec::Rep { unit, times } => {
            for _ in 0..*times {
                out.extend_from_slice(unit);
            }
        }
        StrSpec::Rand { seed, len } => {
            let mut s = (*seed as u64) ^ salt.wrapping_mul(0xD6E8_FEB8_6659_FD93);
            let mut left = *len as usize;
            while left > 0 {
                let w = splitmix(&mut s).to_le_bytes();
                let n = left.min(8);
                out.extend_from_slice(&w[..n]);
                left -= n;
            }
        }
        StrSpec::Ramp { start, step, len } => {
            let mut v = *start;
            for _ in 0..*len {
                out.push(v);
                v = v.wrapping_add(*step);
            }
        }
        StrSpec::Words { seed, vocab, len } => {
            // vocabulary from the seed only; the word choice also from the salt
            let mut s = *seed as u64;
            let nv = (*vocab).max(1) as usize;
            let mut words: Vec<Vec<u8>> = Vec::with_capacity(nv);
            for _ in 0..nv {
                let r = splitmix(&mut s);
                let wl = 1 + (r % 10) as usize;
                let mut w = Vec::with_capacity(wl);
                let mut r2 = r >> 8;
                for _ in 0..wl {
                    // mostly lower case letters, sometimes any byte (incl. 255)
                    let c = if r2 & 31 == 0 { (r2 >> 5) as u8 } else { b'a' + ((r2 >> 5) % 26) as u8 };
                    w.push(c);
                    r2 = splitmix(&mut s);
                }
                words.push(w);
            }
            let mut s2 = (*seed as u64).rotate_left(21) ^ salt.wrapping_mul(0xA24B_AED4_963E_E407);
            let target = *len as usize;
            let start = out.len();
            while out.len() - start < target {
                let w = &words[(splitmix(&mut s2) % nv as u64) as usize];
                out.extend_from_slice(w);
                out.push(b' ');
            }
            out.truncate(start + target);
        }
    }
}

fn spec_kind(s: &StrSpec) -> &'static str {
    match s {
        StrSpec::Lit(_) => "lit",
        StrSpec::Rep { .. } => "rep",
        StrSpec::Rand { .. } => "rand",
        StrSpec::Ramp { .. } => "ramp",
        StrSpec::Words { .. } => "words",
    }
}

const MAX_STRINGS: usize = 20_000;
const MAX_TOTAL: usize = 400 * 1024;

/// (value buffer, offsets in usize (len = strings+1))
fn build_array(c: &FsstCase) -> (Vec<u8>, Vec<usize>) {
    let mut buf: Vec<u8> = vec![];
    let mut offs: Vec<usize> = vec![0];
    let target = (c.total as usize).min(MAX_TOTAL);
    if c.pool.is_empty() {
        return (buf, offs);
    }
    let mut cycle = 0u64;
    'outer: loop {
        let before = buf.len();
        for spec in &c.pool {
            if offs.len() > MAX_STRINGS {
                break 'outer;
            }
            expand(spec, if c.vary { cycle } else { 0 }, &mut buf);
            if c.exact && buf.len() > target && offs.len() > 1 {
                // cut the string that crosses the target (never the very first string)
                let prev = *offs.last().unwrap();
                buf.truncate(target.max(prev));
            }
            offs.push(buf.len());
            if cycle > 0 && buf.len() >= target {
                break 'outer;
            }
        }
        if buf.len() >= target || buf.len() == before {
            break;
        }
        cycle += 1;
    }
    (buf, offs)
}

// ---------------------------------------------------------------------------
// strategies

fn byte_strategy() -> impl Strategy<Value = u8> {
    prop_oneof![
        4 => any::<u8>(),
        2 => prop_oneof![Just(255u8), Just(254u8), Just(0u8), Just(1u8), Just(128u8)],
        3 => b'a'..=b'z',
    ]
}

fn len_strategy(max: u16) -> impl Strategy<Value = u16> {
    prop_oneof![
        1 => Just(0u16),
        2 => 1u16..5,          // shorter than FSST_LEAST_INPUT_MAX_LENGTH
        2 => 5u16..9,          // around the 8-byte symbol / word size
        3 => 9u16..64,
        2 => 64u16..505,
        2 => 505u16..520,      // the 511-byte chunking inside compress_bulk
        2 => 520u16..max.max(521),
    ]
}

fn spec_strategy() -> impl Strategy<Value = StrSpec> {
    prop_oneof![
        3 => prop::collection::vec(byte_strategy(), 0..24).prop_map(StrSpec::Lit),
        3 => (prop::collection::vec(byte_strategy(), 1..10), prop_oneof![1u16..8, 8u16..80, 80u16..600])
            .prop_map(|(unit, times)| StrSpec::Rep { unit, times }),
        3 => (any::<u32>(), len_strategy(3000)).prop_map(|(seed, len)| StrSpec::Rand { seed, len }),
        2 => (any::<u8>(), prop_oneof![Just(1u8), Just(255u8), Just(3u8), Just(0u8), any::<u8>()], len_strategy(1200))
            .prop_map(|(start, step, len)| StrSpec::Ramp { start, step, len }),
        4 => (any::<u32>(), 1u8..40, len_strategy(3000)).prop_map(|(seed, vocab, len)| StrSpec::Words { seed, vocab, len }),
    ]
}

fn total_strategy() -> impl Strategy<Value = (u32, bool)> {
    let lim = FSST_LEAST_INPUT_SIZE as u32;
    prop_oneof![
        // below the threshold: verbatim copy path
        2 => (0u32..lim, any::<bool>()),
        // exactly around the threshold
        2 => ((lim - 3)..(lim + 4), Just(true)),
        // just above
        5 => (lim..(lim + 12_000), any::<bool>()),
        // well above (several sample targets)
        4 => ((lim + 12_000)..(6 * lim), any::<bool>()),
    ]
}

fn fsst_strategy() -> impl Strategy<Value = FsstCase> {
    (
        any::<bool>(),
        prop::collection::vec(spec_strategy(), 1..10),
        total_strategy(),
        prop::bool::weighted(0.7),
        prop_oneof![4 => Just((0u8, 0u8)), 1 => (0u8..4, 0u8..4)],
        1u8..3,
    )
        .prop_map(|(wide, pool, (total, exact), vary, (lead, tail), rounds)| FsstCase { wide, pool, total, exact, vary, lead, tail, rounds })
}

fn pattern_strategy() -> impl Strategy<Value = Pattern> {
    prop_oneof![
        8 => Just(Pattern::Rand),
        2 => Just(Pattern::AllOnes),
        1 => Just(Pattern::Zeros),
        3 => Just(Pattern::IndexMul),
        2 => Just(Pattern::OneHot),
        1 => Just(Pattern::Alternate),
        1 => Just(Pattern::HighBit),
        1 => Just(Pattern::LowBitRand),
    ]
}

fn bp_strategy() -> impl Strategy<Value = BpCase> {
    // uniform over the 124 (type, width) pairs
    (0u16..124, pattern_strategy(), any::<u64>(), prop_oneof![Just(0u8), Just(0xFFu8), Just(0xAAu8), any::<u8>()])
        .prop_map(|(pair, pat, seed, filler)| {
            let (ty, width) = pair_of(pair as usize);
            BpCase { ty, width, pat, seed, filler }
        })
}

fn pair_of(mut i: usize) -> (u8, u8) {
    for (ty, bits) in [(0u8, 8usize), (1, 16), (2, 32), (3, 64)] {
        if i <= bits {
            return (ty, i as u8);
        }
        i -= bits + 1;
    }
    unreachable!()
}

// ---------------------------------------------------------------------------
// FSST oracle

fn trunc_bytes(b: &[u8]) -> String {
    if b.len() <= 48 {
        format!("{b:?}")
    } else {
        format!("{:?}…(len {})", &b[..48], b.len())
    }
}

fn run_fsst<T: OffsetSizeTrait>(c: &FsstCase, obs: &mut Obs) -> CheckResult {
    let (buf, offs_all) = build_array(c);
    let nstr_all = offs_all.len() - 1;
    // slice the offsets only
    let lead = (c.lead as usize).min(nstr_all);
    let tail = (c.tail as usize).min(nstr_all - lead);
    let offs_us = &offs_all[lead..offs_all.len() - tail];
    let sliced = lead > 0 || tail > 0;
    let nstr = offs_us.len() - 1;
    let win_bytes = offs_us[nstr] - offs_us[0];
    let offs: Vec<T> = offs_us.iter().map(|o| T::from_usize(*o).unwrap()).collect();

    let big = buf.len() >= FSST_LEAST_INPUT_SIZE;
    obs.label(if c.wide { "fsst:i64" } else { "fsst:i32" });
    obs.label(if big { "fsst:total>=32KiB" } else { "fsst:total<32KiB" });
    if buf.len() >= FSST_LEAST_INPUT_SIZE - 2 && buf.len() <= FSST_LEAST_INPUT_SIZE + 2 {
        obs.label(format!("fsst:total={}", buf.len()));
    }
    if sliced {
        obs.label("fsst:sliced-offsets");
        // Not reachable from lance-encoding (it rebases offsets first).  With a value buffer
        // >= 32 KiB the sampler draws strings *of the window* until it has 16 KiB: a window
        // without bytes never terminates (and a window without strings divides by zero).
        // These inputs are outside what any in-tree caller passes; they are skipped and reported.
        if big && (nstr == 0 || win_bytes * 50 < nstr.max(1)) {
            obs.label("fsst:sliced-window-too-empty-skipped");
            return Ok(());
        }
    }
    let strings = |i: usize| &buf[offs_us[i]..offs_us[i + 1]];
    let maxlen = (0..nstr).map(|i| strings(i).len()).max().unwrap_or(0);
    if (0..nstr).any(|i| strings(i).is_empty()) {
        obs.label("fsst:has-empty-string");
    }
    if nstr == 0 {
        obs.label("fsst:no-strings");
    }
    if (maxlen as u64) < FSST_LEAST_INPUT_MAX_LENGTH {
        obs.label("fsst:maxlen<5");
    }
    if maxlen > 511 {
        obs.label("fsst:string>511");
    }
    let window = &buf[offs_us[0]..offs_us[nstr]];
    let mut seen = [false; 256];
    for b in window {
        seen[*b as usize] = true;
    }
    let distinct = seen.iter().filter(|s| **s).count();
    if distinct == 256 {
        obs.label("fsst:all-256-byte-values");
    }
    if seen[255] {
        obs.label("fsst:has-0xff");
    }
    let kinds: BTreeSet<&'static str> = c.pool.iter().map(spec_kind).collect();
    for k in &kinds {
        obs.label(format!("fsst:spec-{k}"));
    }

    let mut encoded_any = false;
    let mut ratio_bucket = "";
    for round in 0..c.rounds.max(1) {
        obs.inner += 1;
        // exactly the in-tree sizing (FsstCompressed::fsst_compress)
        let mut dest_offsets = vec![T::zero(); offs.len() * 2];
        let mut dest_values = vec![0u8; buf.len() * 2];
        let mut symbol_table = vec![0u8; FSST_SYMBOL_TABLE_SIZE];
        if let Err(e) = compress(&mut symbol_table, &buf, &offs, &mut dest_values, &mut dest_offsets) {
            obs.rejected += 1;
            obs.label("fsst:compress-err");
            let msg: String = e.to_string().chars().map(|ch| if ch.is_ascii_digit() { '#' } else { ch }).collect();
            obs.label(format!("fsst:compress-err:{}", truncate_str(&msg, 60)));
            return Ok(());
        }
        let hdr = u64::from_ne_bytes(symbol_table[..8].try_into().unwrap());
        let encoded = hdr & (1 << 24) != 0;
        encoded_any |= encoded;
        obs.label(if encoded { "fsst:encoded(symbol-table)" } else { "fsst:copied-verbatim" });
        ensure!(
            encoded == big,
            "fsst-threshold",
            "value buffer of {} bytes: encoder switch = {encoded}, documented threshold {}",
            buf.len(),
            FSST_LEAST_INPUT_SIZE
        );
        ensure!(
            dest_offsets.len() == offs.len(),
            "fsst-compressed-offsets-len",
            "round {round}: {} compressed offsets for {} input offsets",
            dest_offsets.len(),
            offs.len()
        );
        if encoded {
            let nsym = (hdr & 255) as usize;
            obs.label(match nsym {
                0 => "fsst:symbols=0",
                1..=31 => "fsst:symbols<32",
                32..=254 => "fsst:symbols<255",
                _ => "fsst:symbols=255",
            });
            let r = dest_values.len() as f64 / win_bytes.max(1) as f64;
            ratio_bucket = if r > 1.0 {
                "expanded"
            } else if r > 0.75 {
                "ratio>0.75"
            } else if r > 0.4 {
                "ratio>0.4"
            } else {
                "ratio<=0.4"
            };
            obs.label(format!("fsst:{ratio_bucket}"));
        }

        // exactly the in-tree sizing (FsstMiniBlockDecompressor / FsstPerValueDecompressor)
        let mut dec_values = vec![0u8; dest_values.len() * 8];
        let mut dec_offsets = vec![T::zero(); dest_offsets.len()];
        if let Err(e) = decompress(&symbol_table, &dest_values, &dest_offsets, &mut dec_values, &mut dec_offsets) {
            fail!("fsst-decompress-error", "round {round}: compress succeeded ({} -> {} bytes, {} strings) but decompress failed: {e}", buf.len(), dest_values.len(), nstr);
        }
        ensure!(dec_offsets.len() == offs.len(), "fsst-offsets-len", "round {round}: {} decoded offsets, {} input offsets", dec_offsets.len(), offs.len());
        let dec_offs: Vec<usize> = dec_offsets.iter().map(|o| o.as_usize()).collect();
        for w in dec_offs.windows(2) {
            ensure!(w[0] <= w[1] && w[1] <= dec_values.len(), "fsst-offsets-shape", "round {round}: decoded offsets not monotone / out of range: {:?} (values len {})", w, dec_values.len());
        }
        // every string, byte for byte
        for i in 0..nstr {
            let got = &dec_values[dec_offs[i]..dec_offs[i + 1]];
            let want = strings(i);
            if got != want {
                fail!(
                    "fsst-roundtrip-bytes",
                    "round {round}: string #{i} of {nstr} (total {} bytes, {} offsets, encoded={encoded}) decoded to {} but was {}",
                    buf.len(),
                    if c.wide { "i64" } else { "i32" },
                    trunc_bytes(got),
                    trunc_bytes(want)
                );
            }
        }
        if !sliced || !encoded {
            // whole buffers identical (offsets start at 0 and cover the buffer; the verbatim
            // path copies buffer and offsets as they are)
            ensure!(dec_offs == offs_us, "fsst-roundtrip-offsets", "round {round}: decoded offsets differ from the input offsets (first {:?} vs {:?})", &dec_offs[..dec_offs.len().min(6)], &offs_us[..offs_us.len().min(6)]);
            ensure!(dec_values == buf, "fsst-roundtrip-buffer", "round {round}: decoded value buffer has {} bytes, input {}", dec_values.len(), buf.len());
        } else {
            // sliced + encoded: offsets are rebased to 0; lengths must agree
            let base_in = offs_us[0];
            let base_out = dec_offs[0];
            for i in 0..=nstr {
                ensure!(dec_offs[i] - base_out == offs_us[i] - base_in, "fsst-roundtrip-offsets", "round {round}: offset #{i}: {} (rebased) vs {}", dec_offs[i] - base_out, offs_us[i] - base_in);
            }
        }
    }
    if encoded_any {
        let size_bucket = buf.len() / 16384;
        obs.nontrivial(format!(
            "fsst|{}|{}|{:?}|{}x16K|{}|n{}|d{}",
            if c.wide { 64 } else { 32 },
            if sliced { "sliced" } else { "whole" },
            kinds,
            size_bucket,
            ratio_bucket,
            (nstr as f64).log2() as u32,
            distinct / 32
        ));
    }
    Ok(())
}

// ---------------------------------------------------------------------------
// bit-packing oracle

trait BpInt: BitPacking + Copy + PartialEq + std::fmt::Debug + 'static {
    const BITS: usize;
    fn from_u64(v: u64) -> Self;
    fn to_u64(self) -> u64;
}
macro_rules! bpint {
    ($t:ty, $b:expr) => {
        impl BpInt for $t {
            const BITS: usize = $b;
            fn from_u64(v: u64) -> Self {
                v as $t
            }
            fn to_u64(self) -> u64 {
                self as u64
            }
        }
    };
}
bpint!(u8, 8);
bpint!(u16, 16);
bpint!(u32, 32);
bpint!(u64, 64);

fn bp_values(c: &BpCase, bits: usize) -> Vec<u64> {
    let w = (c.width as usize).min(bits);
    let mask: u64 = if w == 0 {
        0
    } else if w == 64 {
        u64::MAX
    } else {
        (1u64 << w) - 1
    };
    let mut s = c.seed;
    (0..1024u64)
        .map(|i| {
            let v = match c.pat {
                Pattern::Rand => splitmix(&mut s),
                Pattern::AllOnes => u64::MAX,
                Pattern::Zeros => 0,
                Pattern::IndexMul => i.wrapping_mul(c.seed.wrapping_mul(2).wrapping_add(1)).wrapping_add(c.seed),
                Pattern::OneHot => {
                    if i == c.seed % 1024 {
                        u64::MAX
                    } else {
                        0
                    }
                }
                Pattern::Alternate => {
                    if (i + c.seed) % 2 == 0 {
                        u64::MAX
                    } else {
                        0
                    }
                }
                Pattern::HighBit => {
                    if w == 0 {
                        0
                    } else {
                        1u64 << (w - 1)
                    }
                }
                Pattern::LowBitRand => splitmix(&mut s) & 1,
            };
            v & mask
        })
        .collect()
}

fn run_bp<T: BpInt>(c: &BpCase, obs: &mut Obs) -> CheckResult {
    let w = c.width as usize;
    assert!(w <= T::BITS);
    let vals64 = bp_values(c, T::BITS);
    let vals: Vec<T> = vals64.iter().map(|v| T::from_u64(*v)).collect();
    let fill = T::from_u64(u64::from_ne_bytes([c.filler; 8]));
    // documented sizes: input exactly 1024, packed exactly 1024 * W / T elements
    let packed_len = 1024 * w / T::BITS;
    let mut packed: Vec<T> = vec![fill; packed_len];
    // SAFETY: lengths are exactly as documented
    unsafe { T::unchecked_pack(w, &vals, &mut packed) };
    let mut out: Vec<T> = vec![fill; 1024];
    unsafe { T::unchecked_unpack(w, &packed, &mut out) };
    obs.inner += 1;
    if out != vals {
        let i = (0..1024).find(|i| out[*i] != vals[*i]).unwrap();
        let nbad = (0..1024).filter(|i| out[*i] != vals[*i]).count();
        fail!(
            "bitpack-roundtrip",
            "u{} width {w} pattern {:?}: {nbad} of 1024 values differ, first at index {i}: unpacked {:#x}, packed {:#x}",
            T::BITS,
            c.pat,
            out[i].to_u64(),
            vals[i].to_u64()
        );
    }
    // the source must not have been modified, and a second unpack into a differently
    // filled buffer gives the same answer (no dependence on previous destination content)
    let mut out2: Vec<T> = vec![T::from_u64(!fill.to_u64()); 1024];
    unsafe { T::unchecked_unpack(w, &packed, &mut out2) };
    ensure!(out2 == vals, "bitpack-unpack-depends-on-destination", "u{} width {w}: unpack result depends on the previous content of the output buffer", T::BITS);
    obs.label(format!("bp:u{}", T::BITS));
    obs.label(format!("bp:pat-{:?}", c.pat));
    obs.label(if w == 0 {
        "bp:W=0"
    } else if w == T::BITS {
        "bp:W=bits(T)"
    } else {
        "bp:0<W<bits(T)"
    });
    if w > 0 && w < T::BITS {
        obs.nontrivial(format!("bp|u{}|w{}|{:?}", T::BITS, w, c.pat));
    }
    Ok(())
}

// ---------------------------------------------------------------------------

impl Property for C28 {
    type Input = Input;
    fn id(&self) -> &'static str {
        "C28"
    }
    fn rule(&self) -> String {
        "FSST: a byte-string array is built from a pool of 1-9 string specs (literal bytes, repeated units, incompressible splitmix bytes, byte ramps through all 256 values, vocabulary text; lengths 0, <5, ~8, <64, <505, 505-520 (the 511-byte chunking), up to 3000) cycled until a generated total (below 32 KiB, 32 KiB +-3 exactly, up to 6x32 KiB) is reached, with i32 or i64 offsets, optionally with 0-3 strings sliced off the offsets at either end while the value buffer stays whole; buffers are sized as lance-encoding sizes them (2x for compress, 8x for decompress); compress must return Err or decompress must give every string, the offsets and (unsliced) the whole buffer back; 1-2 rounds per input because fsst samples with an OS-seeded RNG. Non-trivial = the symbol-table path ran (value buffer >= 32 KiB, header switch set); distinct by (offset width, sliced, spec kinds, size/16K, compression-ratio bucket, log2 #strings, distinct bytes/32). Bit-packing: all 124 (T, W) pairs, T in u8/u16/u32/u64, W in 0..=bits(T), are enumerated every run with three fixed patterns and drawn uniformly in the random part; 1024 values (random, all-ones, zeros, index*odd, one-hot, alternating, high bit, random low bit) masked to W bits; packed buffer exactly 1024*W/bits(T) elements pre-filled with a generated filler byte (the in-tree caller passes uninitialised memory); unchecked_unpack(W, unchecked_pack(W, x)) == x. Non-trivial = 0 < W < bits(T); distinct by (T, W, pattern).".into()
    }
    fn assumptions(&self) -> Vec<String> {
        vec![
            "fsst::compress is called with the in-tree buffer sizes: symbol table FSST_SYMBOL_TABLE_SIZE, values 2*len, offsets 2*len; decompress with values 8*compressed_len, offsets len".into(),
            "fsst draws its training sample with StdRng::from_os_rng(): for value buffers >= 32 KiB the compressed bytes (not the round trip) differ from run to run; a failing case is therefore re-run by the engine and reported as flaky if it does not fail again".into(),
            "offsets sliced off a whole value buffer are only exercised when the sliced window still holds bytes (>= 1 byte per 50 strings): with a value buffer >= 32 KiB and an empty window make_sample() never terminates (zero strings: remainder by zero); no in-tree caller passes un-rebased offsets".into(),
            "bit-packing inputs are masked to W bits as the contract says; buffers have exactly the documented lengths".into(),
            "debug assertions and overflow checks are enabled in the harness build, so a debug_assert or arithmetic overflow inside the kernels is reported as a panic".into(),
        ]
    }
    fn cases(&self, tier: Tier) -> u32 {
        tier.pick(40_000, 1_500_000)
    }
    fn strategy(&self, _tier: Tier) -> BoxedStrategy<Input> {
        prop_oneof![
            45 => fsst_strategy().prop_map(Input::Fsst),
            55 => bp_strategy().prop_map(Input::Bitpack),
        ]
        .boxed()
    }
    fn enumerate(&self, _tier: Tier) -> Vec<Input> {
        let mut v = vec![];
        // all 124 (T, W) pairs x 3 fixed patterns
        for pair in 0..124usize {
            let (ty, width) = pair_of(pair);
            for (pat, seed, filler) in [(Pattern::IndexMul, 0x2545_F491_4F6C_DD1Du64 ^ pair as u64, 0xAAu8), (Pattern::Rand, 0x9E37_79B9u64 + pair as u64, 0xFF), (Pattern::AllOnes, 0, 0x00)] {
                v.push(Input::Bitpack(BpCase { ty, width, pat, seed, filler }));
            }
        }
        // FSST: fixed corner inputs, both offset widths
        let lim = FSST_LEAST_INPUT_SIZE as u32;
        for wide in [false, true] {
            let mk = |pool: Vec<StrSpec>, total: u32, exact: bool, vary: bool| Input::Fsst(FsstCase { wide, pool, total, exact, vary, lead: 0, tail: 0, rounds: 2 });
            // empty array of one empty string; only empty strings
            v.push(mk(vec![StrSpec::Lit(vec![])], 0, false, false));
            v.push(mk(vec![StrSpec::Lit(vec![]), StrSpec::Lit(vec![]), StrSpec::Lit(vec![])], 100, false, false));
            for total in [lim - 1, lim, lim + 1] {
                // threshold, incompressible and text
                v.push(mk(vec![StrSpec::Rand { seed: 7, len: 100 }], total, true, true));
                v.push(mk(vec![StrSpec::Words { seed: 11, vocab: 12, len: 61 }, StrSpec::Lit(vec![])], total, true, true));
            }
            // every byte value, in every position class
            v.push(mk(vec![StrSpec::Ramp { start: 0, step: 1, len: 256 }], lim + 5000, false, false));
            v.push(mk(vec![StrSpec::Ramp { start: 3, step: 7, len: 1000 }, StrSpec::Lit(vec![255, 255, 255])], lim + 5000, false, false));
            // only the escape byte / one repeated byte / long repeats
            v.push(mk(vec![StrSpec::Rep { unit: vec![255], times: 600 }], lim + 1000, false, false));
            v.push(mk(vec![StrSpec::Rep { unit: vec![0], times: 3 }], lim, false, false));
            v.push(mk(vec![StrSpec::Rep { unit: b"abcdefgh".to_vec(), times: 300 }, StrSpec::Rep { unit: b"abcdefghi".to_vec(), times: 57 }], 3 * lim, false, false));
            // incompressible, long strings
            v.push(mk(vec![StrSpec::Rand { seed: 99, len: 3000 }], 4 * lim, false, true));
            // strings shorter than FSST_LEAST_INPUT_MAX_LENGTH only
            v.push(mk(vec![StrSpec::Rand { seed: 5, len: 3 }, StrSpec::Lit(vec![b'a']), StrSpec::Lit(vec![])], lim + 100, false, true));
            // strings of exactly 511 / 512 / 1022 bytes (chunk boundaries)
            v.push(mk(vec![StrSpec::Words { seed: 3, vocab: 30, len: 511 }, StrSpec::Words { seed: 4, vocab: 30, len: 512 }, StrSpec::Words { seed: 5, vocab: 5, len: 1022 }], 2 * lim, false, true));
            // sliced offsets above and below the threshold
            v.push(Input::Fsst(FsstCase { wide, pool: vec![StrSpec::Words { seed: 21, vocab: 20, len: 40 }, StrSpec::Rand { seed: 1, len: 9 }], total: lim + 3000, exact: false, vary: true, lead: 2, tail: 1, rounds: 2 }));
            v.push(Input::Fsst(FsstCase { wide, pool: vec![StrSpec::Words { seed: 21, vocab: 20, len: 40 }, StrSpec::Rand { seed: 1, len: 9 }], total: 2000, exact: false, vary: true, lead: 1, tail: 2, rounds: 1 }));
        }
        v
    }
    fn check(&self, input: &Input, obs: &mut Obs, _env: &Env) -> CheckResult {
        match input {
            Input::Fsst(c) => {
                if c.wide {
                    run_fsst::<i64>(c, obs)
                } else {
                    run_fsst::<i32>(c, obs)
                }
            }
            Input::Bitpack(c) => {
                let bits = [8usize, 16, 32, 64][(c.ty as usize).min(3)];
                if c.width as usize > bits {
                    // not a generated input (hand-written replay): outside the contract
                    obs.label("bp:width>bits-ignored");
                    return Ok(());
                }
                match c.ty {
                    0 => run_bp::<u8>(c, obs),
                    1 => run_bp::<u16>(c, obs),
                    2 => run_bp::<u32>(c, obs),
                    _ => run_bp::<u64>(c, obs),
                }
            }
        }
    }
    fn render(&self, input: &Input) -> serde_json::Value {
        truncate_json(serde_json::to_value(input).unwrap_or(serde_json::Value::Null), 1500)
    }
}
