//! C29 — Statistics-based pruning is conservative.
//!
//! Carrier (a): tables in the legacy 0.1 file format, scanned with `use_stats(true)` and no explicit batch size
//! (`LancePushdownScanExec`, the only place where page statistics prune data).  Carrier (b): zone-map indices
//! (code shared with C20).

use super::c20;
use crate::engine::*;
use crate::model::*;
use crate::store::{self, VStore};
use crate::world::{handler_of, mk_write_params, new_session, raw_pred, RawPred, TableCfg};
use arrow_array::{Int64Array, RecordBatch, RecordBatchIterator};
use futures::TryStreamExt;
use lance::dataset::WriteMode;
use lance::Dataset;
use proptest::prelude::*;
use serde::{Deserialize, Serialize};
use std::cmp::Ordering;
use std::sync::Arc;

pub struct C29;

#[derive(Clone, Debug, PartialEq, Eq, Serialize, Deserialize)]
pub struct Legacy {
    /// (type index into ColType::ALL, nullable); nullable is honoured only for Utf8 / LargeUtf8 (the types the
    /// legacy format stores NULLs for among the model's types, see Dataset::lance_supports_nulls)
    pub cols: Vec<(u8, bool)>,
    /// row seeds of the create call and of every append
    pub writes: Vec<Vec<u16>>,
    pub max_rows_per_file: u16,
    pub max_rows_per_group: u16,
    /// delete these rows (fractions of the uid list)
    pub delete: Vec<u16>,
    pub preds: Vec<RawPred>,
    pub probes: Vec<u16>,
    pub v2_manifest: bool,
    pub handler: u8,
}

#[derive(Clone, Debug, PartialEq, Eq, Serialize, Deserialize)]
pub enum Input {
    Legacy(Legacy),
    Zone(c20::Input),
}

// ---------------------------------------------------------------------------
// values: the model's pools plus strings around the statistics truncation length (64 bytes)

fn str_pool() -> Vec<String> {
    let a64 = "a".repeat(64);
    vec![
        "".into(),
        "a".into(),
        "ab".into(),
        "b".into(),
        "é".into(),
        "zz".into(),
        a64.clone(),
        format!("{a64}a"),
        format!("{a64}b"),
        format!("{}é", "a".repeat(63)),
        format!("{}bzzz", "a".repeat(63)),
        "é".repeat(32),
        format!("{}x", "é".repeat(32)),
        "é".repeat(33),
        "\u{10FFFF}".repeat(17),
        "\u{7f}".repeat(70),
        "日本".repeat(12),
        "a".repeat(63),
        format!("{}b", "a".repeat(62)),
        "B".into(),
    ]
}

fn val29(ty: ColType, nullable: bool, seed: u16) -> Val {
    if nullable && seed % 5 == 0 {
        return Val::Null;
    }
    if ty.is_string() {
        let p = str_pool();
        let v = p[(seed as usize / 2) % p.len()].clone();
        // the legacy format reads an empty string of a nullable column back as NULL: write NULL in the first place
        if nullable && v.is_empty() {
            return Val::Null;
        }
        return Val::S(v);
    }
    val_from_seed(ty, false, seed)
}

/// Port of truncate_utf8 / increment_utf8 / get_string_statistics (lance-file/src/previous/writer/statistics.rs):
/// (min, max bound, bounds_truncated) the legacy writer records for a page of strings; max = None when the
/// truncated maximum cannot be incremented.  Used only to attribute observed discrepancies to listed findings.
fn lance_string_bounds(vals: &[&Val]) -> Option<(String, Option<String>, bool)> {
    fn trunc(s: &str) -> &str {
        let mut cut = 64;
        while !s.is_char_boundary(cut) {
            cut -= 1;
        }
        &s[..cut]
    }
    fn increment(mut data: Vec<u8>) -> Option<Vec<u8>> {
        for idx in (0..data.len()).rev() {
            let original = data[idx];
            let (mut byte, mut overflow) = data[idx].overflowing_add(1);
            while !overflow {
                data[idx] = byte;
                if std::str::from_utf8(&data).is_ok() {
                    return Some(data);
                }
                (byte, overflow) = data[idx].overflowing_add(1);
            }
            data[idx] = original;
        }
        None
    }
    let mut truncated = false;
    let mut min: Option<&str> = None;
    let mut max: Option<&str> = None;
    for v in vals {
        if let Val::S(s) = v {
            let mut t: &str = s.as_str();
            if t.len() > 64 {
                truncated = true;
                t = trunc(t);
            }
            if min.map(|m| t < m).unwrap_or(true) {
                min = Some(t);
            }
            if max.map(|m| t > m).unwrap_or(true) {
                max = Some(t);
            }
        }
    }
    let (min, max) = (min?, max?);
    let bound = if truncated { increment(max.as_bytes().to_vec()).map(|b| String::from_utf8(b).unwrap()) } else { Some(max.to_string()) };
    Some((min.to_string(), bound, truncated))
}

/// the truncated maximum of the page cannot be incremented (all U+10FFFF, all 0x7F, ...): max_value is NULL
fn max_bound_overflows(vals: &[&Val]) -> bool {
    matches!(lance_string_bounds(vals), Some((_, None, true)))
}

/// a value of the page is larger than the recorded upper bound
fn max_bound_too_small(vals: &[&Val]) -> bool {
    match lance_string_bounds(vals) {
        Some((_, Some(bound), true)) => vals.iter().any(|v| matches!(v, Val::S(s) if s.as_str() > bound.as_str())),
        _ => false,
    }
}

fn finite(v: Val) -> Val {
    match v {
        Val::F(b) if !f64::from_bits(b).is_finite() => Val::f(2.5),
        v => v,
    }
}

fn lit29(ty: ColType, seed: u16) -> Val {
    finite(val29(ty, false, seed | 1))
}

fn schema_of(l: &Legacy) -> TableSchema {
    TableSchema {
        cols: l
            .cols
            .iter()
            .enumerate()
            .map(|(i, (t, n))| {
                let ty = ColType::ALL[*t as usize % ColType::ALL.len()];
                ColSpec { name: format!("c{i}"), ty, nullable: *n && ty.is_string(), cid: i as u32 + 1 }
            })
            .collect(),
    }
}

fn pick_col(schema: &TableSchema, col: u8) -> (String, ColType) {
    let n = schema.cols.len() + 1;
    let i = col as usize % n;
    if i == schema.cols.len() {
        (UID.to_string(), ColType::I64)
    } else {
        (schema.cols[i].name.clone(), schema.cols[i].ty)
    }
}

/// like world::resolve_pred, with literals from this module's pools
fn resolve(p: &RawPred, schema: &TableSchema) -> BExpr {
    let lit = |ty: ColType, name: &str, seed: u16| if name == UID { Val::I((seed % 40) as i128) } else { lit29(ty, seed) };
    match p {
        RawPred::Cmp { col, op, lit: l } => {
            let (name, ty) = pick_col(schema, *col);
            if ty == ColType::Bool {
                return BExpr::Cmp { col: name, ty, op: if op % 2 == 0 { CmpOp::Eq } else { CmpOp::Ne }, lit: Val::B(l % 2 == 1) };
            }
            let v = lit(ty, &name, *l);
            BExpr::Cmp { col: name, ty, op: CmpOp::ALL[*op as usize % 6], lit: v }
        }
        RawPred::IsNull { col } => BExpr::IsNull { col: pick_col(schema, *col).0 },
        RawPred::IsNotNull { col } => BExpr::IsNotNull { col: pick_col(schema, *col).0 },
        RawPred::Between { col, lo, hi, neg } => {
            let (name, ty) = pick_col(schema, *col);
            if ty == ColType::Bool {
                return BExpr::IsNotNull { col: name };
            }
            BExpr::Between { lo: lit(ty, &name, *lo), hi: lit(ty, &name, *hi), col: name, ty, negated: *neg }
        }
        RawPred::In { col, lits, neg } => {
            let (name, ty) = pick_col(schema, *col);
            if ty == ColType::Bool {
                return BExpr::BoolCol { col: name, form: BoolForm::IsTrue };
            }
            BExpr::InList { list: lits.iter().map(|l| lit(ty, &name, *l)).collect(), col: name, ty, negated: *neg }
        }
        RawPred::BoolCol { col, form } => {
            let n = schema.cols.len();
            for k in 0..n {
                let c = &schema.cols[(*col as usize + k) % n.max(1)];
                if c.ty == ColType::Bool {
                    let form = [BoolForm::Plain, BoolForm::IsTrue, BoolForm::IsFalse, BoolForm::IsNotTrue, BoolForm::IsNotFalse][*form as usize % 5];
                    return BExpr::BoolCol { col: c.name.clone(), form };
                }
            }
            BExpr::IsNotNull { col: pick_col(schema, *col).0 }
        }
        RawPred::Like { col, lit: l } => {
            let n = schema.cols.len();
            for k in 0..n {
                let c = &schema.cols[(*col as usize + k) % n.max(1)];
                if c.ty.is_string() {
                    let prefix = match lit29(c.ty, *l) {
                        Val::S(s) => s.chars().filter(|ch| *ch != '%' && *ch != '_' && *ch != '\\').take(if l % 3 == 0 { 66 } else { 2 }).collect(),
                        _ => String::new(),
                    };
                    return BExpr::LikePrefix { col: c.name.clone(), prefix, negated: false, ci: false };
                }
            }
            BExpr::IsNull { col: pick_col(schema, *col).0 }
        }
        RawPred::Not(a) => BExpr::Not(Box::new(resolve(a, schema))),
        RawPred::And(a, b) => BExpr::And(Box::new(resolve(a, schema)), Box::new(resolve(b, schema))),
        RawPred::Or(a, b) => BExpr::Or(Box::new(resolve(a, schema)), Box::new(resolve(b, schema))),
        RawPred::Const(b) => BExpr::Const(*b),
    }
}

/// leaf predicates on column `ci`
fn leaf_panel(schema: &TableSchema, ci: usize, probes: &[u16]) -> Vec<BExpr> {
    let c = &schema.cols[ci];
    let (col, ty) = (c.name.clone(), c.ty);
    let mut out = vec![];
    for (k, s) in probes.iter().enumerate() {
        if ty == ColType::Bool {
            out.push(BExpr::Cmp { col: col.clone(), ty, op: CmpOp::Eq, lit: Val::B(s % 2 == 0) });
            continue;
        }
        out.push(BExpr::Cmp { col: col.clone(), ty, op: CmpOp::ALL[(*s as usize + k) % 6], lit: lit29(ty, *s) });
        if k % 3 == 1 {
            out.push(BExpr::Between { col: col.clone(), ty, lo: lit29(ty, *s), hi: lit29(ty, s.wrapping_add(4)), negated: false });
        }
        if k % 3 == 2 {
            out.push(BExpr::InList { col: col.clone(), ty, list: vec![lit29(ty, *s), lit29(ty, s.wrapping_add(6))], negated: false });
        }
    }
    out.push(BExpr::IsNull { col: col.clone() });
    out.push(BExpr::IsNotNull { col });
    out
}

// ---------------------------------------------------------------------------
// which pages can statistics exclude (inference from the page layout: min / max over the non-null, non-NaN values,
// null count) — used for classification only

struct PageStat {
    min: Option<Val>,
    max: Option<Val>,
    nulls: usize,
    len: usize,
    ambiguous: bool,
}

fn plain_cmp(a: &Val, b: &Val) -> Option<Ordering> {
    match (a, b) {
        (Val::F(x), Val::F(y)) => f64::from_bits(*x).partial_cmp(&f64::from_bits(*y)),
        _ => sql_cmp(a, b),
    }
}

fn page_stat(vals: &[&Val]) -> PageStat {
    let mut st = PageStat { min: None, max: None, nulls: 0, len: vals.len(), ambiguous: false };
    for v in vals {
        match v {
            Val::Null => st.nulls += 1,
            Val::F(b) if f64::from_bits(*b).is_nan() => {}
            Val::S(s) if s.len() > 60 => st.ambiguous = true,
            v => {
                if st.min.as_ref().map(|m| plain_cmp(v, m) == Some(Ordering::Less)).unwrap_or(true) {
                    st.min = Some((*v).clone());
                }
                if st.max.as_ref().map(|m| plain_cmp(v, m) == Some(Ordering::Greater)).unwrap_or(true) {
                    st.max = Some((*v).clone());
                }
            }
        }
    }
    st
}

/// can min/max/null-count statistics alone prove that no row of the page satisfies the leaf predicate?
fn stats_exclude(p: &BExpr, st: &PageStat, nullable: bool) -> bool {
    if st.ambiguous || st.len == 0 {
        return false;
    }
    let all_null = st.nulls == st.len;
    let (Some(min), Some(max)) = (&st.min, &st.max) else {
        // no comparable value: all NULL (excludes everything but IS NULL) or all NaN (excludes nothing)
        return all_null && !matches!(p, BExpr::IsNull { .. });
    };
    let lt = |a: &Val, b: &Val| plain_cmp(a, b) == Some(Ordering::Less);
    match p {
        BExpr::Cmp { op, lit, .. } => match op {
            CmpOp::Eq => lt(lit, min) || lt(max, lit),
            CmpOp::Lt => !lt(min, lit),
            CmpOp::Le => lt(lit, min),
            CmpOp::Gt => !lt(lit, max),
            CmpOp::Ge => lt(max, lit),
            CmpOp::Ne => false,
        },
        BExpr::Between { lo, hi, negated: false, .. } => lt(max, lo) || lt(hi, min),
        BExpr::InList { list, negated: false, .. } => list.iter().all(|l| lt(l, min) || lt(max, l)),
        BExpr::IsNull { .. } => !nullable || st.nulls == 0,
        BExpr::IsNotNull { .. } => false,
        _ => false,
    }
}

// ---------------------------------------------------------------------------

async fn scan_uids(ds: &Dataset, sql: &str, use_stats: bool) -> Result<Vec<i64>, String> {
    let mut sc = ds.scan();
    sc.project(&[UID]).map_err(|e| e.to_string())?;
    sc.filter(sql).map_err(|e| e.to_string())?;
    sc.use_stats(use_stats);
    let batches: Vec<RecordBatch> = sc.try_into_stream().await.map_err(|e| e.to_string())?.try_collect().await.map_err(|e| e.to_string())?;
    let mut out = vec![];
    for b in &batches {
        let u = b.column_by_name(UID).and_then(|c| c.as_any().downcast_ref::<Int64Array>().cloned()).ok_or("no uid column")?;
        out.extend(u.values().iter().copied());
    }
    out.sort_unstable();
    Ok(out)
}

async fn plan_of(ds: &Dataset, sql: &str, use_stats: bool) -> String {
    let mut sc = ds.scan();
    if sc.project(&[UID]).is_err() || sc.filter(sql).is_err() {
        return String::new();
    }
    sc.use_stats(use_stats);
    sc.explain_plan(false).await.unwrap_or_default()
}

async fn run_legacy(l: &Legacy, obs: &mut Obs, env: &Env) -> CheckResult {
    let schema = schema_of(l);
    if schema.cols.is_empty() || l.writes.is_empty() {
        return Ok(());
    }
    let store = VStore::new();
    let session = new_session(&store);
    let handler = handler_of(l.handler);
    let tcfg = TableCfg { cols: vec![], stable_row_ids: false, storage: 0, v2_manifest: l.v2_manifest, handler: l.handler };
    let uri = store::uri("t");
    let arrow = Arc::new(schema.arrow());
    let group = l.max_rows_per_group.max(1) as usize;
    let file_rows = (l.max_rows_per_file.max(1) as usize).max(group);
    // pages of the model: every write call starts a new file; a file is closed once it holds >= max_rows_per_file rows
    let mut rows: Vec<Row> = vec![];
    let mut pages: Vec<Vec<i64>> = vec![];
    let mut ds: Option<Dataset> = None;
    let mut next_uid = 0i64;
    for (wi, w) in l.writes.iter().enumerate() {
        let rs: Vec<Row> = w
            .iter()
            .map(|s| {
                let u = next_uid;
                next_uid += 1;
                Row { uid: u, vals: schema.cols.iter().enumerate().map(|(i, c)| val29(c.ty, c.nullable, s.wrapping_add(i as u16 * 3))).collect() }
            })
            .collect();
        // known finding: a page of a NON-nullable string column whose truncated maximum cannot be incremented makes the
        // statistics writer panic (max_value is NULL in a non-nullable struct field)
        for (ci, c) in schema.cols.iter().enumerate() {
            if c.ty.is_string() && !c.nullable && rs.chunks(group).any(|pg| max_bound_overflows(&pg.iter().map(|r| &r.vals[ci]).collect::<Vec<_>>())) {
                obs.label("page-max-bound-overflows");
                if env.known("C29-legacy-stats-max-overflow-panic") {
                    obs.known_hit("C29-legacy-stats-max-overflow-panic", format!("write {wi}: column {} has a page whose truncated maximum is all U+10FFFF", c.name));
                    return Ok(());
                }
            }
        }
        let reader = RecordBatchIterator::new(vec![Ok(rows_to_batch(&schema, &rs))], arrow.clone());
        let mut params = mk_write_params(&handler, &tcfg, &session, if wi == 0 { WriteMode::Create } else { WriteMode::Append }, file_rows);
        params.max_rows_per_group = group;
        let r = match ds.as_mut() {
            None => Dataset::write(reader, &uri, Some(params)).await.map(Some),
            Some(d) => d.append(reader, Some(params)).await.map(|_| None),
        };
        match r {
            Ok(Some(d)) => ds = Some(d),
            Ok(None) => {}
            Err(e) => {
                obs.rejected += 1;
                obs.label(format!("rejected:write:{}", truncate_str(&e.to_string(), 40)));
                return Ok(());
            }
        }
        // page layout of this write: groups of `group` rows; files closed after reaching file_rows
        let mut in_file = 0usize;
        for chunk in rs.chunks(group) {
            pages.push(chunk.iter().map(|r| r.uid).collect());
            in_file += chunk.len();
            if in_file >= file_rows {
                in_file = 0;
            }
        }
        rows.extend(rs);
    }
    let mut ds = ds.unwrap();
    if !l.delete.is_empty() && !rows.is_empty() {
        let mut gone: Vec<i64> = l.delete.iter().map(|f| rows[idx(*f, rows.len())].uid).collect();
        gone.sort_unstable();
        gone.dedup();
        let sql = format!("uid IN ({})", gone.iter().map(|u| u.to_string()).collect::<Vec<_>>().join(", "));
        match ds.delete(&sql).await {
            Ok(_) => {
                rows.retain(|r| !gone.contains(&r.uid));
                obs.label("with-deletions");
            }
            Err(e) => {
                obs.rejected += 1;
                obs.label(format!("rejected:delete:{}", truncate_str(&e.to_string(), 40)));
            }
        }
    }
    let nfrag = ds.get_fragments().len();
    obs.label(format!("fragments:{}", nfrag.min(4)));
    obs.label(format!("pages:{}", match pages.len() { 0..=1 => "1", 2..=3 => "2-3", 4..=8 => "4-8", _ => "9+" }));
    // the whole table reads back (no filter: no statistics involved)
    let got = crate::world::scan_rows(&ds, &schema, false).await.map_err(|m| Failure::new("scan-error", m))?;
    {
        let mut g = got.clone();
        g.sort();
        let mut w = rows.clone();
        w.sort();
        if g != w {
            return Err(Failure::new("rows-mismatch", crate::world::diff_rows(&got, &rows)));
        }
    }
    let has_nan = |ci: usize| rows.iter().any(|r| matches!(&r.vals[ci], Val::F(b) if f64::from_bits(*b).is_nan()));
    let has_null = |ci: usize| rows.iter().any(|r| r.vals[ci].is_null());
    let mut preds: Vec<(BExpr, Option<usize>)> = l.preds.iter().map(|p| (resolve(p, &schema), None)).collect();
    for ci in 0..schema.cols.len().min(2) {
        preds.extend(leaf_panel(&schema, ci, &l.probes).into_iter().map(|p| (p, Some(ci))));
    }
    let mut nt: Option<String> = None;
    for (p, leaf_col) in preds {
        let sql = p.sql();
        let mut cols = vec![];
        p.columns(&mut cols);
        let float_involved = cols.iter().any(|c| schema.col(c).map(|(_, s)| s.ty.is_float()).unwrap_or(false));
        let mut want: Vec<i64> = rows.iter().filter(|r| eval_row(&p, &schema, r) == Some(true)).map(|r| r.uid).collect();
        want.sort_unstable();
        let plain = match scan_uids(&ds, &sql, false).await {
            Ok(v) => v,
            Err(m) => {
                if scan_uids(&ds, &sql, true).await.is_ok() {
                    return Err(Failure::new("no-stats-scan-error", format!("{sql:?} fails only with use_stats(false): {m}")));
                }
                obs.rejected += 1;
                obs.label(format!("planner-rejected:{}", truncate_str(&m, 40)));
                continue;
            }
        };
        obs.inner += 1;
        // literals above i64::MAX on UInt64 columns are coerced differently depending on where they stand in the
        // expression (C16's subject): the model comparison is skipped for them
        let big_literal = format!("{p:?}").split(|c: char| !c.is_ascii_digit()).any(|t| t.len() >= 19 && t.parse::<i64>().is_err());
        // an IN list combined with another comparison / list on the same column is mis-folded by the expression
        // simplifier (C16's subject, see C16-simplifier-null-tautology; seen here on a NON-nullable column too:
        // `NOT (c0 IN (2)) AND c0 IN (2)` returns the rows with c0 = 2): no model comparison for that shape
        let in_list_combination = in_list_combined(&p);
        if in_list_combination {
            obs.label("model-comparison-skipped:in-list-combined-with-other-atom");
        }
        if plain != want && !float_involved && !big_literal && !in_list_combination {
            return Err(Failure::new("scan-vs-model", format!("{sql:?} with use_stats(false) returns uids {plain:?}, model {want:?}")));
        }
        let pruned = match scan_uids(&ds, &sql, true).await {
            Ok(v) => v,
            Err(m) => return Err(Failure::new("stats-scan-error", format!("{sql:?} fails only with use_stats(true): {m}"))),
        };
        if pruned != plain {
            let missing: Vec<i64> = plain.iter().filter(|u| !pruned.contains(u)).copied().collect();
            let extra: Vec<i64> = pruned.iter().filter(|u| !plain.contains(u)).copied().collect();
            let show = |us: &[i64]| us.iter().map(|u| format!("{u}:{:?}", rows.iter().find(|r| r.uid == *u).map(|r| r.vals.iter().map(|v| v.short()).collect::<Vec<_>>()))).collect::<Vec<_>>().join(" ");
            let detail = format!("{sql:?}: use_stats(true) returns uids {pruned:?}, use_stats(false) {plain:?}; missing [{}] extra [{}] (max_rows_per_group {group})", show(&missing), show(&extra));
            // every discrepant row must be explained by a listed finding about the page statistics
            let pred_cols: Vec<usize> = cols.iter().filter_map(|c| schema.col(c)).map(|(i, _)| i).collect();
            let page_of = |u: i64| pages.iter().find(|pg| pg.contains(&u));
            let explain = |u: &i64| -> Option<&'static str> {
                let pg = page_of(*u)?;
                for ci in &pred_cols {
                    let c = &schema.cols[*ci];
                    let mine = written_value(l, &schema, *u, *ci);
                    let vals: Vec<Val> = pg.iter().map(|x| written_value(l, &schema, *x, *ci)).collect();
                    let refs: Vec<&Val> = vals.iter().collect();
                    // (1) NaN is ignored by min/max and not counted, the filter orders it above every number
                    if c.ty.is_float() && matches!(&mine, Val::F(b) if f64::from_bits(*b).is_nan()) {
                        return Some("C29-legacy-stats-ignore-nan");
                    }
                    // (2) a page with NULLs whose non-null values are all equal: the simplifier replaces the column by that constant
                    if mine.is_null() {
                        let non_null: Vec<&Val> = refs.iter().copied().filter(|v| !v.is_null()).collect();
                        if !non_null.is_empty() && non_null.iter().all(|v| *v == non_null[0]) {
                            return Some("C29-legacy-stats-null-in-constant-page");
                        }
                    }
                    // (3) the upper bound of a page with truncated strings is smaller than one of its values
                    if c.ty.is_string() && max_bound_too_small(&refs) {
                        return Some("C29-legacy-stats-truncated-max-too-small");
                    }
                }
                None
            };
            let ids: Vec<Option<&'static str>> = missing.iter().chain(extra.iter()).map(explain).collect();
            if ids.iter().all(|i| i.is_some()) {
                let kind = match ids[0].unwrap() {
                    "C29-legacy-stats-ignore-nan" => "stats-pruning-dropped-nan-row",
                    "C29-legacy-stats-null-in-constant-page" => "stats-pruning-null-in-constant-page",
                    _ => "stats-pruning-truncated-max",
                };
                if ids.iter().all(|i| env.known(i.unwrap())) {
                    obs.known_hit(ids[0].unwrap(), detail);
                    continue;
                }
                return Err(Failure::new(kind, detail));
            }
            if !missing.is_empty() {
                return Err(Failure::new("stats-pruning-dropped-row", detail));
            }
            return Err(Failure::new("stats-pruning-extra-row", detail));
        }
        // classification
        if let Some(ci) = leaf_col {
            let c = &schema.cols[ci];
            let mut excluded = 0;
            for pg in &pages {
                let vals: Vec<Val> = pg.iter().map(|u| written_value(l, &schema, *u, ci)).collect();
                let refs: Vec<&Val> = vals.iter().collect();
                if stats_exclude(&p, &page_stat(&refs), c.nullable) {
                    excluded += 1;
                }
            }
            if excluded > 0 {
                obs.label("page-excluded-by-stats");
                if excluded < pages.len() {
                    obs.label("some-pages-excluded-some-read");
                }
                if has_nan(ci) || has_null(ci) {
                    let plan = plan_of(&ds, &sql, true).await;
                    if plan.contains("LancePushdownScan") {
                        obs.label(if has_nan(ci) { "excluded-page+nan-column" } else { "excluded-page+null-column" });
                        if nt.is_none() {
                            nt = Some(format!("{:?}|{}|g{}|p{}|f{}|{}", c.ty, if has_nan(ci) { "nan" } else { "null" }, group, pages.len().min(12), nfrag.min(4), shape(&p)));
                        }
                    }
                }
            }
        }
    }
    if let Some(k) = nt {
        obs.nontrivial(k);
    }
    Ok(())
}

fn in_list_combined(p: &BExpr) -> bool {
    fn walk(p: &BExpr, out: &mut std::collections::BTreeMap<String, (usize, usize)>) {
        match p {
            BExpr::Cmp { col, .. } | BExpr::Between { col, .. } => out.entry(col.clone()).or_insert((0, 0)).0 += 1,
            BExpr::InList { col, .. } => {
                let e = out.entry(col.clone()).or_insert((0, 0));
                e.0 += 1;
                e.1 += 1;
            }
            BExpr::Not(a) => walk(a, out),
            BExpr::And(a, b) | BExpr::Or(a, b) => {
                walk(a, out);
                walk(b, out);
            }
            _ => {}
        }
    }
    let mut m = std::collections::BTreeMap::new();
    walk(p, &mut m);
    m.values().any(|(atoms, lists)| *lists >= 1 && *atoms >= 2)
}

/// the value written for row `uid` in column `ci` (statistics are computed at write time)
fn written_value(l: &Legacy, schema: &TableSchema, uid: i64, ci: usize) -> Val {
    let mut u = 0i64;
    for w in &l.writes {
        for s in w {
            if u == uid {
                let c = &schema.cols[ci];
                return val29(c.ty, c.nullable, s.wrapping_add(ci as u16 * 3));
            }
            u += 1;
        }
    }
    Val::Null
}

fn shape(p: &BExpr) -> &'static str {
    match p {
        BExpr::Cmp { op, .. } => op.sql(),
        BExpr::Between { .. } => "between",
        BExpr::InList { .. } => "in",
        BExpr::IsNull { .. } => "is-null",
        BExpr::IsNotNull { .. } => "is-not-null",
        _ => "other",
    }
}

async fn run_zone(z: &c20::Input, obs: &mut Obs, env: &Env) -> CheckResult {
    let sum = c20::run(z, obs, env).await?;
    if sum.nontrivial_probes > 0 && (sum.col_has_nan || sum.col_has_null) {
        let rows_per_zone = match z.cfg.kind {
            c20::Kind::ZoneMap { rows_per_zone } => rows_per_zone,
            _ => 0,
        };
        // c20::run set a key already; refine it with what C29 cares about
        let base = obs.nontrivial.take().unwrap_or_default();
        obs.nontrivial(format!("zone|z{rows_per_zone}|{}|{base}", if sum.col_has_nan { "nan" } else { "null" }));
    } else {
        obs.nontrivial = None;
    }
    Ok(())
}

const STAT_TYPES: &[u8] = &[0, 1, 2, 3, 4, 5, 6, 7, 8, 9, 9, 8, 10, 10, 11, 12, 13, 14];

fn legacy_strategy() -> BoxedStrategy<Legacy> {
    (
        prop::collection::vec((prop::sample::select(STAT_TYPES), prop::bool::weighted(0.7)), 1..4),
        prop::collection::vec(prop::collection::vec(0u16..60, 1..20), 1..4),
        prop_oneof![Just(4u16), Just(6), Just(12), Just(1000)],
        1u16..6,
        prop_oneof![2 => Just(vec![]), 1 => prop::collection::vec(any::<u16>(), 1..4)],
        prop::collection::vec(raw_pred(), 1..3),
        prop::collection::vec(0u16..60, 3..6),
        any::<bool>(),
        0u8..2,
    )
        .prop_map(|(cols, writes, max_rows_per_file, max_rows_per_group, delete, preds, probes, v2_manifest, handler)| Legacy { cols, writes, max_rows_per_file, max_rows_per_group, delete, preds, probes, v2_manifest, handler })
        .boxed()
}

impl Property for C29 {
    type Input = Input;
    fn id(&self) -> &'static str {
        "C29"
    }
    fn rule(&self) -> String {
        "Carrier (a), 2/3 of the cases: a table in the legacy 0.1 file format with 1-3 columns (all integer widths, Float32/64 incl. NaN, -0.0, +-inf, Utf8/LargeUtf8 incl. empty, multi-byte and strings of 62-72 bytes around the 64-byte statistics truncation length with shared prefixes and U+10FFFF runs, Bool, Date32, Timestamp; NULLs only in string columns, the types the legacy format stores NULLs for), written by 1-3 create/append calls with max_rows_per_group 1-5 (several statistics pages per file) and max_rows_per_file 4/6/12/1000, optionally some rows deleted. Predicates: 1-2 generated trees from the typed grammar (=,<>,<,<=,>,>=,[NOT] BETWEEN,[NOT] IN,LIKE prefix up to 66 chars,IS [NOT] NULL,boolean forms,NOT/AND/OR) plus a leaf panel on the first two columns. Oracle: the uid set with use_stats(true) and no batch size (LancePushdownScanExec) equals the set with use_stats(false), which equals the model's three-valued evaluator unless a float column is involved. A page counts as excluded when min/max/null-count over its written values prove a leaf predicate false. Carrier (b), 1/3: zone-map indices exactly as in C20 (index answer superset of the un-indexed scan, scan with = scan without index). Non-trivial = (a) a leaf predicate excludes >= 1 page, the plan contains LancePushdownScan and the column holds a NaN or NULL; (b) the zone map pruned >= 1 live row for a probe with >= 1 match and the column holds a NaN or NULL; distinct by (type, nan/null, group size, page count, fragments, predicate shape) resp. the C20 key.".into()
    }
    fn assumptions(&self) -> Vec<String> {
        vec![
            "statistics pruning exists only on the legacy read path with use_stats(true) and no explicit batch size (DESIGN Appendix A #12) and in zone-map indices".into(),
            "float literals are finite; the model comparison is skipped for predicates over float columns (NaN / -0.0 dialect), the use_stats(true)==use_stats(false) relation is asserted always".into(),
            "which pages statistics exclude is inferred from the written page layout (groups of max_rows_per_group rows per write call), not read from plan metrics: LancePushdownScanExec exposes no skipped-page counter".into(),
        ]
    }
    fn cases(&self, tier: Tier) -> u32 {
        tier.pick(600, 9000)
    }
    fn max_shrink_iters(&self) -> u32 {
        300
    }
    fn strategy(&self, _tier: Tier) -> BoxedStrategy<Input> {
        prop_oneof![
            2 => legacy_strategy().prop_map(Input::Legacy),
            1 => c20::input_strategy(c20::kind_zonemap()).prop_map(Input::Zone),
        ]
        .boxed()
    }
    fn check(&self, input: &Input, obs: &mut Obs, env: &Env) -> CheckResult {
        NAN_MODE.with(|m| m.set(true));
        let r = match input {
            Input::Legacy(l) => {
                obs.label("carrier:legacy-pages");
                env.block_on(run_legacy(l, obs, env))
            }
            Input::Zone(z) => {
                obs.label("carrier:zone-map");
                env.block_on(run_zone(z, obs, env))
            }
        };
        NAN_MODE.with(|m| m.set(false));
        r
    }
}
