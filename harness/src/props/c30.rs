//! C30 — The I/O scheduler returns exactly the requested bytes and always completes.
//!
//! Bytes part: a file whose content is a function of the offset lives in the
//! controlled store; a generated list of ranges (sorted by start, with empty /
//! overlapping / contained / adjacent / near / far members) is read through
//! `FileScheduler::submit_request`, `submit_single`, or `LanceEncodingsIo`
//! (small `read_chunk_size`).  Oracle: one buffer per range, in order, equal to
//! the slice computed from the content function.
//!
//! Schedule part: 1-6 requests with generated priorities over a tiny to ample
//! back-pressure budget; every store read parks at a gate and is released in a
//! generated order; a legal consumer; optionally the scheduler is dropped.
//! Runs on its own paused-clock current_thread runtime: a virtual-time timeout
//! can only fire once no task is runnable, i.e. on a real deadlock.

use crate::engine::*;
use crate::store::VStore;
use crate::{ensure, fail};
use bytes::Bytes;
use futures::future::BoxFuture;
use futures::FutureExt;
use lance_encoding::EncodingsIo;
use lance_file::LanceEncodingsIo;
use lance_io::object_store::ObjectStore as LanceObjectStore;
use lance_io::scheduler::{ScanScheduler, SchedulerConfig};
use lance_io::utils::CachedFileSize;
use object_store::path::Path;
use proptest::prelude::*;
use serde::{Deserialize, Serialize};
use std::collections::BTreeSet;
use std::ops::Range;
use std::panic::AssertUnwindSafe;
use std::sync::Arc;
use std::task::Poll;
use url::Url;

pub struct C30;

pub const KNOWN_EMPTY: &str = "C30-empty-range";

#[derive(Clone, Debug, Serialize, Deserialize, PartialEq)]
pub enum Len {
    /// 1..=64 bytes
    Small(u8),
    /// around the block size: block + d - 8
    Block(u8),
    /// a fraction of the file
    Frac(u16),
}

#[derive(Clone, Debug, Serialize, Deserialize, PartialEq)]
pub enum EmptyPos {
    Zero,
    Eof,
    PrevStart,
    PrevEnd,
    /// strictly inside the previous range (if it has >= 2 bytes)
    InsidePrev(u16),
    At(u16),
}

#[derive(Clone, Debug, Serialize, Deserialize, PartialEq)]
pub enum RangeSpec {
    /// anywhere in the file
    Abs { start: u16, len: Len },
    /// starts exactly where the previous one ends
    Adjacent { len: Len },
    /// starts `gap` bytes after the previous end (gap around the block size)
    Near { gap: u16, len: Len },
    /// starts inside the previous one and runs past its end
    Overlap { back: u16, len: Len },
    /// lies inside the previous one
    Contained { off: u16, len: u16 },
    /// identical to the previous one
    Same,
    Empty(EmptyPos),
}

#[derive(Clone, Debug, Serialize, Deserialize, PartialEq)]
pub enum Api {
    FileSubmit,
    FileSingle,
    EncIo { chunk: u32 },
    EncIoSingle { chunk: u32 },
}

#[derive(Clone, Debug, Serialize, Deserialize, PartialEq)]
pub struct BytesCase {
    pub file_len: u32,
    pub salt: u8,
    pub block_size: u16,
    pub ranges: Vec<RangeSpec>,
    /// Some(keys): the list is permuted by these keys (separately labelled class, reported not asserted)
    pub unsorted: Option<Vec<u16>>,
    pub api: Api,
    pub priority: u64,
}

#[derive(Clone, Debug, Serialize, Deserialize, PartialEq)]
pub enum Budget {
    One,
    Bytes(u32),
    Ample,
}

#[derive(Clone, Debug, Serialize, Deserialize, PartialEq)]
pub struct ReqSpec {
    /// (start fraction, length 1..) non-empty ranges, sorted before submission
    pub ranges: Vec<(u16, u16)>,
    pub prio: u8,
    pub base: u8,
}

#[derive(Clone, Copy, Debug, Serialize, Deserialize, PartialEq)]
pub enum Consumer {
    /// polls every outstanding response future
    Concurrent,
    /// polls only the most urgent outstanding response future
    PriorityOrder,
}

#[derive(Clone, Debug, Serialize, Deserialize, PartialEq)]
pub enum Step {
    Submit,
    Release(u16),
    Poll,
    DropScheduler,
}

#[derive(Clone, Debug, Serialize, Deserialize, PartialEq)]
pub struct SchedCase {
    pub file_len: u32,
    pub salt: u8,
    pub block_size: u16,
    pub io_par: u8,
    pub budget: Budget,
    pub reqs: Vec<ReqSpec>,
    pub consumer: Consumer,
    pub steps: Vec<Step>,
}

#[derive(Clone, Debug, Serialize, Deserialize, PartialEq)]
pub enum Input {
    Bytes(BytesCase),
    Sched(SchedCase),
}

// ---------------------------------------------------------------------------
// reference content

fn byte_at(off: u64, salt: u8) -> u8 {
    let x = (off as u32).wrapping_mul(0x9E37_79B1) ^ ((off >> 32) as u32);
    ((x >> 24) as u8) ^ ((x >> 9) as u8) ^ salt
}

fn content(len: u64, salt: u8) -> Vec<u8> {
    (0..len).map(|o| byte_at(o, salt)).collect()
}

fn slice_ok(got: &[u8], r: &Range<u64>, salt: u8) -> bool {
    got.len() as u64 == r.end - r.start && got.iter().enumerate().all(|(i, b)| *b == byte_at(r.start + i as u64, salt))
}

fn len_of(l: &Len, block: u64, file: u64) -> u64 {
    match l {
        Len::Small(v) => 1 + (*v as u64 % 64),
        Len::Block(d) => (block + *d as u64).saturating_sub(8).max(1),
        Len::Frac(f) => (idx(*f, file as usize + 1) as u64).max(1),
    }
}

/// the request list (sorted by start, stable) described by the specs
fn materialise(specs: &[RangeSpec], file: u64, block: u64) -> Vec<Range<u64>> {
    let mut out: Vec<Range<u64>> = vec![];
    // non-empty wherever the file has a byte (empty ranges come from the Empty spec only)
    let clamp = |s: u64, l: u64| -> Range<u64> {
        let s = s.min(file.saturating_sub(1));
        s..(s + l.max(1)).min(file)
    };
    for sp in specs {
        // the reference range: the last non-empty one generated so far (or the head of the file)
        let prev = out.iter().rev().find(|r| r.start < r.end).cloned().unwrap_or(0..file.min(64));
        let r = match sp {
            RangeSpec::Abs { start, len } => clamp(idx(*start, file as usize + 1) as u64, len_of(len, block, file)),
            RangeSpec::Adjacent { len } => clamp(prev.end, len_of(len, block, file)),
            RangeSpec::Near { gap, len } => clamp(prev.end + *gap as u64, len_of(len, block, file)),
            RangeSpec::Overlap { back, len } => {
                let s = prev.start + idx(*back, (prev.end - prev.start) as usize + 1) as u64;
                let r = clamp(s, len_of(len, block, file));
                r.start..r.end.max(prev.end.min(file)).max(r.start)
            }
            RangeSpec::Contained { off, len } => {
                let pl = prev.end - prev.start;
                let s = prev.start + idx(*off, pl as usize) as u64;
                let l = (*len as u64).min(prev.end - s);
                s..s + l
            }
            RangeSpec::Same => prev.clone(),
            RangeSpec::Empty(p) => {
                let s = match p {
                    EmptyPos::Zero => 0,
                    EmptyPos::Eof => file,
                    EmptyPos::PrevStart => prev.start,
                    EmptyPos::PrevEnd => prev.end,
                    EmptyPos::InsidePrev(f) => {
                        let pl = prev.end - prev.start;
                        if pl >= 2 {
                            prev.start + 1 + idx(*f, pl as usize - 1) as u64
                        } else {
                            prev.start
                        }
                    }
                    EmptyPos::At(f) => idx(*f, file as usize + 1) as u64,
                };
                s..s
            }
        };
        out.push(r);
    }
    out.sort_by_key(|r| r.start);
    out
}

/// Model of the physical requests (merge ranges whose gap is <= block size,
/// cut what exceeds the maximum request size).  Used to classify cases
/// (non-trivial rule, known-finding trigger, back-pressure detection), never
/// as the oracle for the returned bytes.
fn phys_model(ranges: &[Range<u64>], block: u64, max_iop: u64) -> (Vec<Range<u64>>, bool, bool) {
    let mut merged: Vec<Range<u64>> = vec![];
    let mut did_merge = false;
    for r in ranges {
        match merged.last_mut() {
            Some(c) if r.start <= c.end + block => {
                c.end = c.end.max(r.end);
                did_merge = true;
            }
            _ => merged.push(r.clone()),
        }
    }
    let mut out = vec![];
    let mut did_split = false;
    for r in merged {
        let l = r.end - r.start;
        if l == 0 {
            out.push(r);
            continue;
        }
        let n = l.div_ceil(max_iop);
        let per = l / n;
        did_split |= n > 1;
        for i in 0..n {
            let s = r.start + i * per;
            out.push(s..if i == n - 1 { r.end } else { s + per });
        }
    }
    (out, did_merge, did_split)
}

/// DESIGN hypothesis H: an empty range that is not strictly inside a physical request
fn boundary_empty(ranges: &[Range<u64>], phys: &[Range<u64>]) -> Option<Range<u64>> {
    ranges.iter().find(|r| r.start == r.end && !phys.iter().any(|p| p.start < r.start && r.start < p.end)).cloned()
}

fn is_sorted(r: &[Range<u64>]) -> bool {
    r.windows(2).all(|w| w[0].start <= w[1].start)
}

fn lance_store(store: &VStore, actor: u32, block: usize, io_par: usize) -> Arc<LanceObjectStore> {
    Arc::new(LanceObjectStore::new(
        Arc::new(store.as_actor(actor)),
        Url::parse("vs:///").unwrap(),
        Some(block),
        None,
        false,
        true,
        io_par,
        0,
        None,
    ))
}

enum Outcome {
    Hang,
    Data(Vec<Bytes>),
    Error(String),
    Panic(String),
}

/// (kind, detail) of the first discrepancy between the response and the file slices
fn compare(got: &[Bytes], ranges: &[Range<u64>], salt: u8) -> Option<(&'static str, String)> {
    for (i, (g, r)) in got.iter().zip(ranges.iter()).enumerate() {
        if !slice_ok(g, r, salt) {
            return Some((
                "bytes-content",
                format!("buffer {i} for range {r:?} has {} bytes and does not equal the file slice ({} bytes)", g.len(), r.end - r.start),
            ));
        }
    }
    if got.len() != ranges.len() {
        return Some(("bytes-count", format!("{} buffers for {} ranges", got.len(), ranges.len())));
    }
    None
}

fn trunc_ranges(r: &[Range<u64>]) -> String {
    if r.len() <= 24 {
        format!("{r:?}")
    } else {
        format!("{:?}…(+{})", &r[..24], r.len() - 24)
    }
}

fn paused_rt() -> Result<tokio::runtime::Runtime, Failure> {
    tokio::runtime::Builder::new_current_thread().enable_all().start_paused(true).build().map_err(|e| Failure::new("harness-runtime", e.to_string()))
}

impl C30 {
    fn check_bytes(&self, c: &BytesCase, obs: &mut Obs, env: &Env) -> CheckResult {
        let file = c.file_len as u64;
        let block = c.block_size.max(1) as u64;
        let mut ranges = materialise(&c.ranges, file, block);
        let mut unsorted = false;
        if let Some(keys) = &c.unsorted {
            let mut keyed: Vec<(u16, usize, Range<u64>)> = ranges.iter().cloned().enumerate().map(|(i, r)| (keys.get(i).copied().unwrap_or(0), i, r)).collect();
            keyed.sort_by_key(|k| (k.0, k.1));
            ranges = keyed.into_iter().map(|k| k.2).collect();
            unsorted = !is_sorted(&ranges);
        }
        let store = VStore::new();
        let path = Path::from("c30/file.bin");
        store.write_raw(&path, Bytes::from(content(file, c.salt)));
        let os = lance_store(&store, 1, block as usize, 8);
        let max_iop = os.max_iop_size();
        let single = matches!(c.api, Api::FileSingle | Api::EncIoSingle { .. });
        let (phys, did_merge, did_split) = if single {
            // every range is its own request
            let mut all = vec![];
            let mut split = false;
            for r in &ranges {
                let (p, _, s) = phys_model(std::slice::from_ref(r), block, max_iop);
                all.extend(p);
                split |= s;
            }
            (all, false, split)
        } else {
            phys_model(&ranges, block, max_iop)
        };
        let trigger = if unsorted {
            None
        } else if single {
            ranges.iter().find(|r| r.start == r.end).cloned()
        } else {
            boundary_empty(&ranges, &phys)
        };
        let enc_chunk = match c.api {
            Api::EncIo { chunk } | Api::EncIoSingle { chunk } => Some(chunk.max(1) as u64),
            _ => None,
        };
        store.enable_log(true);

        let api = c.api.clone();
        let prio = c.priority;
        let rs = ranges.clone();
        let p2 = path.clone();
        let rt = paused_rt()?;
        let _ = env;
        let outcome: Outcome = rt.block_on(async move {
            let sched = ScanScheduler::new(os, SchedulerConfig { io_buffer_size_bytes: 64 << 20 });
            let fs = match sched.open_file(&p2, &CachedFileSize::unknown()).await {
                Ok(f) => f,
                Err(e) => return Outcome::Error(format!("open_file: {e}")),
            };
            let fut: BoxFuture<'static, lance_core::Result<Vec<Bytes>>> = match api {
                Api::FileSubmit => fs.submit_request(rs, prio).boxed(),
                Api::FileSingle => futures::future::try_join_all(rs.into_iter().map(|r| fs.submit_single(r, prio))).boxed(),
                Api::EncIo { chunk } => LanceEncodingsIo::new(fs.clone()).with_read_chunk_size(chunk.max(1) as u64).submit_request(rs, prio),
                Api::EncIoSingle { chunk } => {
                    let io = LanceEncodingsIo::new(fs.clone()).with_read_chunk_size(chunk.max(1) as u64);
                    futures::future::try_join_all(rs.into_iter().map(|r| io.submit_single(r, prio))).boxed()
                }
            };
            // Nothing is gated: with a correct scheduler this resolves without the runtime ever going
            // idle, so the virtual-time timeout fires only on a lost wake-up / deadlock (confirmed
            // against real time because the process-wide IOPS semaphore is shared with other threads).
            let mut fut = AssertUnwindSafe(fut).catch_unwind();
            let mut tries = 0;
            let r = loop {
                match tokio::time::timeout(std::time::Duration::from_secs(3600), &mut fut).await {
                    Ok(r) => break Some(r),
                    Err(_) => {
                        tries += 1;
                        if tries > 20 {
                            break None;
                        }
                        std::thread::sleep(std::time::Duration::from_millis(50));
                    }
                }
            };
            drop(fut);
            drop(fs);
            drop(sched);
            for _ in 0..4 {
                tokio::task::yield_now().await;
            }
            match r {
                None => Outcome::Hang,
                Some(Ok(Ok(v))) => Outcome::Data(v),
                Some(Ok(Err(e))) => Outcome::Error(e.to_string()),
                Some(Err(p)) => Outcome::Panic(p.downcast_ref::<String>().cloned().or_else(|| p.downcast_ref::<&str>().map(|s| s.to_string())).unwrap_or_else(|| "<panic>".into())),
            }
        });
        drop(rt);
        let gets = store.take_log().iter().filter(|c| c.op == "get").count();
        obs.inner += ranges.len() as u64;

        // ---- classes
        let api_name = match c.api {
            Api::FileSubmit => "file-submit",
            Api::FileSingle => "file-single",
            Api::EncIo { .. } => "encio-submit",
            Api::EncIoSingle { .. } => "encio-single",
        };
        obs.label(format!("api:{api_name}"));
        let small_reader = file <= block;
        obs.label(if small_reader { "reader:small" } else { "reader:cloud" });
        if ranges.is_empty() {
            obs.label("list:empty");
        }
        let has_empty = ranges.iter().any(|r| r.start == r.end);
        if has_empty {
            obs.label("range:empty");
            for r in ranges.iter().filter(|r| r.start == r.end) {
                if r.start == 0 {
                    obs.label("range:empty-at-0");
                }
                if r.start == file {
                    obs.label("range:empty-at-eof");
                }
                if phys.iter().any(|p| p.start < r.start && r.start < p.end) {
                    obs.label("range:empty-inside-request");
                }
                if ranges.iter().any(|o| o.start != o.end && (o.start == r.start || o.end == r.start)) {
                    obs.label("range:empty-adjacent");
                }
            }
        }
        let mut rel = BTreeSet::new();
        for w in ranges.windows(2) {
            let (a, b) = (&w[0], &w[1]);
            if a.start == a.end || b.start == b.end || b.start < a.start {
                continue;
            }
            rel.insert(if a == b {
                "same"
            } else if b.end <= a.end && b.start < a.end {
                "contained"
            } else if b.start < a.end {
                "overlap"
            } else if b.start == a.end {
                "adjacent"
            } else if b.start <= a.end + block {
                "near"
            } else {
                "far"
            });
        }
        for r in &rel {
            obs.label(format!("rel:{r}"));
        }
        let chunked = enc_chunk.map(|ch| ranges.iter().any(|r| r.end - r.start > ch)).unwrap_or(false);
        if chunked {
            obs.label("encio:chunked");
        }
        if did_split {
            obs.label("phys:split-by-max-iop");
        }
        if did_merge {
            obs.label("phys:merged");
        }
        if !single && !small_reader && !unsorted {
            let expect_gets = phys.iter().filter(|p| p.start != p.end).count();
            if matches!(outcome, Outcome::Data(_)) && gets != expect_gets {
                // informational: the classification model and the store log disagree
                obs.label("model:phys-count-differs-from-store-log");
            }
        }

        // ---- unsorted lists: reported, never asserted
        if unsorted {
            obs.label("order:unsorted");
            let o = match &outcome {
                Outcome::Data(v) => match compare(v, &ranges, c.salt) {
                    None => "ok",
                    Some(("bytes-count", _)) => "wrong-count",
                    Some(_) => "wrong-bytes",
                },
                Outcome::Error(_) => "error",
                Outcome::Panic(_) => "panic",
                Outcome::Hang => "hang",
            };
            obs.label(format!("unsorted:{o}"));
            if has_empty {
                obs.label(format!("unsorted+empty:{o}"));
            }
            return Ok(());
        }
        obs.label("order:sorted");

        // ---- oracle
        let ctx = || format!("api={api_name} file={file} block={block} max_iop={max_iop} ranges={}", trunc_ranges(&ranges));
        let failure: Option<(&'static str, String)> = match &outcome {
            Outcome::Data(v) => compare(v, &ranges, c.salt),
            Outcome::Error(e) => Some(("bytes-error", format!("request failed: {e}"))),
            Outcome::Panic(p) => Some(("panic", format!("request panicked: {p}"))),
            Outcome::Hang => Some(("request-never-resolves", "the response future never resolves (runtime idle, nothing gated)".to_string())),
        };
        if let Some((kind, detail)) = failure {
            if let Some(er) = &trigger {
                // the structural trigger of the known finding is present: an empty range at `er`
                // that is not strictly inside any physical request
                let attributable = match (&outcome, &c.api) {
                    // the scheduler itself: a correct prefix, cut at an empty range
                    (Outcome::Data(v), Api::FileSubmit) => {
                        v.len() < ranges.len() && ranges[v.len()].start == ranges[v.len()].end && v.iter().zip(ranges.iter()).all(|(g, r)| slice_ok(g, r, c.salt))
                    }
                    // per-range submission: `.next().unwrap()` / `.pop().unwrap()` on the missing buffer
                    (Outcome::Panic(_), Api::FileSingle | Api::EncIoSingle { .. }) => true,
                    // LanceEncodingsIo re-assembles by position, a missing buffer shifts/garbles the rest
                    (Outcome::Data(_), Api::EncIo { .. }) => true,
                    _ => false,
                };
                if attributable {
                    let d = format!("empty range {er:?} not inside a physical request: {detail}; {}", ctx());
                    if env.known(KNOWN_EMPTY) {
                        obs.known_hit(KNOWN_EMPTY, d);
                        obs.label("known:empty-range-dropped");
                        return Ok(());
                    }
                    fail!("empty-range-dropped", "{d}");
                }
            }
            fail!(kind, "{detail}; {}", ctx());
        }
        if trigger.is_some() {
            obs.label("trigger-present-but-correct");
        }
        if did_merge || did_split || chunked {
            let mut r: Vec<&str> = rel.iter().copied().collect();
            if has_empty {
                r.push("empty");
            }
            obs.label("nontrivial");
            obs.nontrivial(format!("{api_name}|{}|m{}s{}c{}|{:?}|n{}", if small_reader { "small" } else { "cloud" }, did_merge as u8, did_split as u8, chunked as u8, r, ranges.len().min(6)));
        }
        Ok(())
    }

    fn check_sched(&self, c: &SchedCase, obs: &mut Obs, env: &Env) -> CheckResult {
        let file = c.file_len as u64;
        let block = c.block_size.max(1) as u64;
        let store = VStore::new();
        let path = Path::from("c30/sched.bin");
        store.write_raw(&path, Bytes::from(content(file, c.salt)));
        let os = lance_store(&store, 1, block as usize, c.io_par.max(1) as usize);
        let io_par = os.io_parallelism();
        let max_iop = os.max_iop_size();
        let budget = match c.budget {
            Budget::One => 1u64,
            Budget::Bytes(b) => b.max(1) as u64,
            Budget::Ample => 256 << 20,
        };
        #[derive(Clone)]
        struct Req {
            ranges: Vec<Range<u64>>,
            prio: u128,
            p64: u64,
            base: u64,
            phys: usize,
        }
        let reqs: Vec<Req> = c
            .reqs
            .iter()
            .map(|r| {
                let mut ranges: Vec<Range<u64>> = r
                    .ranges
                    .iter()
                    .map(|(s, l)| {
                        let s = idx(*s, file as usize) as u64;
                        s..(s + (*l as u64).max(1)).min(file)
                    })
                    .filter(|r| r.start < r.end)
                    .collect();
                ranges.sort_by_key(|r| r.start);
                let phys = phys_model(&ranges, block, max_iop).0.iter().filter(|p| p.start != p.end).count();
                Req { ranges, prio: ((r.base as u128) << 64) + r.prio as u128, p64: r.prio as u64, base: r.base as u64, phys }
            })
            .collect();
        let nreq = reqs.len();
        let salt = c.salt;
        let consumer = c.consumer;
        let steps = c.steps.clone();

        #[derive(Default)]
        struct Report {
            results: Vec<Option<Result<Vec<Bytes>, String>>>,
            resolved_after_drop: Vec<bool>,
            submitted: Vec<bool>,
            dropped: bool,
            backpressure: bool,
            out_of_order_release: bool,
            hang: Option<String>,
            unconfirmed_timeouts: u32,
        }

        // own runtime with a paused clock: timeouts run on virtual time and can only fire when the
        // runtime has nothing runnable
        let rt = paused_rt()?;
        let _ = env;
        let st = store.clone();
        let reqs_in = reqs.clone();
        let rep: Report = rt.block_on(async move {
            let reqs = reqs_in;
            let mut rep = Report { results: (0..nreq).map(|_| None).collect(), resolved_after_drop: vec![false; nreq], submitted: vec![false; nreq], ..Default::default() };
            let sched = ScanScheduler::new(os, SchedulerConfig { io_buffer_size_bytes: budget });
            let fs = match sched.open_file(&path, &CachedFileSize::unknown()).await {
                Ok(f) => f,
                Err(e) => {
                    rep.hang = Some(format!("open_file failed: {e}"));
                    return rep;
                }
            };
            let mut sched = Some(sched);
            let mut fs = Some(fs);
            st.gate_actor(1);
            let mut futs: Vec<Option<BoxFuture<'static, lance_core::Result<Vec<Bytes>>>>> = (0..nreq).map(|_| None).collect();
            let mut next_submit = 0usize;
            let mut seen_gates: BTreeSet<u64> = BTreeSet::new();
            let mut submitted_phys = 0usize;

            let settle = || async {
                for _ in 0..8 {
                    tokio::task::yield_now().await;
                }
            };
            // index of the most urgent outstanding request
            let head = |futs: &Vec<Option<BoxFuture<'static, lance_core::Result<Vec<Bytes>>>>>| -> Option<usize> { (0..nreq).filter(|i| futs[*i].is_some()).min_by_key(|i| (reqs[*i].prio, *i)) };

            for step in &steps {
                match step {
                    Step::Submit => {
                        if let (Some(f), true) = (fs.as_ref(), next_submit < nreq) {
                            let r = &reqs[next_submit];
                            let fut = f.with_priority(r.base).submit_request(r.ranges.clone(), r.p64).boxed();
                            futs[next_submit] = Some(fut);
                            rep.submitted[next_submit] = true;
                            submitted_phys += r.phys;
                            next_submit += 1;
                        }
                    }
                    Step::Release(f) => {
                        let p = st.pending();
                        if !p.is_empty() {
                            let k = idx(*f, p.len());
                            let oldest = p.iter().map(|x| x.0).min().unwrap();
                            if p[k].0 != oldest {
                                rep.out_of_order_release = true;
                            }
                            st.release(p[k].0);
                        }
                    }
                    Step::Poll => {
                        let targets: Vec<usize> = match consumer {
                            Consumer::Concurrent => (0..nreq).filter(|i| futs[*i].is_some()).collect(),
                            Consumer::PriorityOrder => head(&futs).into_iter().collect(),
                        };
                        for i in targets {
                            if let Poll::Ready(r) = futures::poll!(futs[i].as_mut().unwrap()) {
                                futs[i] = None;
                                rep.resolved_after_drop[i] = rep.dropped;
                                rep.results[i] = Some(r.map_err(|e| e.to_string()));
                            }
                        }
                    }
                    Step::DropScheduler => {
                        if !rep.dropped && next_submit > 0 {
                            fs = None;
                            sched = None;
                            rep.dropped = true;
                        }
                    }
                }
                settle().await;
                if !rep.dropped {
                    let p = st.pending();
                    seen_gates.extend(p.iter().map(|x| x.0));
                    if seen_gates.len() < submitted_phys && p.len() < io_par {
                        // a submitted physical read has not been issued although an I/O slot is free
                        rep.backpressure = true;
                    }
                }
            }
            // everything not yet submitted is submitted now (unless the scheduler is gone)
            if let Some(f) = fs.as_ref() {
                while next_submit < nreq {
                    let r = &reqs[next_submit];
                    futs[next_submit] = Some(f.with_priority(r.base).submit_request(r.ranges.clone(), r.p64).boxed());
                    rep.submitted[next_submit] = true;
                    next_submit += 1;
                }
            }
            st.ungate_all();
            // drain with the same (legal) consumer discipline
            let mut tries = 0;
            loop {
                let dropped = rep.dropped;
                let drain = futures::future::poll_fn(|cx| {
                    loop {
                        let targets: Vec<usize> = match consumer {
                            Consumer::Concurrent => (0..nreq).filter(|i| futs[*i].is_some()).collect(),
                            Consumer::PriorityOrder => head(&futs).into_iter().collect(),
                        };
                        if targets.is_empty() {
                            return Poll::Ready(());
                        }
                        let mut progressed = false;
                        for i in targets {
                            if let Poll::Ready(r) = futs[i].as_mut().unwrap().poll_unpin(cx) {
                                futs[i] = None;
                                rep.resolved_after_drop[i] = dropped;
                                rep.results[i] = Some(r.map_err(|e| e.to_string()));
                                progressed = true;
                            }
                        }
                        if !progressed {
                            return Poll::Pending;
                        }
                    }
                });
                if tokio::time::timeout(std::time::Duration::from_secs(3600), drain).await.is_ok() {
                    break;
                }
                // The virtual clock only runs when this runtime is idle.  The one resource shared with
                // other threads is lance's process-wide IOPS semaphore; give it real time before
                // calling it a hang.
                tries += 1;
                rep.unconfirmed_timeouts = tries;
                if tries > 20 {
                    let left: Vec<usize> = (0..nreq).filter(|i| futs[*i].is_some()).collect();
                    rep.hang = Some(format!("requests {left:?} never resolve: runtime idle, all gates released, {} store calls parked", st.pending().len()));
                    break;
                }
                std::thread::sleep(std::time::Duration::from_millis(50));
            }
            drop(fs);
            drop(sched);
            settle().await;
            rep
        });
        drop(rt);

        obs.inner += nreq as u64;
        obs.label(format!("consumer:{:?}", c.consumer));
        obs.label(format!("budget:{}", match c.budget { Budget::One => "1", Budget::Bytes(_) => "small", Budget::Ample => "ample" }));
        if rep.dropped {
            obs.label("sched:dropped");
        }
        if rep.backpressure {
            obs.label("sched:backpressure");
        }
        if rep.out_of_order_release {
            obs.label("sched:out-of-order-release");
        }
        if rep.unconfirmed_timeouts > 0 && rep.hang.is_none() {
            obs.label("sched:virtual-timeout-not-confirmed");
        }
        let ctx = || format!("consumer={:?} budget={budget} io_par={io_par} block={block} reqs={:?} steps={:?}", c.consumer, reqs.iter().map(|r| (r.prio, r.ranges.clone())).collect::<Vec<_>>(), c.steps);
        if let Some(h) = &rep.hang {
            fail!("request-never-resolves", "{h}; {}", ctx());
        }
        let mut cancelled = 0;
        for i in 0..nreq {
            if !rep.submitted[i] {
                continue;
            }
            match &rep.results[i] {
                None => fail!("request-never-resolves", "request {i} has no result; {}", ctx()),
                Some(Ok(v)) => {
                    if let Some((kind, d)) = compare(v, &reqs[i].ranges, salt) {
                        fail!(kind, "schedule request {i}: {d}; {}", ctx());
                    }
                }
                Some(Err(e)) => {
                    ensure!(rep.dropped && rep.resolved_after_drop[i], "request-error", "request {i} failed without a scheduler drop: {e}; {}", ctx());
                    cancelled += 1;
                }
            }
        }
        if cancelled > 0 {
            obs.label("sched:cancelled-request");
        }
        if rep.backpressure || (rep.dropped && cancelled > 0) {
            obs.label("nontrivial");
            obs.nontrivial(format!("{:?}|bp{}|drop{}|cancel{}|ooo{}|n{}|par{}", c.consumer, rep.backpressure as u8, rep.dropped as u8, (cancelled > 0) as u8, rep.out_of_order_release as u8, nreq, io_par));
        }
        Ok(())
    }
}

fn len_strategy() -> impl Strategy<Value = Len> {
    prop_oneof![5 => any::<u8>().prop_map(Len::Small), 3 => (0u8..17).prop_map(Len::Block), 2 => any::<u16>().prop_map(Len::Frac)]
}

fn range_strategy() -> impl Strategy<Value = RangeSpec> {
    let empty = prop_oneof![
        Just(EmptyPos::Zero),
        Just(EmptyPos::Eof),
        Just(EmptyPos::PrevStart),
        Just(EmptyPos::PrevEnd),
        any::<u16>().prop_map(EmptyPos::InsidePrev),
        any::<u16>().prop_map(EmptyPos::At),
    ];
    prop_oneof![
        6 => (any::<u16>(), len_strategy()).prop_map(|(start, len)| RangeSpec::Abs { start, len }),
        3 => len_strategy().prop_map(|len| RangeSpec::Adjacent { len }),
        4 => (prop_oneof![0u16..8, 0u16..9000], len_strategy()).prop_map(|(gap, len)| RangeSpec::Near { gap, len }),
        3 => (any::<u16>(), len_strategy()).prop_map(|(back, len)| RangeSpec::Overlap { back, len }),
        3 => (any::<u16>(), 1u16..200).prop_map(|(off, len)| RangeSpec::Contained { off, len }),
        1 => Just(RangeSpec::Same),
        1 => empty.prop_map(RangeSpec::Empty),
    ]
}

fn bytes_strategy() -> impl Strategy<Value = BytesCase> {
    let file_len = prop_oneof![1 => Just(0u32), 2 => 1u32..300, 4 => 300u32..20_000, 3 => 20_000u32..=204_800];
    let block = prop_oneof![2 => 1u16..4, 3 => 4u16..128, 3 => 128u16..=4096, 1 => Just(4096u16)];
    let chunk = prop_oneof![3 => 1u32..16, 3 => 16u32..512, 2 => 512u32..20_000];
    let api = prop_oneof![
        5 => Just(Api::FileSubmit),
        1 => Just(Api::FileSingle),
        4 => chunk.clone().prop_map(|chunk| Api::EncIo { chunk }),
        1 => chunk.prop_map(|chunk| Api::EncIoSingle { chunk }),
    ];
    (
        file_len,
        any::<u8>(),
        block,
        prop::collection::vec(range_strategy(), 0..12),
        prop_oneof![9 => Just(None), 1 => prop::collection::vec(any::<u16>(), 12).prop_map(Some)],
        api,
        prop_oneof![Just(0u64), 0u64..100, any::<u64>()],
    )
        .prop_map(|(file_len, salt, block_size, ranges, unsorted, api, priority)| BytesCase { file_len, salt, block_size, ranges, unsorted, api, priority })
}

fn sched_strategy() -> impl Strategy<Value = SchedCase> {
    let req = (prop::collection::vec((any::<u16>(), prop_oneof![1u16..64, 64u16..4096]), 1..4), 0u8..6, 0u8..2).prop_map(|(ranges, prio, base)| ReqSpec { ranges, prio, base });
    let step = prop_oneof![
        3 => Just(Step::Submit),
        5 => any::<u16>().prop_map(Step::Release),
        4 => Just(Step::Poll),
    ];
    (
        8192u32..=65_536,
        any::<u8>(),
        prop_oneof![1u16..64, 64u16..=4096],
        1u8..=4,
        prop_oneof![3 => Just(Budget::One), 5 => (1u32..6000).prop_map(Budget::Bytes), 2 => Just(Budget::Ample)],
        prop::collection::vec(req, 1..=6),
        prop_oneof![Just(Consumer::Concurrent), Just(Consumer::PriorityOrder)],
        prop::collection::vec(step, 0..40),
        prop::option::weighted(0.35, any::<u16>()),
    )
        .prop_map(|(file_len, salt, block_size, io_par, budget, reqs, consumer, mut steps, drop_at)| {
            if let Some(d) = drop_at {
                let at = idx(d, steps.len() + 1);
                steps.insert(at, Step::DropScheduler);
            }
            SchedCase { file_len, salt, block_size, io_par, budget, reqs, consumer, steps }
        })
}

impl Property for C30 {
    type Input = Input;
    fn id(&self) -> &'static str {
        "C30"
    }
    fn rule(&self) -> String {
        "10/11 of the cases are byte cases (quick 10 000 lists + 1 000 schedules): a file of 0-200 KiB whose byte at offset o is a fixed function of (o, salt) in the controlled in-memory store, block size 1-4096, a list of 0-11 ranges built from specs relative to the previous range (anywhere / adjacent / gap around the block size / overlapping / contained / identical / empty at 0, EOF, the previous start or end, inside the previous range, anywhere) and then sorted by start (stable); submitted through FileScheduler::submit_request, submit_single per range, or LanceEncodingsIo (read_chunk_size 1-20000) submit_request / submit_single. 10% of the lists are additionally permuted (class order:unsorted; outcome only labelled). Oracle: one buffer per range in request order equal to the recomputed slice. Non-trivial = coalescing merged >=2 ranges, or a range was cut by the max request size or by read_chunk_size; distinct by (api, reader kind, merged/split/chunked, set of neighbour relations, #ranges). 1/11 are schedule cases on a private paused-clock current_thread runtime: 1-6 requests (1-3 non-empty ranges, priority 0-5, base priority 0-1), io parallelism 1-4, io_buffer_size_bytes 1 / 1-6000 / ample, a step list of submit / release-one-parked-store-read (generated choice) / consumer-poll, optionally one drop of the ScanScheduler and every FileScheduler; the consumer either polls all outstanding responses or only the most urgent one; afterwards all gates are opened and the consumer drains under a virtual-time timeout. Oracle: every response resolves, data equals the slices, errors only for requests unresolved when the scheduler was dropped. Non-trivial = back-pressure left a submitted read unissued while an I/O slot was free, or a drop cancelled a request.".into()
    }
    fn assumptions(&self) -> Vec<String> {
        vec![
            "range lists are sorted by start (what every in-tree caller except the legacy 2.0 blob decoder produces; decoder.rs documents sorted row ranges); unsorted lists are exercised but only reported".into(),
            "ranges lie inside the file".into(),
            "LANCE_MAX_IOP_SIZE is whatever the process started with (default 16 MiB: FileScheduler never splits a range of a <=200 KiB file; splitting is reached through LanceEncodingsIo's read_chunk_size); the check reads it only through ObjectStore::max_iop_size()".into(),
            "the consumer is legal: it never awaits a response while not polling a more urgent outstanding one".into(),
            "schedule cases: at most 8 workers x 4 gated reads in flight, far below lance's process-wide IOPS limit of 128 (LANCE_PROCESS_IO_THREADS_LIMIT must not be lowered below ~40)".into(),
        ]
    }
    fn cases(&self, tier: Tier) -> u32 {
        tier.pick(11_000, 220_000)
    }
    fn workers(&self, _tier: Tier) -> usize {
        8
    }
    fn strategy(&self, _tier: Tier) -> BoxedStrategy<Input> {
        prop_oneof![
            10 => bytes_strategy().prop_map(Input::Bytes),
            1 => sched_strategy().prop_map(Input::Sched),
        ]
        .boxed()
    }
    fn enumerate(&self, _tier: Tier) -> Vec<Input> {
        // the hand-found shapes of DESIGN hypothesis H plus neighbours that must work
        let b = |ranges: Vec<RangeSpec>, api: Api| Input::Bytes(BytesCase { file_len: 100, salt: 7, block_size: 4, ranges, unsorted: None, api, priority: 0 });
        let abs = |s: u16, l: u8| RangeSpec::Abs { start: s, len: Len::Small(l) };
        let mut v = vec![];
        for api in [Api::FileSubmit, Api::FileSingle, Api::EncIo { chunk: 4 }, Api::EncIoSingle { chunk: 4 }] {
            v.push(b(vec![abs(0, 9), RangeSpec::Empty(EmptyPos::PrevEnd)], api.clone()));
            v.push(b(vec![RangeSpec::Empty(EmptyPos::Zero), abs(0, 9)], api.clone()));
            v.push(b(vec![RangeSpec::Empty(EmptyPos::At(3300))], api.clone()));
            v.push(b(vec![abs(0, 9), RangeSpec::Empty(EmptyPos::InsidePrev(30000))], api.clone()));
            v.push(b(vec![abs(0, 9), RangeSpec::Empty(EmptyPos::Eof)], api.clone()));
            v.push(b(vec![], api.clone()));
            v.push(b(vec![abs(0, 9), RangeSpec::Adjacent { len: Len::Small(5) }, RangeSpec::Near { gap: 4, len: Len::Small(3) }, RangeSpec::Near { gap: 5, len: Len::Small(3) }], api));
        }
        v
    }

    fn check(&self, input: &Input, obs: &mut Obs, env: &Env) -> CheckResult {
        match input {
            Input::Bytes(c) => {
                obs.label("part:bytes");
                self.check_bytes(c, obs, env)
            }
            Input::Sched(c) => {
                obs.label("part:schedule");
                self.check_sched(c, obs, env)
            }
        }
    }
}
