//! C31 — Object writes persist exactly the bytes written.
//!
//! A generated sequence of write_all / write / flush calls on an `ObjectWriter`
//! over the controlled store (optionally gated so that put_multipart, every
//! put_part, put and complete park until the driver releases them in a generated
//! order), one optional injected failure (put / put_multipart / k-th put_part /
//! complete, no effect), then shutdown, abort or drop.  The model is the byte
//! string accepted so far, a function of the absolute offset.

use crate::engine::*;
use crate::store::VStore;
use crate::{ensure, fail};
use async_trait::async_trait;
use futures::stream::BoxStream;
use lance_io::object_store::ObjectStore as LanceObjectStore;
use lance_io::object_writer::ObjectWriter;
use object_store::path::Path;
use object_store::{
    Error as OSError, GetOptions, GetResult, ListResult, MultipartUpload, ObjectMeta, ObjectStore, PutMultipartOptions, PutOptions, PutPayload, PutResult,
    Result as OSResult, UploadPart,
};
use proptest::prelude::*;
use serde::{Deserialize, Serialize};
use std::future::Future;
use std::sync::atomic::{AtomicU32, Ordering};
use std::sync::Arc;
use std::task::Poll;
use tokio::io::AsyncWriteExt;
use url::Url;

pub struct C31;

/// the fixed initial part size of ObjectWriter (LANCE_INITIAL_UPLOAD_SIZE unset)
const PART: i64 = 5 * 1024 * 1024;
/// cap on the bytes written by one case
const CAP: u64 = 26 * 1024 * 1024;

#[derive(Clone, Debug, Serialize, Deserialize, PartialEq)]
pub enum Sz {
    Zero,
    /// 1..=65536
    Small(u16),
    /// PART + d
    Part(i16),
    /// KiB
    Mid(u16),
}

#[derive(Clone, Debug, Serialize, Deserialize, PartialEq)]
pub enum Op {
    WriteAll(Sz),
    /// one `write` call (may accept fewer bytes than offered)
    Write(Sz),
    Flush,
    /// let one parked store call proceed
    Release(u16),
}

#[derive(Clone, Copy, Debug, Serialize, Deserialize, PartialEq)]
pub enum End {
    Shutdown,
    Abort,
    Drop,
}

#[derive(Clone, Copy, Debug, Serialize, Deserialize, PartialEq)]
pub enum FaultAt {
    Put,
    PutMultipart,
    PutPart(u8),
    Complete,
}

#[derive(Clone, Debug, Serialize, Deserialize, PartialEq)]
pub struct Input {
    pub ops: Vec<Op>,
    pub end: End,
    pub fault: Option<FaultAt>,
    pub constant_parts: bool,
    pub salt: u8,
    pub gated: bool,
    /// choices among the parked calls whenever the driver has to release one to make progress
    pub release: Vec<u16>,
}

fn byte_at(off: u64, salt: u8) -> u8 {
    let x = (off as u32).wrapping_mul(0x9E37_79B1) ^ ((off >> 32) as u32);
    ((x >> 24) as u8) ^ ((x >> 9) as u8) ^ salt
}

fn chunk(off: u64, len: usize, salt: u8) -> Vec<u8> {
    (0..len as u64).map(|i| byte_at(off + i, salt)).collect()
}

fn size_of(s: &Sz) -> usize {
    match s {
        Sz::Zero => 0,
        Sz::Small(v) => *v as usize + 1,
        Sz::Part(d) => (PART + *d as i64) as usize,
        Sz::Mid(k) => (*k as usize).max(1) * 1024,
    }
}

// ---------------------------------------------------------------------------
// fault adapter around the controlled store

#[derive(Debug)]
struct Plan {
    fault: Option<FaultAt>,
    fired: AtomicU32,
    parts_seen: AtomicU32,
}

#[derive(Debug)]
struct FStore {
    inner: VStore,
    plan: Arc<Plan>,
}

impl std::fmt::Display for FStore {
    fn fmt(&self, f: &mut std::fmt::Formatter<'_>) -> std::fmt::Result {
        write!(f, "FStore({})", self.inner)
    }
}

fn injected(what: &str) -> OSError {
    OSError::Generic { store: "C31", source: format!("injected failure of {what}").into() }
}

#[derive(Debug)]
struct FUpload {
    inner: Box<dyn MultipartUpload>,
    plan: Arc<Plan>,
}

#[async_trait]
impl MultipartUpload for FUpload {
    fn put_part(&mut self, data: PutPayload) -> UploadPart {
        let k = self.plan.parts_seen.fetch_add(1, Ordering::SeqCst);
        if let Some(FaultAt::PutPart(n)) = self.plan.fault {
            if n as u32 == k {
                self.plan.fired.fetch_add(1, Ordering::SeqCst);
                return Box::pin(async move { Err(injected("put_part")) });
            }
        }
        self.inner.put_part(data)
    }
    async fn complete(&mut self) -> OSResult<PutResult> {
        if let Some(FaultAt::Complete) = self.plan.fault {
            self.plan.fired.fetch_add(1, Ordering::SeqCst);
            return Err(injected("complete"));
        }
        self.inner.complete().await
    }
    async fn abort(&mut self) -> OSResult<()> {
        self.inner.abort().await
    }
}

#[async_trait]
impl ObjectStore for FStore {
    async fn put_opts(&self, location: &Path, payload: PutPayload, opts: PutOptions) -> OSResult<PutResult> {
        if let Some(FaultAt::Put) = self.plan.fault {
            self.plan.fired.fetch_add(1, Ordering::SeqCst);
            return Err(injected("put"));
        }
        self.inner.put_opts(location, payload, opts).await
    }
    async fn put_multipart_opts(&self, location: &Path, opts: PutMultipartOptions) -> OSResult<Box<dyn MultipartUpload>> {
        if let Some(FaultAt::PutMultipart) = self.plan.fault {
            self.plan.fired.fetch_add(1, Ordering::SeqCst);
            return Err(injected("put_multipart"));
        }
        let inner = self.inner.put_multipart_opts(location, opts).await?;
        Ok(Box::new(FUpload { inner, plan: self.plan.clone() }))
    }
    async fn get_opts(&self, location: &Path, options: GetOptions) -> OSResult<GetResult> {
        self.inner.get_opts(location, options).await
    }
    async fn delete(&self, location: &Path) -> OSResult<()> {
        self.inner.delete(location).await
    }
    fn list(&self, prefix: Option<&Path>) -> BoxStream<'static, OSResult<ObjectMeta>> {
        self.inner.list(prefix)
    }
    async fn list_with_delimiter(&self, prefix: Option<&Path>) -> OSResult<ListResult> {
        self.inner.list_with_delimiter(prefix).await
    }
    async fn copy(&self, from: &Path, to: &Path) -> OSResult<()> {
        self.inner.copy(from, to).await
    }
    async fn copy_if_not_exists(&self, from: &Path, to: &Path) -> OSResult<()> {
        self.inner.copy_if_not_exists(from, to).await
    }
}

// ---------------------------------------------------------------------------

struct Driver<'a> {
    store: &'a VStore,
    path: &'a Path,
    release: &'a [u16],
    next_release: usize,
    /// a put/complete for the destination has been let through: the object may now appear
    commit_released: bool,
    out_of_order: bool,
    observations: u64,
}

impl Driver<'_> {
    fn observe(&mut self, at: &str) -> CheckResult {
        if !self.commit_released {
            self.observations += 1;
            ensure!(self.store.read(self.path).is_none(), "visible-before-shutdown", "an object exists at the destination {at}, before put/complete was let through");
            ensure!(self.store.paths().is_empty(), "stray-object", "objects {:?} exist {at}", self.store.paths());
        }
        Ok(())
    }

    fn release_one(&mut self, pick: Option<u16>) -> bool {
        let p = self.store.pending();
        if p.is_empty() {
            return false;
        }
        let f = pick.unwrap_or_else(|| {
            let f = self.release.get(self.next_release).copied().unwrap_or(0);
            self.next_release += 1;
            f
        });
        let k = idx(f, p.len());
        let (id, _, op, _) = &p[k];
        if *op == "put_part" {
            let oldest = p.iter().filter(|x| x.2 == "put_part").map(|x| x.0).min().unwrap();
            if *id != oldest {
                self.out_of_order = true;
            }
        }
        if *op == "put" || *op == "complete" {
            self.commit_released = true;
        }
        self.store.release(*id);
        true
    }

    /// drive a writer future to completion, releasing parked store calls when it cannot proceed
    async fn drive<T>(&mut self, what: &str, fut: impl Future<Output = T>) -> Result<T, Failure> {
        let mut fut = std::pin::pin!(fut);
        let mut idle = 0;
        loop {
            if let Poll::Ready(v) = futures::poll!(fut.as_mut()) {
                return Ok(v);
            }
            self.observe(&format!("while {what} is pending"))?;
            if self.release_one(None) {
                idle = 0;
            } else {
                idle += 1;
                if idle > 400 {
                    fail!("writer-stalled", "{what} stays pending although no store call is parked and the runtime is idle");
                }
            }
            settle().await;
        }
    }
}

async fn settle() {
    for _ in 0..4 {
        tokio::task::yield_now().await;
    }
}

impl Property for C31 {
    type Input = Input;
    fn id(&self) -> &'static str {
        "C31"
    }
    fn rule(&self) -> String {
        "80% small cases (0-8 ops, chunks of 0 or 1-64 KiB), 20% multipart cases (1-6 ops with chunks of 5 MiB+d (d in -3..=3 or +-4 KiB), 100 KiB-6 MiB, or small; capped at 26 MiB per case); ops are write_all / a single write call / flush / release-one-parked-store-call; 70% of the cases gate the writer's store calls (put_multipart, put_part, put, complete park until released; when the writer cannot proceed the driver releases a parked call chosen by the next generated fraction); optional injected failure without effect on put, put_multipart, the k-th put_part (k<4) or complete; use_constant_size_upload_parts on/off; the case ends with shutdown, abort or drop (after an error: abort if the end is Abort, else drop). Model: accepted bytes are a function of the absolute offset. Oracle: store.read(path) == model and WriteResult.size == len after a successful shutdown; the store is empty at every observation point (after every op and every time a writer future is Pending) until a put/complete has been let through; no object after an error, abort or drop once all gates are open and the runtime has settled. Non-trivial = >=2 parts uploaded, or the injected fault fired, or parts completed out of order; distinct by (end, fault, parts bucket, out-of-order, exact part boundary, gated).".into()
    }
    fn assumptions(&self) -> Vec<String> {
        vec![
            "poll_write is never called with an empty buffer (zero-length chunks only through write_all, which does not call it)".into(),
            "after an error from write/flush/shutdown the writer is only aborted or dropped, never used again".into(),
            "LANCE_INITIAL_UPLOAD_SIZE / LANCE_UPLOAD_CONCURRENCY are unset (part size 5 MiB, 10 parts in flight); the parallelism cap (>= 55 MiB in flight) is not reached".into(),
            "injected failures are not 'connection reset by peer' (that path retries with a random 2-8 s sleep)".into(),
            "shutdown is never cancelled half way (a complete() that was applied but not observed is outside the generator)".into(),
        ]
    }
    fn cases(&self, tier: Tier) -> u32 {
        tier.pick(150, 1_500)
    }
    fn workers(&self, _tier: Tier) -> usize {
        8
    }
    fn strategy(&self, _tier: Tier) -> BoxedStrategy<Input> {
        let small_sz = prop_oneof![1 => Just(Sz::Zero), 6 => (0u16..2048).prop_map(Sz::Small), 3 => any::<u16>().prop_map(Sz::Small)];
        let big_sz = prop_oneof![
            5 => (-3i16..=3).prop_map(Sz::Part),
            1 => (-4096i16..=4096).prop_map(Sz::Part),
            2 => (1000u16..6144).prop_map(Sz::Mid),
            1 => any::<u16>().prop_map(Sz::Small),
        ];
        fn ops(sz: BoxedStrategy<Sz>, n: std::ops::Range<usize>) -> BoxedStrategy<Vec<Op>> {
            let wr = prop_oneof![
                5 => sz.clone().prop_map(Op::WriteAll),
                2 => sz.prop_filter("write needs a non-empty buffer", |s| !matches!(s, Sz::Zero)).prop_map(Op::Write),
                2 => Just(Op::Flush),
                2 => any::<u16>().prop_map(Op::Release),
            ];
            prop::collection::vec(wr, n).boxed()
        }
        let small_fault = prop_oneof![1 => Just(None), 1 => Just(Some(FaultAt::Put))];
        let big_fault = prop_oneof![
            4 => Just(None),
            1 => Just(Some(FaultAt::PutMultipart)),
            3 => (0u8..4).prop_map(|k| Some(FaultAt::PutPart(k))),
            2 => Just(Some(FaultAt::Complete)),
        ];
        let ops_fault = prop_oneof![
            7 => (ops(small_sz.boxed(), 0..9), small_fault),
            3 => (ops(big_sz.boxed(), 1..7), big_fault),
        ];
        (
            ops_fault,
            prop_oneof![5 => Just(End::Shutdown), 2 => Just(End::Abort), 2 => Just(End::Drop)],
            any::<bool>(),
            any::<u8>(),
            prop::bool::weighted(0.7),
            prop::collection::vec(any::<u16>(), 0..12),
        )
            .prop_map(|((ops, fault), end, constant_parts, salt, gated, release)| {
                // put and complete only happen inside shutdown
                let end = if matches!(fault, Some(FaultAt::Put) | Some(FaultAt::Complete)) { End::Shutdown } else { end };
                Input { ops, end, fault, constant_parts, salt, gated, release }
            })
            .boxed()
    }
    fn enumerate(&self, _tier: Tier) -> Vec<Input> {
        // totals exactly at / around one and two parts, in one chunk and split over two
        let mut v = vec![];
        for d in [-1i16, 0, 1] {
            for gated in [false, true] {
                v.push(Input { ops: vec![Op::WriteAll(Sz::Part(d))], end: End::Shutdown, fault: None, constant_parts: false, salt: 3, gated, release: vec![] });
            }
        }
        v.push(Input { ops: vec![Op::WriteAll(Sz::Part(0)), Op::WriteAll(Sz::Part(0))], end: End::Shutdown, fault: None, constant_parts: true, salt: 9, gated: true, release: vec![65535, 0, 65535] });
        v.push(Input { ops: vec![Op::WriteAll(Sz::Part(0)), Op::WriteAll(Sz::Part(1))], end: End::Shutdown, fault: None, constant_parts: false, salt: 9, gated: true, release: vec![0, 65535, 65535, 0] });
        v
    }

    fn check(&self, input: &Input, obs: &mut Obs, env: &Env) -> CheckResult {
        let store = VStore::new();
        let path = Path::from("c31/object.bin");
        let plan = Arc::new(Plan { fault: input.fault, fired: AtomicU32::new(0), parts_seen: AtomicU32::new(0) });
        let fstore = Arc::new(FStore { inner: store.as_actor(1), plan: plan.clone() });
        let os = LanceObjectStore::new(fstore, Url::parse("vs:///").unwrap(), None, None, input.constant_parts, true, 8, 0, None);
        store.enable_log(true);
        let salt = input.salt;

        struct Out {
            total: u64,
            err: Option<String>,
            shutdown_size: Option<usize>,
            out_of_order: bool,
            observations: u64,
            end: &'static str,
        }

        let res: Result<Out, Failure> = env.block_on(async {
            let mut drv = Driver { store: &store, path: &path, release: &input.release, next_release: 0, commit_released: false, out_of_order: false, observations: 0 };
            let mut w = match ObjectWriter::new(&os, &path).await {
                Ok(w) => w,
                Err(e) => fail!("writer-new-error", "{e}"),
            };
            if input.gated {
                store.gate_actor(1);
            }
            let mut total: u64 = 0;
            let mut err: Option<String> = None;
            for (i, op) in input.ops.iter().enumerate() {
                match op {
                    Op::WriteAll(sz) | Op::Write(sz) => {
                        let mut len = size_of(sz);
                        if total + len as u64 > CAP {
                            len = ((CAP - total.min(CAP)) as usize).min(len);
                        }
                        let all = matches!(op, Op::WriteAll(_));
                        if len == 0 && !all {
                            continue;
                        }
                        let buf = chunk(total, len, salt);
                        if all {
                            match drv.drive(&format!("op {i} write_all({len})"), w.write_all(&buf)).await? {
                                Ok(()) => total += len as u64,
                                Err(e) => err = Some(format!("op {i} write_all({len}): {e}")),
                            }
                        } else {
                            match drv.drive(&format!("op {i} write({len})"), w.write(&buf)).await? {
                                Ok(n) => {
                                    ensure!(n >= 1 && n <= len, "write-count", "op {i}: write of {len} bytes reported {n} accepted");
                                    total += n as u64;
                                }
                                Err(e) => err = Some(format!("op {i} write({len}): {e}")),
                            }
                        }
                    }
                    Op::Flush => {
                        if let Err(e) = drv.drive(&format!("op {i} flush"), w.flush()).await? {
                            err = Some(format!("op {i} flush: {e}"));
                        }
                    }
                    Op::Release(f) => {
                        drv.release_one(Some(*f));
                        settle().await;
                    }
                }
                drv.observe(&format!("after op {i} ({op:?})"))?;
                if err.is_some() {
                    break;
                }
            }
            let mut shutdown_size = None;
            let end: &'static str;
            if err.is_none() && input.end == End::Shutdown {
                end = "shutdown";
                match drv.drive("shutdown", w.shutdown()).await? {
                    Ok(r) => shutdown_size = Some(r.size),
                    Err(e) => err = Some(format!("shutdown: {e}")),
                }
                drop(w);
            } else if input.end == End::Abort {
                end = if err.is_some() { "error+abort" } else { "abort" };
                drv.drive("abort", w.abort()).await?;
                drv.observe("after abort")?;
                drop(w);
            } else {
                end = if err.is_some() { "error+drop" } else { "drop" };
                drop(w);
            }
            store.ungate_all();
            for _ in 0..10 {
                settle().await;
            }
            Ok(Out { total, err, shutdown_size, out_of_order: drv.out_of_order, observations: drv.observations, end })
        });
        let out = res?;
        let log = store.take_log();
        let parts = log.iter().filter(|c| c.op == "put_part").count();
        let fired = plan.fired.load(Ordering::SeqCst) > 0;
        obs.inner += out.observations;

        let ctx = || format!("ops={:?} end={:?} fault={:?} gated={} total={} parts={parts}", input.ops, input.end, input.fault, input.gated, out.total);
        if let Some(e) = &out.err {
            ensure!(fired, "write-error", "{e} although no failure was injected; {}", ctx());
        }
        if let Some(size) = out.shutdown_size {
            let Some(got) = store.read(&path) else { fail!("missing-after-shutdown", "shutdown succeeded but no object exists; {}", ctx()) };
            ensure!(size as u64 == out.total, "result-size", "WriteResult.size = {size}, {} bytes were accepted; {}", out.total, ctx());
            ensure!(got.len() as u64 == out.total, "object-length", "object has {} bytes, {} were accepted; {}", got.len(), out.total, ctx());
            if let Some(p) = got.iter().enumerate().position(|(i, b)| *b != byte_at(i as u64, salt)) {
                fail!("object-content", "object differs from the written bytes at offset {p}; {}", ctx());
            }
            ensure!(store.paths().len() == 1, "stray-object", "objects {:?} after shutdown; {}", store.paths(), ctx());
            if fired {
                // a failure was injected and shutdown still succeeded: only legitimate if it was retried
                fail!("fault-swallowed", "an injected {:?} failure was swallowed: shutdown succeeded; {}", input.fault, ctx());
            }
        } else {
            ensure!(store.paths().is_empty(), "object-after-failed-write", "objects {:?} exist after {} ; {}", store.paths(), out.end, ctx());
        }

        obs.label(format!("end:{}", out.end));
        obs.label(if input.gated { "gated" } else { "ungated" });
        obs.label(match parts {
            0 => "parts:0".to_string(),
            1 => "parts:1".to_string(),
            2..=3 => "parts:2-3".to_string(),
            _ => "parts:4+".to_string(),
        });
        if log.iter().any(|c| c.op == "put") {
            obs.label("single-put");
        }
        if out.total == 0 {
            obs.label("total:0");
        }
        let exact = out.total > 0 && out.total % PART as u64 == 0;
        if exact {
            obs.label("total:exact-part-multiple");
        }
        match (input.fault, fired) {
            (Some(f), true) => obs.label(format!("fault-fired:{}", match f { FaultAt::Put => "put", FaultAt::PutMultipart => "put_multipart", FaultAt::PutPart(_) => "put_part", FaultAt::Complete => "complete" })),
            (Some(_), false) => obs.label("fault-not-reached"),
            _ => {}
        }
        if out.out_of_order {
            obs.label("parts-completed-out-of-order");
        }
        if input.ops.iter().any(|o| matches!(o, Op::Write(_))) {
            obs.label("op:single-write");
        }
        if parts >= 2 || fired || out.out_of_order {
            obs.label("nontrivial");
            obs.nontrivial(format!("{}|{:?}|p{}|ooo{}|exact{}|g{}", out.end, if fired { input.fault } else { None }, parts.min(4), out.out_of_order as u8, exact as u8, input.gated as u8));
        }
        Ok(())
    }
}
