//! C32 — Metadata serialisation round trips.
//!
//! Every persisted metadata type is generated as a plain, serde-serialisable
//! *description* (so replay files stay readable); the lance value is built from
//! the description, encoded with the writer lance itself uses, decoded with the
//! matching reader and compared with the value that was encoded.

use crate::engine::*;
use crate::store::VStore;
use crate::{ensure, fail};
use lance::dataset::refs::{branch_contents_path, tag_path, BranchContents, TagContents};
use lance::dataset::transaction::{
    DataReplacementGroup, Operation, RewriteGroup, RewrittenIndex, Transaction, UpdateMap, UpdateMapEntry, UpdateMode,
};
use lance_core::datatypes::{Field, Schema};
use lance_core::utils::deletion::DeletionVector;
use lance_index::mem_wal::{MemWal, MemWalId, MemWalIndexDetails, State as WalState};
use lance_io::object_store::ObjectStore as LanceObjectStore;
use lance_io::utils::read_message;
use lance_table::format::{
    pb, BasePath, DataFile, DataStorageFormat, DeletionFile, DeletionFileType, ExternalFile, Fragment, IndexMetadata, Manifest,
    RowDatasetVersionMeta, RowDatasetVersionRun, RowDatasetVersionSequence, RowIdMeta, WriterVersion,
};
use lance_table::io::commit::{write_manifest_file_to_path, ManifestLocation, ManifestNamingScheme};
use lance_table::io::deletion::{deletion_file_path, read_deletion_file, write_deletion_file};
use lance_table::io::manifest::{read_manifest, read_manifest_indexes};
use lance_table::rowids::segment::U64Segment;
use lance_table::rowids::version::{read_dataset_versions, write_dataset_versions};
use lance_table::rowids::{read_row_ids, write_row_ids, RowIdSequence};
use object_store::path::Path;
use prost::Message;
use proptest::prelude::*;
use roaring::RoaringBitmap;
use serde::{Deserialize, Serialize};
use std::collections::{BTreeSet, HashMap, HashSet};
use std::num::NonZero;
use std::sync::Arc;

pub struct C32;

// ---------------------------------------------------------------------------
// descriptions (the replay format)

type Kv = Vec<(String, String)>;

#[derive(Clone, Debug, Serialize, Deserialize, PartialEq)]
pub struct FileDesc {
    pub path: String,
    pub fields: Vec<i32>,
    pub column_indices: Vec<i32>,
    pub major: u32,
    pub minor: u32,
    /// None or >= 1 (0 means "unknown" in the protobuf; normalised to None)
    pub size: Option<u64>,
    pub base_id: Option<u32>,
}

#[derive(Clone, Debug, Serialize, Deserialize, PartialEq)]
pub struct DelDesc {
    pub read_version: u64,
    pub id: u64,
    pub bitmap: bool,
    /// None or >= 1 (0 means "unknown" in the protobuf; normalised to None)
    pub num_deleted: Option<u64>,
    pub base_id: Option<u32>,
}

#[derive(Clone, Debug, Serialize, Deserialize, PartialEq)]
pub struct ExtDesc {
    pub path: String,
    pub offset: u64,
    pub size: u64,
}

#[derive(Clone, Debug, Serialize, Deserialize, PartialEq)]
pub enum RowMetaDesc {
    /// inline, `write_row_ids` of start..start+len without the positions in `holes`
    Inline { start: u64, len: u16, holes: Vec<u16> },
    External(ExtDesc),
}

#[derive(Clone, Debug, Serialize, Deserialize, PartialEq)]
pub enum VerMetaDesc {
    /// inline, `RowDatasetVersionMeta::from_sequence` of contiguous runs (len, version)
    Inline { runs: Vec<(u16, u64)> },
    External(ExtDesc),
}

#[derive(Clone, Debug, Serialize, Deserialize, PartialEq)]
pub struct FragDesc {
    pub id: u64,
    pub files: Vec<FileDesc>,
    pub deletion: Option<DelDesc>,
    pub row_ids: Option<RowMetaDesc>,
    /// None or >= 1
    pub physical_rows: Option<u64>,
    pub updated_at: Option<VerMetaDesc>,
    pub created_at: Option<VerMetaDesc>,
}

#[derive(Clone, Debug, Serialize, Deserialize, PartialEq)]
pub struct AnyDesc {
    pub type_url: String,
    pub value: Vec<u8>,
}

#[derive(Clone, Debug, Serialize, Deserialize, PartialEq)]
pub struct IndexDesc {
    pub uuid: (u64, u64),
    pub fields: Vec<i32>,
    pub name: String,
    pub dataset_version: u64,
    pub frags: Option<Vec<u32>>,
    pub details: Option<AnyDesc>,
    pub index_version: i32,
    /// milliseconds since the epoch
    pub created_ms: Option<i64>,
    /// extra nanoseconds below the millisecond (what `Utc::now()` has)
    pub created_sub_ms_nanos: u32,
    pub base_id: Option<u32>,
}

#[derive(Clone, Debug, Serialize, Deserialize, PartialEq)]
pub struct BaseDesc {
    pub id: u32,
    pub name: Option<String>,
    pub is_dataset_root: bool,
    pub path: String,
}

#[derive(Clone, Debug, Serialize, Deserialize, PartialEq)]
pub enum Leaf {
    Int32,
    Int64,
    Float32,
    Utf8,
    LargeBinary,
    Bool,
    TimestampNsUtc,
    Decimal128,
    Date32,
    FixedSizeListF32(u8),
    DictI32Utf8,
}

#[derive(Clone, Debug, Serialize, Deserialize, PartialEq)]
pub enum TyDesc {
    Leaf(Leaf),
    List(Leaf),
    Struct(Vec<(String, Leaf, bool)>),
}

#[derive(Clone, Debug, Serialize, Deserialize, PartialEq)]
pub struct FieldDesc {
    pub name: String,
    pub ty: TyDesc,
    pub nullable: bool,
    pub meta: Kv,
}

#[derive(Clone, Debug, Serialize, Deserialize, PartialEq)]
pub struct SchemaDesc {
    pub fields: Vec<FieldDesc>,
    pub meta: Kv,
    /// field ids are i*stride + offset (non-contiguous ids as after drops)
    pub id_stride: u8,
    pub id_offset: u16,
    /// values of every dictionary field (only legacy "0.1" manifests persist them)
    #[serde(default)]
    pub dict_values: Vec<String>,
}

#[derive(Clone, Debug, Serialize, Deserialize, PartialEq)]
pub struct MemWalDesc {
    pub region: String,
    pub generation: u64,
    pub mem_table_location: String,
    pub wal_location: String,
    /// WAL entry ids; encoded as a U64Segment
    pub wal: Vec<u64>,
    pub state: u8,
    pub owner_id: String,
    pub last_updated: u64,
}

#[derive(Clone, Debug, Serialize, Deserialize, PartialEq)]
pub struct MapDesc {
    pub entries: Vec<(String, Option<String>)>,
    pub replace: bool,
}

#[derive(Clone, Debug, Serialize, Deserialize, PartialEq)]
pub struct RewrittenDesc {
    pub old: (u64, u64),
    pub new: (u64, u64),
    pub details: AnyDesc,
    pub version: u32,
}

#[derive(Clone, Debug, Serialize, Deserialize, PartialEq)]
pub enum OpDesc {
    Append { fragments: Vec<FragDesc> },
    Delete { updated: Vec<FragDesc>, deleted_ids: Vec<u64>, predicate: String },
    Overwrite { fragments: Vec<FragDesc>, schema: SchemaDesc, config: Option<Kv>, initial_bases: Option<Vec<BaseDesc>> },
    CreateIndex { new: Vec<IndexDesc>, removed: Vec<IndexDesc> },
    Rewrite { groups: Vec<(Vec<FragDesc>, Vec<FragDesc>)>, rewritten: Vec<RewrittenDesc>, frag_reuse: Option<IndexDesc> },
    DataReplacement { replacements: Vec<(u64, FileDesc)> },
    Merge { fragments: Vec<FragDesc>, schema: SchemaDesc },
    Restore { version: u64 },
    ReserveFragments { n: u32 },
    Update {
        removed_ids: Vec<u64>,
        updated: Vec<FragDesc>,
        new: Vec<FragDesc>,
        fields_modified: Vec<u32>,
        mem_wal: Option<MemWalDesc>,
        fields_preserve: Vec<u32>,
        /// Some(true) = RewriteColumns, Some(false) = RewriteRows
        mode: Option<bool>,
    },
    Project { schema: SchemaDesc },
    UpdateConfig { config: Option<MapDesc>, table: Option<MapDesc>, schema: Option<MapDesc>, field: Vec<(i32, MapDesc)> },
    UpdateMemWalState { added: Vec<MemWalDesc>, updated: Vec<MemWalDesc>, removed: Vec<MemWalDesc> },
    Clone { is_shallow: bool, ref_name: Option<String>, ref_version: u64, ref_path: String, branch_name: Option<String> },
    UpdateBases { new_bases: Vec<BaseDesc> },
}

#[derive(Clone, Debug, Serialize, Deserialize, PartialEq)]
pub struct TxnDesc {
    pub read_version: u64,
    pub uuid: (u64, u64),
    pub op: OpDesc,
    /// None or non-empty ("" is "no tag" in the protobuf)
    pub tag: Option<String>,
    /// None or non-empty
    pub props: Option<Kv>,
}

#[derive(Clone, Debug, Serialize, Deserialize, PartialEq)]
pub struct WriterDesc {
    pub library: String,
    pub version: String,
    pub prerelease: Option<String>,
    pub build_metadata: Option<String>,
}

#[derive(Clone, Debug, Serialize, Deserialize, PartialEq)]
pub struct ManifestDesc {
    pub schema: SchemaDesc,
    pub fragments: Vec<FragDesc>,
    pub file_format: String,
    pub storage_version: String,
    pub bases: Vec<BaseDesc>,
    pub version: u64,
    pub branch: Option<String>,
    pub writer_version: Option<WriterDesc>,
    pub version_aux_data: u64,
    pub ts_secs: u64,
    pub ts_nanos: u32,
    pub tag: Option<String>,
    pub reader_flags: u64,
    pub writer_flags: u64,
    pub max_fragment_id: Option<u32>,
    pub transaction_file: Option<String>,
    pub next_row_id: u64,
    pub config: Kv,
    pub table_metadata: Kv,
    /// bytes of padding put into a config value (manifests larger than the 64 KiB prefetch)
    pub pad: u32,
    pub indices: Option<Vec<IndexDesc>>,
    pub txn: Option<TxnDesc>,
    /// pass the file size to the readers
    pub known_size: bool,
}

/// One generated piece of a row id sequence (one segment each).
#[derive(Clone, Debug, Serialize, Deserialize, PartialEq)]
pub enum Piece {
    Range { start: u64, len: u16 },
    Holes { start: u64, len: u16, holes: Vec<u16> },
    Dense { start: u64, keep: Vec<bool> },
    Sparse { start: u64, gaps: Vec<u64> },
    Unsorted { vals: Vec<u64> },
}

#[derive(Clone, Debug, Serialize, Deserialize, PartialEq)]
pub struct RunDesc {
    pub len: u16,
    pub version: u64,
    /// positions (fractions) removed from the run's span
    pub drop: Vec<u16>,
}

#[derive(Clone, Debug, Serialize, Deserialize, PartialEq)]
pub enum DvMode {
    AutoExact,
    AutoUnknown,
    Grow,
    ForceSet,
    ForceBitmap,
}

#[derive(Clone, Debug, Serialize, Deserialize, PartialEq)]
pub struct DvDesc {
    pub mode: DvMode,
    pub n: u32,
    pub start: u32,
    pub stride: u32,
    pub extra: Vec<u32>,
    pub fragment_id: u64,
    pub read_version: u64,
}

#[derive(Clone, Debug, Serialize, Deserialize, PartialEq)]
pub enum RefDesc {
    Tag { name: String, branch: Option<String>, version: u64, manifest_size: u64 },
    Branch { name: String, parent_branch: Option<String>, parent_version: u64, create_at: u64, manifest_size: u64 },
}

#[derive(Clone, Debug, Serialize, Deserialize, PartialEq)]
pub enum Input {
    Manifest(Box<ManifestDesc>),
    Transaction(Box<TxnDesc>),
    Index(IndexDesc),
    Fragment(FragDesc),
    RowIds(Vec<Piece>),
    Versions(Vec<RunDesc>),
    DeletionVector(DvDesc),
    MemWal(Vec<MemWalDesc>),
    Ref(RefDesc),
}

// ---------------------------------------------------------------------------
// shape accounting (for the non-trivial rule)

#[derive(Default, Debug)]
struct Shape {
    opt_set: u32,
    opt_unset: u32,
    empty: u32,
    nonempty: u32,
    big: u32,
}

impl Shape {
    fn opt<T>(&mut self, o: &Option<T>) {
        if o.is_some() {
            self.opt_set += 1
        } else {
            self.opt_unset += 1
        }
    }
    fn coll(&mut self, n: usize) {
        if n == 0 {
            self.empty += 1
        } else {
            self.nonempty += 1
        }
    }
    fn id(&mut self, v: u64) {
        if v >= 1 << 32 {
            self.big += 1
        }
    }
    fn nontrivial(&self) -> bool {
        self.opt_set >= 1 && self.empty >= 1 && self.nonempty >= 1 && self.big >= 1
    }
    fn key(&self) -> String {
        format!("o{}u{}e{}n{}b{}", self.opt_set.min(4), self.opt_unset.min(2), self.empty.min(3), self.nonempty.min(4), self.big.min(3))
    }
}

// ---------------------------------------------------------------------------
// builders: description -> lance value

fn uuid_of(p: (u64, u64)) -> uuid::Uuid {
    uuid::Uuid::from_u128(((p.0 as u128) << 64) | p.1 as u128)
}

fn kv_map(kv: &Kv) -> HashMap<String, String> {
    kv.iter().cloned().collect()
}

fn build_file(d: &FileDesc, sh: &mut Shape) -> DataFile {
    sh.coll(d.fields.len());
    sh.coll(d.column_indices.len());
    let size = d.size.and_then(NonZero::new);
    sh.opt(&size);
    sh.opt(&d.base_id);
    if let Some(s) = d.size {
        sh.id(s);
    }
    DataFile::new(d.path.clone(), d.fields.clone(), d.column_indices.clone(), d.major, d.minor, size, d.base_id)
}

fn holes_values(start: u64, len: u16, holes: &[u16]) -> Vec<u64> {
    let end = start.saturating_add(len as u64).min(u64::MAX - 1);
    let all: Vec<u64> = (start..end).collect();
    let hs: HashSet<usize> = holes.iter().map(|h| idx(*h, all.len())).collect();
    all.iter().enumerate().filter(|(i, _)| !hs.contains(i)).map(|(_, v)| *v).collect()
}

fn ext_of(e: &ExtDesc) -> ExternalFile {
    ExternalFile { path: e.path.clone(), offset: e.offset, size: e.size }
}

fn build_row_meta(d: &RowMetaDesc, sh: &mut Shape) -> RowIdMeta {
    match d {
        RowMetaDesc::Inline { start, len, holes } => {
            let vals = holes_values(*start, *len, holes);
            sh.coll(vals.len());
            sh.id(*start);
            RowIdMeta::Inline(write_row_ids(&RowIdSequence::from(vals.as_slice())))
        }
        RowMetaDesc::External(e) => {
            sh.id(e.offset);
            RowIdMeta::External(ext_of(e))
        }
    }
}

fn uniform_runs(runs: &[(u16, u64)]) -> RowDatasetVersionSequence {
    let mut out = vec![];
    let mut off = 0u64;
    for (len, version) in runs {
        if *len == 0 {
            continue;
        }
        out.push(RowDatasetVersionRun { span: U64Segment::Range(off..off + *len as u64), version: *version });
        off += *len as u64;
    }
    RowDatasetVersionSequence { runs: out }
}

fn build_ver_meta(d: &VerMetaDesc, sh: &mut Shape) -> RowDatasetVersionMeta {
    match d {
        VerMetaDesc::Inline { runs } => {
            let seq = uniform_runs(runs);
            sh.coll(seq.runs.len());
            for r in &seq.runs {
                sh.id(r.version);
            }
            RowDatasetVersionMeta::from_sequence(&seq).unwrap()
        }
        VerMetaDesc::External(e) => {
            sh.id(e.offset);
            RowDatasetVersionMeta::from_external_file(e.path.clone(), e.offset, e.size)
        }
    }
}

fn build_fragment(d: &FragDesc, sh: &mut Shape) -> Fragment {
    sh.id(d.id);
    sh.coll(d.files.len());
    let physical_rows = d.physical_rows.filter(|v| *v >= 1).map(|v| v.min(1 << 40) as usize);
    sh.opt(&physical_rows);
    let deletion_file = d.deletion.as_ref().map(|x| {
        let mut n = x.num_deleted.filter(|v| *v >= 1).map(|v| v.min(1 << 40) as usize);
        if let (Some(nd), Some(p)) = (n, physical_rows) {
            // Fragment::num_rows() subtracts: more deleted than physical rows is not a fragment
            n = Some(nd.min(p));
        }
        sh.opt(&n);
        sh.opt(&x.base_id);
        sh.id(x.id);
        sh.id(x.read_version);
        DeletionFile {
            read_version: x.read_version,
            id: x.id,
            file_type: if x.bitmap { DeletionFileType::Bitmap } else { DeletionFileType::Array },
            num_deleted_rows: n,
            base_id: x.base_id,
        }
    });
    sh.opt(&deletion_file);
    let row_id_meta = d.row_ids.as_ref().map(|m| build_row_meta(m, sh));
    sh.opt(&row_id_meta);
    let last_updated_at_version_meta = d.updated_at.as_ref().map(|m| build_ver_meta(m, sh));
    sh.opt(&last_updated_at_version_meta);
    let created_at_version_meta = d.created_at.as_ref().map(|m| build_ver_meta(m, sh));
    sh.opt(&created_at_version_meta);
    Fragment {
        id: d.id,
        files: d.files.iter().map(|f| build_file(f, sh)).collect(),
        deletion_file,
        row_id_meta,
        physical_rows,
        last_updated_at_version_meta,
        created_at_version_meta,
    }
}

/// Fragment ids within one list are unique; lists of *new* fragments may carry
/// the "unassigned" id 0 repeatedly (Appendix A #16).
fn build_frags(ds: &[FragDesc], new: bool, sh: &mut Shape) -> Vec<Fragment> {
    sh.coll(ds.len());
    let mut seen = HashSet::new();
    let mut out = vec![];
    for d in ds {
        if (new && d.id == 0) || seen.insert(d.id) {
            out.push(build_fragment(d, sh));
        }
    }
    out
}

fn build_any(d: &AnyDesc) -> prost_types::Any {
    prost_types::Any { type_url: d.type_url.clone(), value: d.value.clone() }
}

fn build_index(d: &IndexDesc, sh: &mut Shape) -> IndexMetadata {
    sh.coll(d.fields.len());
    sh.id(d.dataset_version);
    sh.opt(&d.frags);
    if let Some(f) = &d.frags {
        sh.coll(f.len());
    }
    sh.opt(&d.details);
    sh.opt(&d.created_ms);
    sh.opt(&d.base_id);
    let created_at = d.created_ms.map(|ms| {
        let ms = ms.clamp(0, 4_000_000_000_000);
        chrono::DateTime::<chrono::Utc>::from_timestamp_millis(ms).unwrap() + chrono::Duration::nanoseconds((d.created_sub_ms_nanos % 1_000_000) as i64)
    });
    IndexMetadata {
        uuid: uuid_of(d.uuid),
        fields: d.fields.clone(),
        name: d.name.clone(),
        dataset_version: d.dataset_version,
        fragment_bitmap: d.frags.as_ref().map(|v| v.iter().copied().collect::<RoaringBitmap>()),
        index_details: d.details.as_ref().map(|a| Arc::new(build_any(a))),
        index_version: d.index_version,
        created_at,
        base_id: d.base_id,
    }
}

fn build_indices(ds: &[IndexDesc], sh: &mut Shape) -> Vec<IndexMetadata> {
    sh.coll(ds.len());
    ds.iter().map(|d| build_index(d, sh)).collect()
}

fn build_base(d: &BaseDesc, sh: &mut Shape) -> BasePath {
    sh.opt(&d.name);
    BasePath::new(d.id, d.path.clone(), d.name.clone(), d.is_dataset_root)
}

fn build_bases(ds: &[BaseDesc], sh: &mut Shape) -> Vec<BasePath> {
    sh.coll(ds.len());
    let mut seen = HashSet::new();
    ds.iter().filter(|d| seen.insert(d.id)).map(|d| build_base(d, sh)).collect()
}

fn leaf_type(l: &Leaf) -> arrow_schema::DataType {
    use arrow_schema::{DataType as D, TimeUnit};
    match l {
        Leaf::Int32 => D::Int32,
        Leaf::Int64 => D::Int64,
        Leaf::Float32 => D::Float32,
        Leaf::Utf8 => D::Utf8,
        Leaf::LargeBinary => D::LargeBinary,
        Leaf::Bool => D::Boolean,
        Leaf::TimestampNsUtc => D::Timestamp(TimeUnit::Nanosecond, Some("UTC".into())),
        Leaf::Decimal128 => D::Decimal128(20, 3),
        Leaf::Date32 => D::Date32,
        Leaf::FixedSizeListF32(n) => D::FixedSizeList(Arc::new(arrow_schema::Field::new("item", D::Float32, true)), (*n).max(1) as i32),
        Leaf::DictI32Utf8 => D::Dictionary(Box::new(D::Int32), Box::new(D::Utf8)),
    }
}

fn renumber(f: &mut Field, parent: i32, stride: i32, offset: i32) {
    f.id = f.id * stride + offset;
    f.parent_id = parent;
    let id = f.id;
    for c in f.children.iter_mut() {
        renumber(c, id, stride, offset);
    }
}

fn set_dict_values(f: &mut Field, values: &[String]) {
    if f.data_type().is_dictionary() {
        let vals: arrow_array::ArrayRef = Arc::new(arrow_array::StringArray::from(values.to_vec()));
        f.set_dictionary_values(&vals);
    }
    for c in f.children.iter_mut() {
        set_dict_values(c, values);
    }
}

fn strip_dicts(f: &mut Field) {
    f.dictionary = None;
    f.children.iter_mut().for_each(strip_dicts);
}

/// true iff every decoded dictionary equals the encoded one with "" read back as null
fn dicts_equal_modulo_empty(a: &Field, b: &Field) -> bool {
    use arrow_array::Array;
    let here = match (a.dictionary.as_ref().and_then(|d| d.values.as_ref()), b.dictionary.as_ref().and_then(|d| d.values.as_ref())) {
        (None, None) => true,
        (Some(x), Some(y)) => match (x.as_any().downcast_ref::<arrow_array::StringArray>(), y.as_any().downcast_ref::<arrow_array::StringArray>()) {
            (Some(x), Some(y)) => x.len() == y.len() && (0..x.len()).all(|i| if x.value(i).is_empty() { y.is_null(i) } else { y.is_valid(i) && x.value(i) == y.value(i) }),
            _ => false,
        },
        _ => false,
    };
    here && a.children.len() == b.children.len() && a.children.iter().zip(&b.children).all(|(x, y)| dicts_equal_modulo_empty(x, y))
}

use lance_arrow::DataTypeExt;

fn build_schema(d: &SchemaDesc, legacy_dict_values: bool, sh: &mut Shape) -> Result<Schema, String> {
    use arrow_schema::{DataType as D, Field as AF};
    sh.coll(d.fields.len());
    sh.coll(d.meta.len());
    let mut fields = vec![];
    for (i, f) in d.fields.iter().enumerate() {
        let ty = match &f.ty {
            TyDesc::Leaf(l) => leaf_type(l),
            TyDesc::List(l) => D::List(Arc::new(AF::new("item", leaf_type(l), true))),
            TyDesc::Struct(ch) => D::Struct(
                ch.iter().enumerate().map(|(j, (n, l, nullable))| AF::new(format!("{n}_{j}"), leaf_type(l), *nullable)).collect::<Vec<_>>().into(),
            ),
        };
        sh.coll(f.meta.len());
        // an (unenforced) primary key column must be a non-nullable leaf (Schema::validate)
        let mut meta = kv_map(&f.meta);
        let mut nullable = f.nullable;
        if meta.contains_key(PK_KEY) {
            if matches!(f.ty, TyDesc::Leaf(_)) {
                nullable = false;
            } else {
                meta.remove(PK_KEY);
            }
        }
        fields.push(AF::new(format!("{}_{i}", f.name), ty, nullable).with_metadata(meta));
    }
    let arrow = arrow_schema::Schema::new_with_metadata(fields, kv_map(&d.meta));
    let mut schema = Schema::try_from(&arrow).map_err(|e| e.to_string())?;
    let stride = d.id_stride.clamp(1, 4) as i32;
    for f in schema.fields.iter_mut() {
        renumber(f, -1, stride, d.id_offset as i32);
        if legacy_dict_values {
            set_dict_values(f, &d.dict_values);
        }
    }
    Ok(schema)
}

fn build_memwal(d: &MemWalDesc, sh: &mut Shape) -> MemWal {
    sh.coll(d.wal.len());
    sh.id(d.generation);
    sh.id(d.last_updated);
    let mut wal: Vec<u64> = d.wal.iter().copied().filter(|v| *v < u64::MAX).collect();
    wal.sort_unstable();
    wal.dedup();
    MemWal {
        id: MemWalId::new(&d.region, d.generation),
        mem_table_location: d.mem_table_location.clone(),
        wal_location: d.wal_location.clone(),
        wal_entries: pb::U64Segment::from(U64Segment::from_slice(&wal)).encode_to_vec(),
        state: match d.state % 4 {
            0 => WalState::Open,
            1 => WalState::Sealed,
            2 => WalState::Flushed,
            _ => WalState::Merged,
        },
        owner_id: d.owner_id.clone(),
        last_updated_dataset_version: d.last_updated,
    }
}

fn build_memwals(ds: &[MemWalDesc], sh: &mut Shape) -> Vec<MemWal> {
    sh.coll(ds.len());
    ds.iter().map(|d| build_memwal(d, sh)).collect()
}

fn build_map(d: &MapDesc, sh: &mut Shape) -> UpdateMap {
    sh.coll(d.entries.len());
    for (_, v) in &d.entries {
        sh.opt(v);
    }
    UpdateMap { update_entries: d.entries.iter().map(|(k, v)| UpdateMapEntry { key: k.clone(), value: v.clone() }).collect(), replace: d.replace }
}

fn build_op(d: &OpDesc, sh: &mut Shape) -> Result<Operation, String> {
    Ok(match d {
        OpDesc::Append { fragments } => Operation::Append { fragments: build_frags(fragments, true, sh) },
        OpDesc::Delete { updated, deleted_ids, predicate } => {
            sh.coll(deleted_ids.len());
            deleted_ids.iter().for_each(|v| sh.id(*v));
            Operation::Delete { updated_fragments: build_frags(updated, false, sh), deleted_fragment_ids: deleted_ids.clone(), predicate: predicate.clone() }
        }
        OpDesc::Overwrite { fragments, schema, config, initial_bases } => {
            // Some(empty) cannot be told from None in the protobuf
            let config_upsert_values = config.as_ref().filter(|c| !c.is_empty()).map(kv_map);
            sh.opt(&config_upsert_values);
            let initial_bases = initial_bases.as_ref().filter(|b| !b.is_empty()).map(|b| build_bases(b, sh));
            sh.opt(&initial_bases);
            Operation::Overwrite { fragments: build_frags(fragments, true, sh), schema: build_schema(schema, false, sh)?, config_upsert_values, initial_bases }
        }
        OpDesc::CreateIndex { new, removed } => Operation::CreateIndex { new_indices: build_indices(new, sh), removed_indices: build_indices(removed, sh) },
        OpDesc::Rewrite { groups, rewritten, frag_reuse } => {
            sh.coll(rewritten.len());
            sh.opt(frag_reuse);
            Operation::Rewrite {
                groups: groups.iter().map(|(o, n)| RewriteGroup { old_fragments: build_frags(o, false, sh), new_fragments: build_frags(n, true, sh) }).collect(),
                rewritten_indices: rewritten
                    .iter()
                    .map(|r| RewrittenIndex { old_id: uuid_of(r.old), new_id: uuid_of(r.new), new_index_details: build_any(&r.details), new_index_version: r.version })
                    .collect(),
                frag_reuse_index: frag_reuse.as_ref().map(|i| build_index(i, sh)),
            }
        }
        OpDesc::DataReplacement { replacements } => {
            sh.coll(replacements.len());
            Operation::DataReplacement {
                replacements: replacements
                    .iter()
                    .map(|(id, f)| {
                        sh.id(*id);
                        DataReplacementGroup(*id, build_file(f, sh))
                    })
                    .collect(),
            }
        }
        OpDesc::Merge { fragments, schema } => Operation::Merge { fragments: build_frags(fragments, false, sh), schema: build_schema(schema, false, sh)? },
        OpDesc::Restore { version } => {
            sh.id(*version);
            Operation::Restore { version: *version }
        }
        OpDesc::ReserveFragments { n } => Operation::ReserveFragments { num_fragments: *n },
        OpDesc::Update { removed_ids, updated, new, fields_modified, mem_wal, fields_preserve, mode } => {
            sh.coll(removed_ids.len());
            removed_ids.iter().for_each(|v| sh.id(*v));
            sh.coll(fields_modified.len());
            sh.coll(fields_preserve.len());
            sh.opt(mem_wal);
            Operation::Update {
                removed_fragment_ids: removed_ids.clone(),
                updated_fragments: build_frags(updated, false, sh),
                new_fragments: build_frags(new, true, sh),
                fields_modified: fields_modified.clone(),
                mem_wal_to_merge: mem_wal.as_ref().map(|m| build_memwal(m, sh)),
                fields_for_preserving_frag_bitmap: fields_preserve.clone(),
                update_mode: mode.map(|c| if c { UpdateMode::RewriteColumns } else { UpdateMode::RewriteRows }),
            }
        }
        OpDesc::Project { schema } => Operation::Project { schema: build_schema(schema, false, sh)? },
        OpDesc::UpdateConfig { config, table, schema, field } => {
            sh.opt(config);
            sh.opt(table);
            sh.opt(schema);
            sh.coll(field.len());
            Operation::UpdateConfig {
                config_updates: config.as_ref().map(|m| build_map(m, sh)),
                table_metadata_updates: table.as_ref().map(|m| build_map(m, sh)),
                schema_metadata_updates: schema.as_ref().map(|m| build_map(m, sh)),
                field_metadata_updates: field.iter().map(|(k, m)| (*k, build_map(m, sh))).collect(),
            }
        }
        OpDesc::UpdateMemWalState { added, updated, removed } => {
            Operation::UpdateMemWalState { added: build_memwals(added, sh), updated: build_memwals(updated, sh), removed: build_memwals(removed, sh) }
        }
        OpDesc::Clone { is_shallow, ref_name, ref_version, ref_path, branch_name } => {
            sh.opt(ref_name);
            sh.opt(branch_name);
            sh.id(*ref_version);
            Operation::Clone { is_shallow: *is_shallow, ref_name: ref_name.clone(), ref_version: *ref_version, ref_path: ref_path.clone(), branch_name: branch_name.clone() }
        }
        OpDesc::UpdateBases { new_bases } => Operation::UpdateBases { new_bases: build_bases(new_bases, sh) },
    })
}

fn op_name(d: &OpDesc) -> &'static str {
    match d {
        OpDesc::Append { .. } => "Append",
        OpDesc::Delete { .. } => "Delete",
        OpDesc::Overwrite { .. } => "Overwrite",
        OpDesc::CreateIndex { .. } => "CreateIndex",
        OpDesc::Rewrite { .. } => "Rewrite",
        OpDesc::DataReplacement { .. } => "DataReplacement",
        OpDesc::Merge { .. } => "Merge",
        OpDesc::Restore { .. } => "Restore",
        OpDesc::ReserveFragments { .. } => "ReserveFragments",
        OpDesc::Update { .. } => "Update",
        OpDesc::Project { .. } => "Project",
        OpDesc::UpdateConfig { .. } => "UpdateConfig",
        OpDesc::UpdateMemWalState { .. } => "UpdateMemWalState",
        OpDesc::Clone { .. } => "Clone",
        OpDesc::UpdateBases { .. } => "UpdateBases",
    }
}

fn build_txn(d: &TxnDesc, sh: &mut Shape) -> Result<Transaction, String> {
    sh.id(d.read_version);
    let tag = d.tag.clone().filter(|t| !t.is_empty());
    sh.opt(&tag);
    let props = d.props.as_ref().filter(|p| !p.is_empty()).map(|p| Arc::new(kv_map(p)));
    sh.opt(&props);
    Ok(Transaction { read_version: d.read_version, uuid: uuid_of(d.uuid).hyphenated().to_string(), operation: build_op(&d.op, sh)?, tag, transaction_properties: props })
}

const FLAG_STABLE_ROW_IDS: u64 = 2;
const PK_KEY: &str = "lance-schema:unenforced-primary-key";

fn build_manifest(d: &ManifestDesc, sh: &mut Shape) -> Result<Manifest, String> {
    let legacy = d.storage_version == "0.1";
    let schema = build_schema(&d.schema, legacy, sh)?;
    let mut frags = build_frags(&d.fragments, false, sh);
    frags.sort_by_key(|f| f.id);
    let all_row_ids = frags.iter().all(|f| f.row_id_meta.is_some());
    let base_paths: HashMap<u32, BasePath> = build_bases(&d.bases, sh).into_iter().map(|b| (b.id, b)).collect();
    let mut m = Manifest::new(schema, Arc::new(frags), DataStorageFormat { file_format: d.file_format.clone(), version: d.storage_version.clone() }, base_paths);
    m.version = d.version;
    sh.id(d.version);
    m.branch = d.branch.clone();
    sh.opt(&m.branch);
    m.writer_version =
        d.writer_version.as_ref().map(|w| WriterVersion { library: w.library.clone(), version: w.version.clone(), prerelease: w.prerelease.clone(), build_metadata: w.build_metadata.clone() });
    sh.opt(&m.writer_version);
    m.version_aux_data = d.version_aux_data as usize;
    m.timestamp_nanos = (d.ts_secs.min(i64::MAX as u64) as u128) * 1_000_000_000 + (d.ts_nanos % 1_000_000_000) as u128;
    m.tag = d.tag.clone().filter(|t| !t.is_empty());
    sh.opt(&m.tag);
    // the stable-row-id reader flag requires row id metadata on every fragment
    m.reader_feature_flags = if all_row_ids { d.reader_flags } else { d.reader_flags & !FLAG_STABLE_ROW_IDS };
    m.writer_feature_flags = d.writer_flags;
    m.max_fragment_id = d.max_fragment_id;
    sh.opt(&m.max_fragment_id);
    m.transaction_file = d.transaction_file.clone().filter(|t| !t.is_empty());
    sh.opt(&m.transaction_file);
    m.next_row_id = d.next_row_id;
    sh.id(d.next_row_id);
    m.config = kv_map(&d.config);
    if d.pad > 0 {
        m.config.insert("pad".into(), "x".repeat(d.pad as usize));
    }
    sh.coll(m.config.len());
    m.table_metadata = kv_map(&d.table_metadata);
    sh.coll(m.table_metadata.len());
    Ok(m)
}

// ---------------------------------------------------------------------------
// oracles

fn dbg<T: std::fmt::Debug>(v: &T) -> String {
    truncate_str(&format!("{v:?}"), 900)
}

pub const K_CREATED_AT: &str = "C32-index-created-at-subms";
pub const K_OVERWRITE_CONFIG: &str = "C32-overwrite-config-inverted";
pub const K_SCHEMA_META: &str = "C32-txn-schema-metadata-dropped";
pub const K_FRAG_REUSE: &str = "C32-rewrite-frag-reuse-dropped";
pub const K_DICT_EMPTY: &str = "C32-legacy-dict-empty-string";

/// `created_at` is stored in milliseconds; `Utc::now()` (what every in-tree
/// writer stores) has nanoseconds.  Exactly that truncation is the known
/// discrepancy; anything else about `created_at` is an ordinary failure.
fn reconcile_index(ctx: &str, o: &IndexMetadata, d: &mut IndexMetadata, obs: &mut Obs, env: &Env) -> CheckResult {
    if o.created_at != d.created_at {
        let truncated = o.created_at.and_then(|t| chrono::DateTime::<chrono::Utc>::from_timestamp_millis(t.timestamp_millis()));
        if o.created_at.is_some() && d.created_at == truncated {
            if env.known(K_CREATED_AT) {
                obs.known_hit(K_CREATED_AT, format!("{ctx}: created_at {:?} decoded as {:?}", o.created_at, d.created_at));
                d.created_at = o.created_at;
            } else {
                fail!("index-created-at-subms", "{ctx}: created_at {:?} decoded as {:?} (sub-millisecond part lost)", o.created_at, d.created_at);
            }
        } else {
            fail!("index-created-at", "{ctx}: created_at {:?} decoded as {:?}", o.created_at, d.created_at);
        }
    }
    Ok(())
}

fn reconcile_indices(ctx: &str, o: &[IndexMetadata], d: &mut [IndexMetadata], obs: &mut Obs, env: &Env) -> CheckResult {
    ensure!(o.len() == d.len(), "index-list-len", "{ctx}: {} indices encoded, {} decoded", o.len(), d.len());
    for (i, (a, b)) in o.iter().zip(d.iter_mut()).enumerate() {
        reconcile_index(&format!("{ctx}[{i}]"), a, b, obs, env)?;
    }
    Ok(())
}

fn roundtrip_index(o: &IndexMetadata, obs: &mut Obs, env: &Env) -> CheckResult {
    let bytes = pb::IndexMetadata::from(o).encode_to_vec();
    let p = match pb::IndexMetadata::decode(bytes.as_slice()) {
        Ok(p) => p,
        Err(e) => fail!("index-pb-decode", "{e}"),
    };
    let mut d = match IndexMetadata::try_from(p) {
        Ok(d) => d,
        Err(e) => fail!("index-decode-error", "{e} for {}", dbg(o)),
    };
    reconcile_index("index", o, &mut d, obs, env)?;
    ensure!(*o == d, "index-ne", "encoded {} decoded {}", dbg(o), dbg(&d));
    Ok(())
}

/// order-sensitive comparison of fragment lists
fn frag_list(ctx: &str, a: &[Fragment], b: &[Fragment]) -> CheckResult {
    ensure!(a.len() == b.len(), "txn-fragments-len", "{ctx}: {} fragments encoded, {} decoded", a.len(), b.len());
    for (i, (x, y)) in a.iter().zip(b).enumerate() {
        ensure!(x == y, "txn-fragments", "{ctx}[{i}]: encoded {} decoded {}", dbg(x), dbg(y));
    }
    Ok(())
}

fn sorted<T: Ord + Clone>(v: &[T]) -> Vec<T> {
    let mut v = v.to_vec();
    v.sort();
    v
}

fn schema_in_txn(ctx: &str, a: &Schema, b: &mut Schema, obs: &mut Obs, env: &Env) -> CheckResult {
    ensure!(a.fields == b.fields, "txn-schema-fields", "{ctx}: fields encoded {} decoded {}", dbg(&a.fields), dbg(&b.fields));
    if a.metadata != b.metadata {
        if b.metadata.is_empty() && env.known(K_SCHEMA_META) {
            obs.known_hit(K_SCHEMA_META, format!("{ctx}: schema metadata {:?} decoded as {{}}", a.metadata));
            b.metadata = a.metadata.clone();
        } else {
            fail!("txn-schema-metadata", "{ctx}: schema metadata {:?} decoded as {:?}", a.metadata, b.metadata);
        }
    }
    Ok(())
}

fn compare_op(o: &Operation, d: &mut Operation, obs: &mut Obs, env: &Env) -> CheckResult {
    match (o, d) {
        (Operation::Append { fragments: a }, Operation::Append { fragments: b }) => frag_list("Append.fragments", a, b)?,
        (
            Operation::Delete { updated_fragments: a, deleted_fragment_ids: ai, predicate: ap },
            Operation::Delete { updated_fragments: b, deleted_fragment_ids: bi, predicate: bp },
        ) => {
            frag_list("Delete.updated_fragments", a, b)?;
            ensure!(sorted(ai) == sorted(bi), "txn-id-list", "Delete.deleted_fragment_ids {ai:?} decoded {bi:?}");
            ensure!(ap == bp, "txn-field", "Delete.predicate {ap:?} decoded {bp:?}");
        }
        (
            Operation::Overwrite { fragments: a, schema: sa, config_upsert_values: ca, initial_bases: ia },
            Operation::Overwrite { fragments: b, schema: sb, config_upsert_values: cb, initial_bases: ib },
        ) => {
            frag_list("Overwrite.fragments", a, b)?;
            schema_in_txn("Overwrite.schema", sa, sb, obs, env)?;
            if ca != cb {
                if env.known(K_OVERWRITE_CONFIG) {
                    obs.known_hit(K_OVERWRITE_CONFIG, format!("config_upsert_values {ca:?} decoded as {cb:?}"));
                    *cb = ca.clone();
                } else {
                    fail!("txn-overwrite-config", "Overwrite.config_upsert_values {ca:?} decoded as {cb:?}");
                }
            }
            ensure!(ia == ib, "txn-field", "Overwrite.initial_bases {ia:?} decoded {ib:?}");
        }
        (Operation::CreateIndex { new_indices: an, removed_indices: ar }, Operation::CreateIndex { new_indices: bn, removed_indices: br }) => {
            reconcile_indices("CreateIndex.new_indices", an, bn, obs, env)?;
            reconcile_indices("CreateIndex.removed_indices", ar, br, obs, env)?;
        }
        (
            Operation::Rewrite { groups: ag, rewritten_indices: ai, frag_reuse_index: af },
            Operation::Rewrite { groups: bg, rewritten_indices: bi, frag_reuse_index: bf },
        ) => {
            ensure!(ag.len() == bg.len(), "txn-groups-len", "Rewrite: {} groups encoded, {} decoded", ag.len(), bg.len());
            for (i, (x, y)) in ag.iter().zip(bg.iter()).enumerate() {
                frag_list(&format!("Rewrite.groups[{i}].old_fragments"), &x.old_fragments, &y.old_fragments)?;
                frag_list(&format!("Rewrite.groups[{i}].new_fragments"), &x.new_fragments, &y.new_fragments)?;
            }
            ensure!(ai.len() == bi.len(), "txn-field", "Rewrite.rewritten_indices {} encoded, {} decoded", ai.len(), bi.len());
            match (af, bf.as_mut()) {
                (Some(a), Some(b)) => reconcile_index("Rewrite.frag_reuse_index", a, b, obs, env)?,
                (Some(a), None) => {
                    if env.known(K_FRAG_REUSE) {
                        obs.known_hit(K_FRAG_REUSE, format!("frag_reuse_index {} decoded as None", dbg(a)));
                        *bf = af.clone();
                    } else {
                        fail!("txn-rewrite-frag-reuse", "Rewrite.frag_reuse_index {} decoded as None", dbg(a));
                    }
                }
                (None, Some(b)) => fail!("txn-field", "Rewrite.frag_reuse_index None decoded as {}", dbg(b)),
                (None, None) => {}
            }
        }
        (Operation::DataReplacement { replacements: a }, Operation::DataReplacement { replacements: b }) => {
            ensure!(a == b, "txn-field", "DataReplacement.replacements {} decoded {}", dbg(a), dbg(b));
        }
        (Operation::Merge { fragments: a, schema: sa }, Operation::Merge { fragments: b, schema: sb }) => {
            frag_list("Merge.fragments", a, b)?;
            schema_in_txn("Merge.schema", sa, sb, obs, env)?;
        }
        (Operation::Restore { version: a }, Operation::Restore { version: b }) => ensure!(a == b, "txn-field", "Restore.version {a} decoded {b}"),
        (Operation::ReserveFragments { num_fragments: a }, Operation::ReserveFragments { num_fragments: b }) => {
            ensure!(a == b, "txn-field", "ReserveFragments.num_fragments {a} decoded {b}")
        }
        (
            Operation::Update {
                removed_fragment_ids: ar,
                updated_fragments: au,
                new_fragments: an,
                fields_modified: afm,
                mem_wal_to_merge: am,
                fields_for_preserving_frag_bitmap: afp,
                update_mode: amode,
            },
            Operation::Update {
                removed_fragment_ids: br,
                updated_fragments: bu,
                new_fragments: bn,
                fields_modified: bfm,
                mem_wal_to_merge: bm,
                fields_for_preserving_frag_bitmap: bfp,
                update_mode: bmode,
            },
        ) => {
            ensure!(sorted(ar) == sorted(br), "txn-id-list", "Update.removed_fragment_ids {ar:?} decoded {br:?}");
            frag_list("Update.updated_fragments", au, bu)?;
            frag_list("Update.new_fragments", an, bn)?;
            ensure!(sorted(afm) == sorted(bfm), "txn-id-list", "Update.fields_modified {afm:?} decoded {bfm:?}");
            ensure!(sorted(afp) == sorted(bfp), "txn-id-list", "Update.fields_for_preserving_frag_bitmap {afp:?} decoded {bfp:?}");
            ensure!(am == bm, "txn-field", "Update.mem_wal_to_merge {} decoded {}", dbg(am), dbg(bm));
            ensure!(amode == bmode, "txn-update-mode", "Update.update_mode {amode:?} decoded {bmode:?}");
        }
        (Operation::Project { schema: sa }, Operation::Project { schema: sb }) => schema_in_txn("Project.schema", sa, sb, obs, env)?,
        (
            Operation::UpdateConfig { config_updates: a1, table_metadata_updates: a2, schema_metadata_updates: a3, field_metadata_updates: a4 },
            Operation::UpdateConfig { config_updates: b1, table_metadata_updates: b2, schema_metadata_updates: b3, field_metadata_updates: b4 },
        ) => {
            ensure!(a1 == b1, "txn-field", "UpdateConfig.config_updates {a1:?} decoded {b1:?}");
            ensure!(a2 == b2, "txn-field", "UpdateConfig.table_metadata_updates {a2:?} decoded {b2:?}");
            ensure!(a3 == b3, "txn-field", "UpdateConfig.schema_metadata_updates {a3:?} decoded {b3:?}");
            ensure!(a4 == b4, "txn-field", "UpdateConfig.field_metadata_updates {a4:?} decoded {b4:?}");
        }
        (Operation::UpdateMemWalState { added: a1, updated: a2, removed: a3 }, Operation::UpdateMemWalState { added: b1, updated: b2, removed: b3 }) => {
            ensure!(a1 == b1 && a2 == b2 && a3 == b3, "txn-field", "UpdateMemWalState {} decoded {}", dbg(&(a1, a2, a3)), dbg(&(b1, b2, b3)));
        }
        (Operation::Clone { .. }, Operation::Clone { .. }) => {}
        (Operation::UpdateBases { new_bases: a }, Operation::UpdateBases { new_bases: b }) => {
            ensure!(a == b, "txn-field", "UpdateBases.new_bases {a:?} decoded {b:?}");
        }
        (a, b) => fail!("txn-op-variant", "operation {} decoded as {}", a.name(), b.name()),
    }
    Ok(())
}

fn compare_txn(o: &Transaction, d: &mut Transaction, obs: &mut Obs, env: &Env) -> CheckResult {
    ensure!(o.read_version == d.read_version, "txn-header", "read_version {} decoded {}", o.read_version, d.read_version);
    ensure!(o.uuid == d.uuid, "txn-header", "uuid {} decoded {}", o.uuid, d.uuid);
    ensure!(o.tag == d.tag, "txn-header", "tag {:?} decoded {:?}", o.tag, d.tag);
    ensure!(o.transaction_properties == d.transaction_properties, "txn-header", "properties {:?} decoded {:?}", o.transaction_properties, d.transaction_properties);
    compare_op(&o.operation, &mut d.operation, obs, env)?;
    // the type's own equality (order-insensitive for Operation), after the listed discrepancies were reconciled
    ensure!(*o == *d, "txn-ne", "encoded {} decoded {}", dbg(o), dbg(d));
    Ok(())
}

fn roundtrip_txn(o: &Transaction, obs: &mut Obs, env: &Env) -> CheckResult {
    // as commit.rs::write_transaction_file / read_transaction_file
    let message = pb::Transaction::from(o);
    let bytes = message.encode_to_vec();
    let p = match pb::Transaction::decode(bytes.as_slice()) {
        Ok(p) => p,
        Err(e) => fail!("txn-pb-decode", "{e}"),
    };
    ensure!(p == message, "txn-pb-bytes", "protobuf message changed through its bytes");
    let mut d = match Transaction::try_from(p) {
        Ok(d) => d,
        Err(e) => fail!("txn-decode-error", "{e} for {}", dbg(o)),
    };
    compare_txn(o, &mut d, obs, env)
}

fn roundtrip_fragment(f: &Fragment, obs: &mut Obs) -> CheckResult {
    // protobuf
    let bytes = pb::DataFragment::from(f).encode_to_vec();
    let p = match pb::DataFragment::decode(bytes.as_slice()) {
        Ok(p) => p,
        Err(e) => fail!("fragment-pb-decode", "{e}"),
    };
    match Fragment::try_from(p) {
        Ok(d) => ensure!(*f == d, "fragment-pb-ne", "encoded {} decoded {}", dbg(f), dbg(&d)),
        Err(e) => fail!("fragment-decode-error", "{e}"),
    }
    obs.inner += 1;
    for df in &f.files {
        let bytes = pb::DataFile::from(df).encode_to_vec();
        let p = pb::DataFile::decode(bytes.as_slice()).map_err(|e| Failure::new("datafile-pb-decode", e.to_string()))?;
        match DataFile::try_from(p) {
            Ok(d) => ensure!(*df == d, "datafile-pb-ne", "encoded {} decoded {}", dbg(df), dbg(&d)),
            Err(e) => fail!("datafile-decode-error", "{e}"),
        }
        let js = serde_json::to_string(df).map_err(|e| Failure::new("datafile-json-encode", e.to_string()))?;
        match serde_json::from_str::<DataFile>(&js) {
            Ok(d) => ensure!(*df == d, "datafile-json-ne", "json {js}: encoded {} decoded {}", dbg(df), dbg(&d)),
            Err(e) => fail!("datafile-json-decode", "{e}: {js}"),
        }
        obs.inner += 2;
    }
    // JSON (the form the Python/Java bindings exchange)
    let js = serde_json::to_string(f).map_err(|e| Failure::new("fragment-json-encode", e.to_string()))?;
    match Fragment::from_json(&js) {
        Ok(d) => ensure!(*f == d, "fragment-json-ne", "json {}: encoded {} decoded {}", truncate_str(&js, 600), dbg(f), dbg(&d)),
        Err(e) => fail!("fragment-json-decode", "{e}: {}", truncate_str(&js, 600)),
    }
    obs.inner += 1;
    if let Some(del) = &f.deletion_file {
        let js = serde_json::to_string(del).map_err(|e| Failure::new("deletionfile-json-encode", e.to_string()))?;
        match serde_json::from_str::<DeletionFile>(&js) {
            Ok(d) => ensure!(*del == d, "deletionfile-json-ne", "json {js}: decoded {}", dbg(&d)),
            Err(e) => fail!("deletionfile-json-decode", "{e}: {js}"),
        }
        obs.inner += 1;
    }
    if let Some(m) = &f.row_id_meta {
        let js = serde_json::to_string(m).map_err(|e| Failure::new("rowidmeta-json-encode", e.to_string()))?;
        match serde_json::from_str::<RowIdMeta>(&js) {
            Ok(d) => ensure!(*m == d, "rowidmeta-json-ne", "json {}: decoded {}", truncate_str(&js, 300), dbg(&d)),
            Err(e) => fail!("rowidmeta-json-decode", "{e}"),
        }
        obs.inner += 1;
    }
    Ok(())
}

fn lance_store() -> (VStore, LanceObjectStore) {
    let vs = VStore::new();
    let store = LanceObjectStore::new(Arc::new(vs.clone()), url::Url::parse("vs:///").unwrap(), None, None, false, true, 8, 0, None);
    (vs, store)
}

fn first_manifest_difference(a: &Manifest, b: &Manifest) -> String {
    macro_rules! f {
        ($($name:ident),*) => { $( if a.$name != b.$name { return format!("{}: encoded {} decoded {}", stringify!($name), dbg(&a.$name), dbg(&b.$name)); } )* };
    }
    f!(
        version, branch, writer_version, version_aux_data, index_section, timestamp_nanos, tag, reader_feature_flags, writer_feature_flags, max_fragment_id,
        transaction_file, transaction_section, next_row_id, data_storage_format, config, table_metadata, base_paths, fragments, schema
    );
    "a private field (fragment offsets)".into()
}

fn roundtrip_manifest(d: &ManifestDesc, sh: &mut Shape, obs: &mut Obs, env: &Env) -> CheckResult {
    let mut m = match build_manifest(d, sh) {
        Ok(m) => m,
        Err(e) => {
            obs.rejected += 1;
            obs.label("rejected-schema");
            let _ = e;
            return Ok(());
        }
    };
    let indices = d.indices.as_ref().map(|v| build_indices(v, sh));
    sh.opt(&indices);
    let txn = match d.txn.as_ref().map(|t| build_txn(t, sh)).transpose() {
        Ok(t) => t,
        Err(_) => {
            obs.rejected += 1;
            return Ok(());
        }
    };
    sh.opt(&txn);
    let legacy = m.should_use_legacy_format();
    let has_dict = m.schema.fields.iter().any(|f| f.has_dictionary_types());
    if legacy && has_dict {
        obs.label("manifest:legacy-dictionary-values");
    }
    if lance_table::format::is_detached_version(m.version) {
        obs.label("manifest:detached-version");
    }
    if d.pad >= 65_000 {
        obs.label("manifest:larger-than-prefetch");
    }
    if m.timestamp_nanos % 1_000_000 != 0 {
        obs.label("manifest:timestamp-with-nanos");
    }
    let before = m.clone();
    let (_vs, store) = lance_store();
    let path = Path::from("t/_versions/7.manifest");
    let inline_tx = txn.as_ref().map(lance_table::format::Transaction::from);
    let res = env.block_on(write_manifest_file_to_path(&store, &mut m, indices.clone(), &path, inline_tx));
    let size = match res {
        Ok(r) => r.size as u64,
        Err(e) => fail!("manifest-write-error", "{e}"),
    };
    ensure!(m.index_section.is_some() == indices.is_some(), "manifest-index-section-pos", "index_section {:?} for indices {}", m.index_section, indices.is_some());
    ensure!(m.transaction_section.is_some() == txn.is_some(), "manifest-transaction-section-pos", "transaction_section {:?}", m.transaction_section);
    {
        let mut b = before.clone();
        b.index_section = m.index_section;
        b.transaction_section = m.transaction_section;
        ensure!(b == m, "manifest-mutated-by-write", "write_manifest changed {}", first_manifest_difference(&b, &m));
    }
    let known = if d.known_size { Some(size) } else { None };
    let mut r = match env.block_on(read_manifest(&store, &path, known)) {
        Ok(r) => r,
        Err(e) => fail!("manifest-read-error", "{e} (file of {size} bytes)"),
    };
    if legacy && has_dict {
        let reader = env.block_on(store.open(&path)).map_err(|e| Failure::new("manifest-open-error", e.to_string()))?;
        if let Err(e) = env.block_on(lance_file::datatypes::populate_schema_dictionary(&mut r.schema, reader.as_ref())) {
            fail!("manifest-dictionary-read-error", "{e}");
        }
    }
    if legacy && has_dict && d.schema.dict_values.iter().any(|v| v.is_empty()) {
        obs.label("manifest:legacy-dictionary-with-empty-string");
        if m.schema != r.schema {
            let (mut a, mut b) = (m.schema.clone(), r.schema.clone());
            a.fields.iter_mut().for_each(strip_dicts);
            b.fields.iter_mut().for_each(strip_dicts);
            let only_dicts = a == b && m.schema.fields.iter().zip(&r.schema.fields).all(|(x, y)| dicts_equal_modulo_empty(x, y));
            if only_dicts && env.known(K_DICT_EMPTY) {
                obs.known_hit(K_DICT_EMPTY, format!("dictionary values {:?} read back with null for \"\"", d.schema.dict_values));
                let md = r.schema.metadata.clone();
                r.schema = m.schema.clone();
                r.schema.metadata = md;
            } else if only_dicts {
                fail!("manifest-legacy-dict-empty-string", "legacy manifest: dictionary values {:?} read back with null in place of the empty string", d.schema.dict_values);
            }
        }
    }
    ensure!(m == r, "manifest-ne", "{}", first_manifest_difference(&m, &r));
    // Schema's PartialEq ignores the schema metadata; it is persisted all the same
    ensure!(m.schema.metadata == r.schema.metadata, "manifest-schema-metadata", "schema metadata {:?} decoded {:?}", m.schema.metadata, r.schema.metadata);
    obs.inner += 1;

    let loc = ManifestLocation { version: m.version, path: path.clone(), size: known, naming_scheme: ManifestNamingScheme::V2, e_tag: None };
    let mut got = match env.block_on(read_manifest_indexes(&store, &loc, &r)) {
        Ok(v) => v,
        Err(e) => fail!("manifest-indexes-read-error", "{e}"),
    };
    let want = indices.clone().unwrap_or_default();
    reconcile_indices("index section", &want, &mut got, obs, env)?;
    ensure!(want == got, "manifest-index-section", "encoded {} decoded {}", dbg(&want), dbg(&got));
    obs.inner += 1;

    if let Some(t) = &txn {
        let pos = r.transaction_section.unwrap();
        let reader = env.block_on(store.open(&path)).map_err(|e| Failure::new("manifest-open-error", e.to_string()))?;
        let p: pb::Transaction = match env.block_on(read_message(reader.as_ref(), pos)) {
            Ok(p) => p,
            Err(e) => fail!("manifest-inline-txn-read-error", "{e}"),
        };
        let mut dt = match Transaction::try_from(p) {
            Ok(t) => t,
            Err(e) => fail!("txn-decode-error", "inline: {e}"),
        };
        compare_txn(t, &mut dt, obs, env)?;
        obs.inner += 1;
    }
    Ok(())
}

fn piece_ids(p: &Piece) -> Vec<u64> {
    match p {
        Piece::Range { start, len } => {
            let end = start.saturating_add(*len as u64).min(u64::MAX - 1);
            (*start..end).collect()
        }
        Piece::Holes { start, len, holes } => holes_values(*start, *len, holes),
        Piece::Dense { start, keep } => keep.iter().enumerate().filter(|(_, k)| **k).filter_map(|(i, _)| start.checked_add(i as u64)).filter(|v| *v < u64::MAX).collect(),
        Piece::Sparse { start, gaps } => {
            let mut v = *start;
            let mut out = vec![];
            for g in gaps {
                match v.checked_add(*g + 1) {
                    Some(n) if n < u64::MAX => {
                        v = n;
                        out.push(v);
                    }
                    _ => break,
                }
            }
            out
        }
        Piece::Unsorted { vals } => vals.iter().copied().filter(|v| *v < u64::MAX).collect(),
    }
}

fn seg_kinds(debug: &str) -> BTreeSet<&'static str> {
    let mut s = BTreeSet::new();
    let debug = debug.replace("SortedArray(", "SortedArray[");
    for k in ["RangeWithHoles", "RangeWithBitmap", "SortedArray", "Array(", "Range(", "U16", "U32", "U64"] {
        if debug.contains(k) {
            s.insert(k);
        }
    }
    s
}

fn roundtrip_row_ids(pieces: &[Piece], obs: &mut Obs) -> CheckResult {
    let mut seq = RowIdSequence::new();
    let mut model: Vec<u64> = vec![];
    let mut seen = HashSet::new();
    let mut nseg = 0;
    for p in pieces {
        let ids: Vec<u64> = piece_ids(p).into_iter().filter(|v| seen.insert(*v)).collect();
        if ids.is_empty() {
            continue;
        }
        let part = match p {
            Piece::Range { .. } if ids.windows(2).all(|w| w[1] == w[0] + 1) => RowIdSequence::from(ids[0]..ids[ids.len() - 1] + 1),
            _ => RowIdSequence::from(ids.as_slice()),
        };
        seq.extend(part);
        model.extend(ids);
        nseg += 1;
    }
    let kinds = seg_kinds(&format!("{seq:?}"));
    for k in &kinds {
        obs.label(format!("rowids:seg-{}", k.trim_end_matches('(')));
    }
    let bytes = write_row_ids(&seq);
    let d = match read_row_ids(&bytes) {
        Ok(d) => d,
        Err(e) => fail!("rowids-decode-error", "{e}"),
    };
    ensure!(d == seq, "rowids-ne", "encoded {} decoded {}", dbg(&seq), dbg(&d));
    let got: Vec<u64> = d.iter().collect();
    ensure!(got == model, "rowids-content", "decoded ids {} but {} were encoded", dbg(&got), dbg(&model));
    // the same bytes as inline fragment metadata
    let meta = RowIdMeta::Inline(bytes);
    let js = serde_json::to_string(&meta).unwrap();
    let m2: RowIdMeta = serde_json::from_str(&js).map_err(|e| Failure::new("rowidmeta-json-decode", e.to_string()))?;
    ensure!(m2 == meta, "rowidmeta-json-ne", "inline row id bytes changed through JSON");
    obs.inner += 2;
    let big = model.iter().any(|v| *v >= 1 << 32);
    if kinds.iter().filter(|k| !k.starts_with('U')).count() >= 2 && big {
        obs.nontrivial(format!("rowids|{kinds:?}|segs{}", nseg.min(4)));
    }
    Ok(())
}

fn build_runs(runs: &[RunDesc]) -> (RowDatasetVersionSequence, Vec<u64>) {
    let mut out = vec![];
    let mut model = vec![];
    let mut off = 0u64;
    for r in runs {
        if r.len == 0 {
            continue;
        }
        let all: Vec<u64> = (off..off + r.len as u64).collect();
        let hs: HashSet<usize> = r.drop.iter().map(|h| idx(*h, all.len())).collect();
        let vals: Vec<u64> = all.iter().enumerate().filter(|(i, _)| !hs.contains(i)).map(|(_, v)| *v).collect();
        off += r.len as u64;
        if vals.is_empty() {
            continue;
        }
        let span = if hs.is_empty() { U64Segment::Range(vals[0]..vals[vals.len() - 1] + 1) } else { U64Segment::from_slice(&vals) };
        model.extend(std::iter::repeat(r.version).take(vals.len()));
        out.push(RowDatasetVersionRun { span, version: r.version });
    }
    (RowDatasetVersionSequence { runs: out }, model)
}

fn roundtrip_versions(runs: &[RunDesc], obs: &mut Obs) -> CheckResult {
    let (seq, model) = build_runs(runs);
    let kinds = seg_kinds(&format!("{seq:?}"));
    for k in &kinds {
        obs.label(format!("versions:span-{}", k.trim_end_matches('(')));
    }
    obs.label(match seq.runs.len() {
        0 => "versions:runs=0",
        1 => "versions:runs=1",
        2..=15 => "versions:runs=2..15",
        16..=99 => "versions:runs=16..99",
        _ => "versions:runs>=100",
    });
    let bytes = write_dataset_versions(&seq);
    let d = match read_dataset_versions(&bytes) {
        Ok(d) => d,
        Err(e) => fail!("versions-decode-error", "{e}"),
    };
    ensure!(d == seq, "versions-ne", "encoded {} decoded {}", dbg(&seq), dbg(&d));
    let got: Vec<u64> = d.versions().collect();
    ensure!(got == model, "versions-content", "decoded versions {} but encoded {}", dbg(&got), dbg(&model));
    ensure!(d.len() == model.len() as u64, "versions-len", "len {} vs {}", d.len(), model.len());
    // as fragment metadata
    let meta = RowDatasetVersionMeta::from_sequence(&seq).map_err(|e| Failure::new("versions-meta-encode", e.to_string()))?;
    match meta.load_sequence() {
        Ok(s) => ensure!(s == seq, "versions-meta-ne", "load_sequence() = {} for {}", dbg(&s), dbg(&seq)),
        Err(e) => fail!("versions-meta-decode-error", "{e}"),
    }
    let js = serde_json::to_string(&meta).unwrap();
    let m2: RowDatasetVersionMeta = serde_json::from_str(&js).map_err(|e| Failure::new("versions-meta-json-decode", e.to_string()))?;
    ensure!(m2 == meta, "versions-meta-json-ne", "version meta changed through JSON");
    // both slots of a fragment, with different contents (they must not be swapped)
    let other = RowDatasetVersionMeta::from_sequence(&RowDatasetVersionSequence::from_uniform_row_count(model.len() as u64 + 1, 9)).unwrap();
    let mut f = Fragment::new(3);
    f.last_updated_at_version_meta = Some(meta.clone());
    f.created_at_version_meta = Some(other);
    let p = pb::DataFragment::decode(pb::DataFragment::from(&f).encode_to_vec().as_slice()).map_err(|e| Failure::new("fragment-pb-decode", e.to_string()))?;
    match Fragment::try_from(p) {
        Ok(d) => ensure!(d == f, "fragment-pb-ne", "version metas: encoded {} decoded {}", dbg(&f), dbg(&d)),
        Err(e) => fail!("fragment-decode-error", "{e}"),
    }
    obs.inner += 4;
    let distinct_versions = model.iter().collect::<BTreeSet<_>>().len();
    if seq.runs.len() >= 2 && distinct_versions >= 2 && model.iter().any(|v| *v >= 1 << 32) {
        obs.nontrivial(format!("versions|{kinds:?}|runs{}", (seq.runs.len() as f64).log2() as u32));
    }
    Ok(())
}

const DV_THRESHOLD: usize = 5000;

fn dv_values(d: &DvDesc) -> Vec<u32> {
    let mut set = BTreeSet::new();
    let stride = d.stride.max(1) as u64;
    for i in 0..d.n.min(20_000) as u64 {
        set.insert((d.start as u64 + i * stride).min(u32::MAX as u64) as u32);
    }
    set.extend(d.extra.iter().copied());
    set.into_iter().collect()
}

fn roundtrip_dv(d: &DvDesc, obs: &mut Obs, env: &Env) -> CheckResult {
    let vals = dv_values(d);
    let dv = match d.mode {
        DvMode::AutoExact => DeletionVector::from_iter(vals.clone()),
        DvMode::AutoUnknown => DeletionVector::from_iter(vals.iter().copied().filter(|_| true)),
        DvMode::Grow => {
            let (a, b) = vals.split_at(vals.len() / 2);
            let mut dv = DeletionVector::from_iter(a.to_vec());
            dv.extend(b.to_vec());
            dv
        }
        DvMode::ForceSet if !vals.is_empty() => DeletionVector::Set(vals.iter().copied().collect()),
        DvMode::ForceBitmap if !vals.is_empty() => DeletionVector::Bitmap(vals.iter().copied().collect()),
        _ => DeletionVector::NoDeletions,
    };
    let sorted_in: Vec<u32> = dv.to_sorted_iter().collect();
    ensure!(sorted_in == vals, "dv-build", "deletion vector built from {} offsets holds {}", vals.len(), sorted_in.len());
    let n = vals.len();
    obs.label(if n == 0 {
        "dv:n=0"
    } else if n + 16 < DV_THRESHOLD {
        "dv:n<threshold-16"
    } else if n < DV_THRESHOLD {
        "dv:n just below threshold"
    } else if n == DV_THRESHOLD {
        "dv:n=threshold"
    } else if n <= DV_THRESHOLD + 16 {
        "dv:n just above threshold"
    } else {
        "dv:n>threshold+16"
    });
    let (_vs, store) = lance_store();
    let base = Path::from("tbl");
    let file = match env.block_on(write_deletion_file(&base, d.fragment_id, d.read_version, &dv, &store)) {
        Ok(f) => f,
        Err(e) => fail!("dv-write-error", "{e}"),
    };
    let Some(file) = file else {
        ensure!(matches!(dv, DeletionVector::NoDeletions), "dv-no-file", "no deletion file written for {n} deleted rows");
        obs.label("dv:none");
        return Ok(());
    };
    let want_type = match &dv {
        DeletionVector::Set(_) => DeletionFileType::Array,
        DeletionVector::Bitmap(_) => DeletionFileType::Bitmap,
        DeletionVector::NoDeletions => fail!("dv-file-for-nothing", "a deletion file {file:?} was written for NoDeletions"),
    };
    obs.label(if want_type == DeletionFileType::Array { "dv:arrow-file" } else { "dv:roaring-file" });
    ensure!(file.file_type == want_type, "dv-file-type", "{:?} for {dv:?}", file.file_type);
    ensure!(file.num_deleted_rows == Some(n), "dv-num-deleted", "num_deleted_rows {:?} for {n} rows", file.num_deleted_rows);
    ensure!(file.read_version == d.read_version, "dv-read-version", "read_version {} vs {}", file.read_version, d.read_version);
    let got = match env.block_on(read_deletion_file(d.fragment_id, &file, &base, &store)) {
        Ok(g) => g,
        Err(e) => fail!("dv-read-error", "{e} ({} at {})", dbg(&file), deletion_file_path(&base, d.fragment_id, &file)),
    };
    ensure!(std::mem::discriminant(&got) == std::mem::discriminant(&dv), "dv-variant", "variant changed: {} rows", n);
    ensure!(got == dv, "dv-ne", "decoded deletion vector differs ({} vs {} rows)", got.len(), dv.len());
    let sorted_out: Vec<u32> = got.to_sorted_iter().collect();
    ensure!(sorted_out == vals, "dv-content", "decoded offsets differ: {} vs {}", dbg(&sorted_out), dbg(&vals));
    // the descriptor itself through the fragment protobuf
    let mut f = Fragment::new(d.fragment_id);
    f.physical_rows = Some(u32::MAX as usize);
    f.deletion_file = Some(file.clone());
    let p = pb::DataFragment::decode(pb::DataFragment::from(&f).encode_to_vec().as_slice()).map_err(|e| Failure::new("fragment-pb-decode", e.to_string()))?;
    match Fragment::try_from(p) {
        Ok(d2) => ensure!(d2 == f, "fragment-pb-ne", "deletion file descriptor: encoded {} decoded {}", dbg(&f), dbg(&d2)),
        Err(e) => fail!("fragment-decode-error", "{e}"),
    }
    obs.inner += 2;
    let near = n + 16 >= DV_THRESHOLD && n <= DV_THRESHOLD + 16;
    if (near || vals.last().copied().unwrap_or(0) >= 1 << 16) && (d.fragment_id >= 1 << 32 || d.read_version >= 1 << 32) {
        obs.nontrivial(format!("dv|{:?}|{:?}|near{}|n{}", d.mode, want_type, near, (n as f64).log2() as u32));
    }
    Ok(())
}

fn roundtrip_memwal(ds: &[MemWalDesc], sh: &mut Shape, obs: &mut Obs) -> CheckResult {
    let details = MemWalIndexDetails { mem_wal_list: build_memwals(ds, sh) };
    let message = pb::MemWalIndexDetails::from(&details);
    let p = pb::MemWalIndexDetails::decode(message.encode_to_vec().as_slice()).map_err(|e| Failure::new("memwal-pb-decode", e.to_string()))?;
    match MemWalIndexDetails::try_from(p) {
        Ok(d) => ensure!(d == details, "memwal-details-ne", "encoded {} decoded {}", dbg(&details), dbg(&d)),
        Err(e) => fail!("memwal-decode-error", "{e}"),
    }
    // as stored in IndexMetadata.index_details
    let any = prost_types::Any::from_msg(&message).map_err(|e| Failure::new("memwal-any-encode", e.to_string()))?;
    match any.to_msg::<pb::MemWalIndexDetails>() {
        Ok(p) => match MemWalIndexDetails::try_from(p) {
            Ok(d) => ensure!(d == details, "memwal-details-ne", "through Any: encoded {} decoded {}", dbg(&details), dbg(&d)),
            Err(e) => fail!("memwal-decode-error", "{e}"),
        },
        Err(e) => fail!("memwal-any-decode", "{e}"),
    }
    for (m, desc) in details.mem_wal_list.iter().zip(ds) {
        let bytes = pb::mem_wal_index_details::MemWal::from(m).encode_to_vec();
        let p = pb::mem_wal_index_details::MemWal::decode(bytes.as_slice()).map_err(|e| Failure::new("memwal-pb-decode", e.to_string()))?;
        let d = match MemWal::try_from(p) {
            Ok(d) => d,
            Err(e) => fail!("memwal-decode-error", "{e}"),
        };
        ensure!(d == *m, "memwal-ne", "encoded {} decoded {}", dbg(m), dbg(&d));
        let mut wal: Vec<u64> = desc.wal.iter().copied().filter(|v| *v < u64::MAX).collect();
        wal.sort_unstable();
        wal.dedup();
        let got: Vec<u64> = d.wal_entries().iter().collect();
        ensure!(got == wal, "memwal-wal-entries", "wal entries {} decoded {}", dbg(&wal), dbg(&got));
        obs.label(format!("memwal:state-{:?}", m.state));
        obs.inner += 1;
    }
    let js = serde_json::to_string(&details).map_err(|e| Failure::new("memwal-json-encode", e.to_string()))?;
    match serde_json::from_str::<MemWalIndexDetails>(&js) {
        Ok(d) => ensure!(d == details, "memwal-json-ne", "json: decoded {}", dbg(&d)),
        Err(e) => fail!("memwal-json-decode", "{e}"),
    }
    Ok(())
}

fn roundtrip_ref(d: &RefDesc, sh: &mut Shape, obs: &mut Obs, env: &Env) -> CheckResult {
    let (_vs, store) = lance_store();
    let base = Path::from("tbl");
    match d {
        RefDesc::Tag { name, branch, version, manifest_size } => {
            sh.opt(branch);
            sh.id(*version);
            sh.id(*manifest_size);
            let t = TagContents { branch: branch.clone(), version: *version, manifest_size: *manifest_size as usize };
            let path = tag_path(&base, name);
            // as Tags::create writes it
            let text = serde_json::to_string_pretty(&t).map_err(|e| Failure::new("tag-encode", e.to_string()))?;
            env.block_on(store.put(&path, text.as_bytes())).map_err(|e| Failure::new("ref-put-error", e.to_string()))?;
            match env.block_on(TagContents::from_path(&path, &store)) {
                Ok(g) => ensure!(
                    g.branch == t.branch && g.version == t.version && g.manifest_size == t.manifest_size,
                    "tag-ne",
                    "encoded {t:?} as {text} decoded {g:?}"
                ),
                Err(e) => fail!("tag-decode-error", "{e}: {text}"),
            }
        }
        RefDesc::Branch { name, parent_branch, parent_version, create_at, manifest_size } => {
            sh.opt(parent_branch);
            sh.id(*parent_version);
            sh.id(*create_at);
            sh.id(*manifest_size);
            let b = BranchContents { parent_branch: parent_branch.clone(), parent_version: *parent_version, create_at: *create_at, manifest_size: *manifest_size as usize };
            let path = branch_contents_path(&base, name);
            let text = serde_json::to_string_pretty(&b).map_err(|e| Failure::new("branch-encode", e.to_string()))?;
            env.block_on(store.put(&path, text.as_bytes())).map_err(|e| Failure::new("ref-put-error", e.to_string()))?;
            match env.block_on(BranchContents::from_path(&path, &store)) {
                Ok(g) => ensure!(
                    g.parent_branch == b.parent_branch && g.parent_version == b.parent_version && g.create_at == b.create_at && g.manifest_size == b.manifest_size,
                    "branch-ne",
                    "encoded {b:?} as {text} decoded {g:?}"
                ),
                Err(e) => fail!("branch-decode-error", "{e}: {text}"),
            }
        }
    }
    obs.inner += 1;
    Ok(())
}

// ---------------------------------------------------------------------------
// generators

fn s_chars(min: usize, max: usize) -> BoxedStrategy<String> {
    let pool: Vec<char> = "abcXYZ019_-./ =%üλ✓".chars().collect();
    prop::collection::vec(prop::sample::select(pool), min..max).prop_map(|v| v.into_iter().collect()).boxed()
}
fn s_str() -> BoxedStrategy<String> {
    s_chars(0, 9)
}
fn s_name() -> BoxedStrategy<String> {
    s_chars(1, 9)
}
/// schema field names: lance rejects `.` in top-level field names
fn s_field_name() -> BoxedStrategy<String> {
    let pool: Vec<char> = "abcXYZ019_-/ =%üλ✓".chars().collect();
    prop::collection::vec(prop::sample::select(pool), 1..9).prop_map(|v| v.into_iter().collect()).boxed()
}
fn s_kv(max: usize) -> BoxedStrategy<Kv> {
    prop_oneof![1 => Just(vec![]), 3 => prop::collection::vec((s_name(), s_str()), 1..max.max(2))].boxed()
}
/// ids: small, around 2^32, anything, extremes
fn s_id() -> BoxedStrategy<u64> {
    prop_oneof![
        3 => 0u64..1000,
        3 => (0u64..2000).prop_map(|d| (1u64 << 32) - 1000 + d),
        1 => (0u64..1000).prop_map(|d| (1u64 << 53) - 500 + d),
        1 => any::<u64>(),
        1 => Just(u64::MAX),
    ]
    .boxed()
}
fn s_u32() -> BoxedStrategy<u32> {
    prop_oneof![3 => 0u32..100, 1 => any::<u32>(), 1 => Just(u32::MAX)].boxed()
}
fn s_i32s(max: usize) -> BoxedStrategy<Vec<i32>> {
    prop_oneof![1 => Just(vec![]), 3 => prop::collection::vec(prop_oneof![4 => -1i32..40, 1 => any::<i32>()], 1..max.max(2))].boxed()
}
fn s_ids(max: usize) -> BoxedStrategy<Vec<u64>> {
    prop_oneof![1 => Just(vec![]), 3 => prop::collection::vec(s_id(), 1..max.max(2))].boxed()
}
fn s_u32s(max: usize) -> BoxedStrategy<Vec<u32>> {
    prop_oneof![1 => Just(vec![]), 3 => prop::collection::vec(s_u32(), 1..max.max(2))].boxed()
}
fn s_opt<S: Strategy + 'static>(s: S) -> BoxedStrategy<Option<S::Value>>
where
    S::Value: Clone + std::fmt::Debug,
{
    prop::option::weighted(0.6, s).boxed()
}
fn s_bytes() -> BoxedStrategy<Vec<u8>> {
    prop::collection::vec(any::<u8>(), 0..12).boxed()
}
fn s_uuid() -> BoxedStrategy<(u64, u64)> {
    (any::<u64>(), any::<u64>()).boxed()
}
/// >= 1
fn s_count() -> BoxedStrategy<u64> {
    prop_oneof![3 => 1u64..5000, 2 => (0u64..1000).prop_map(|d| (1u64 << 32) - 500 + d), 1 => 1u64..(1 << 40)].boxed()
}

fn s_file() -> BoxedStrategy<FileDesc> {
    (s_name(), s_i32s(5), s_i32s(5), prop_oneof![Just((0u32, 1u32)), Just((0, 3)), Just((2, 0)), Just((2, 1)), (any::<u32>(), any::<u32>())], s_opt(s_count()), s_opt(s_u32()))
        .prop_map(|(path, fields, column_indices, (major, minor), size, base_id)| FileDesc { path, fields, column_indices, major, minor, size, base_id })
        .boxed()
}
fn s_ext() -> BoxedStrategy<ExtDesc> {
    (s_name(), s_id(), s_id()).prop_map(|(path, offset, size)| ExtDesc { path, offset, size }).boxed()
}
fn s_row_meta() -> BoxedStrategy<RowMetaDesc> {
    prop_oneof![
        3 => (s_id(), 0u16..60, prop::collection::vec(any::<u16>(), 0..4)).prop_map(|(start, len, holes)| RowMetaDesc::Inline { start, len, holes }),
        1 => s_ext().prop_map(RowMetaDesc::External),
    ]
    .boxed()
}
fn s_ver_meta() -> BoxedStrategy<VerMetaDesc> {
    prop_oneof![
        3 => prop::collection::vec((0u16..50, s_id()), 0..5).prop_map(|runs| VerMetaDesc::Inline { runs }),
        1 => s_ext().prop_map(VerMetaDesc::External),
    ]
    .boxed()
}
fn s_del() -> BoxedStrategy<DelDesc> {
    (s_id(), s_id(), any::<bool>(), s_opt(s_count()), s_opt(s_u32()))
        .prop_map(|(read_version, id, bitmap, num_deleted, base_id)| DelDesc { read_version, id, bitmap, num_deleted, base_id })
        .boxed()
}
fn s_frag(new: bool) -> BoxedStrategy<FragDesc> {
    let id = if new { prop_oneof![2 => Just(0u64), 1 => s_id()].boxed() } else { s_id() };
    (
        id,
        prop_oneof![1 => Just(vec![]), 4 => prop::collection::vec(s_file(), 1..3)],
        s_opt(s_del()),
        s_opt(s_row_meta()),
        s_opt(s_count()),
        prop::option::weighted(0.4, s_ver_meta()),
        prop::option::weighted(0.4, s_ver_meta()),
    )
        .prop_map(|(id, files, deletion, row_ids, physical_rows, updated_at, created_at)| FragDesc { id, files, deletion, row_ids, physical_rows, updated_at, created_at })
        .boxed()
}
fn s_frags(new: bool, max: usize) -> BoxedStrategy<Vec<FragDesc>> {
    prop_oneof![1 => Just(vec![]), 4 => prop::collection::vec(s_frag(new), 1..max.max(2))].boxed()
}
fn s_any() -> BoxedStrategy<AnyDesc> {
    (prop_oneof![Just(String::new()), Just("/lance.table.MemWalIndexDetails".to_string()), s_name()], s_bytes()).prop_map(|(type_url, value)| AnyDesc { type_url, value }).boxed()
}
fn s_index() -> BoxedStrategy<IndexDesc> {
    (
        s_uuid(),
        s_i32s(4),
        s_str(),
        s_id(),
        s_opt(s_u32s(5)),
        s_opt(s_any()),
        prop_oneof![3 => 0i32..5, 1 => any::<i32>()],
        s_opt(0i64..4_000_000_000_000),
        prop_oneof![3 => Just(0u32), 1 => 1u32..1_000_000],
        s_opt(s_u32()),
    )
        .prop_map(|(uuid, fields, name, dataset_version, frags, details, index_version, created_ms, created_sub_ms_nanos, base_id)| IndexDesc {
            uuid,
            fields,
            name,
            dataset_version,
            frags,
            details,
            index_version,
            created_ms,
            created_sub_ms_nanos,
            base_id,
        })
        .boxed()
}
fn s_indices(max: usize) -> BoxedStrategy<Vec<IndexDesc>> {
    prop_oneof![1 => Just(vec![]), 3 => prop::collection::vec(s_index(), 1..max.max(2))].boxed()
}
fn s_base() -> BoxedStrategy<BaseDesc> {
    (s_u32(), s_opt(s_str()), any::<bool>(), s_str()).prop_map(|(id, name, is_dataset_root, path)| BaseDesc { id, name, is_dataset_root, path }).boxed()
}
fn s_bases(max: usize) -> BoxedStrategy<Vec<BaseDesc>> {
    prop_oneof![1 => Just(vec![]), 2 => prop::collection::vec(s_base(), 1..max.max(2))].boxed()
}
fn s_leaf() -> BoxedStrategy<Leaf> {
    prop_oneof![
        Just(Leaf::Int32),
        Just(Leaf::Int64),
        Just(Leaf::Float32),
        Just(Leaf::Utf8),
        Just(Leaf::LargeBinary),
        Just(Leaf::Bool),
        Just(Leaf::TimestampNsUtc),
        Just(Leaf::Decimal128),
        Just(Leaf::Date32),
        (1u8..9).prop_map(Leaf::FixedSizeListF32),
        Just(Leaf::DictI32Utf8),
    ]
    .boxed()
}
fn s_field_meta() -> BoxedStrategy<Kv> {
    prop_oneof![
        3 => Just(vec![]),
        2 => s_kv(3),
        1 => Just(vec![("lance-schema:unenforced-primary-key".to_string(), "true".to_string())]),
        1 => Just(vec![("ARROW:extension:name".to_string(), "my.ext".to_string()), ("ARROW:extension:metadata".to_string(), "{}".to_string())]),
    ]
    .boxed()
}
fn s_schema() -> BoxedStrategy<SchemaDesc> {
    let ty = prop_oneof![
        4 => s_leaf().prop_map(TyDesc::Leaf),
        1 => s_leaf().prop_map(TyDesc::List),
        1 => prop::collection::vec((s_field_name(), s_leaf(), any::<bool>()), 1..4).prop_map(TyDesc::Struct),
    ];
    let field = (s_field_name(), ty, any::<bool>(), s_field_meta()).prop_map(|(name, ty, nullable, meta)| FieldDesc { name, ty, nullable, meta });
    (prop_oneof![1 => Just(vec![]), 5 => prop::collection::vec(field, 1..5)], s_kv(3), 1u8..4, prop_oneof![2 => Just(0u16), 1 => 0u16..1000], prop_oneof![4 => prop::collection::vec(s_name(), 0..5), 1 => prop::collection::vec(s_str(), 1..5)])
        .prop_map(|(fields, meta, id_stride, id_offset, dict_values)| SchemaDesc { fields, meta, id_stride, id_offset, dict_values })
        .boxed()
}
fn s_memwal() -> BoxedStrategy<MemWalDesc> {
    (s_str(), s_id(), s_str(), s_str(), prop_oneof![1 => Just(vec![]), 3 => prop::collection::vec(s_id(), 1..8), 1 => (0u64..100, 1u64..40).prop_map(|(s, l)| (s..s + l).collect())], 0u8..4, s_str(), s_id())
        .prop_map(|(region, generation, mem_table_location, wal_location, wal, state, owner_id, last_updated)| MemWalDesc { region, generation, mem_table_location, wal_location, wal, state, owner_id, last_updated })
        .boxed()
}
fn s_memwals(max: usize) -> BoxedStrategy<Vec<MemWalDesc>> {
    prop_oneof![1 => Just(vec![]), 3 => prop::collection::vec(s_memwal(), 1..max.max(2))].boxed()
}
fn s_map() -> BoxedStrategy<MapDesc> {
    (prop_oneof![1 => Just(vec![]), 3 => prop::collection::vec((s_name(), s_opt(s_str())), 1..4)], any::<bool>()).prop_map(|(entries, replace)| MapDesc { entries, replace }).boxed()
}

fn s_op() -> BoxedStrategy<OpDesc> {
    prop_oneof![
        s_frags(true, 4).prop_map(|fragments| OpDesc::Append { fragments }),
        (s_frags(false, 3), s_ids(4), s_str()).prop_map(|(updated, deleted_ids, predicate)| OpDesc::Delete { updated, deleted_ids, predicate }),
        (s_frags(true, 3), s_schema(), s_opt(prop::collection::vec((s_name(), s_str()), 1..3)), s_opt(prop::collection::vec(s_base(), 1..3)))
            .prop_map(|(fragments, schema, config, initial_bases)| OpDesc::Overwrite { fragments, schema, config, initial_bases }),
        (s_indices(3), s_indices(3)).prop_map(|(new, removed)| OpDesc::CreateIndex { new, removed }),
        (
            prop::collection::vec((s_frags(false, 3), s_frags(true, 3)), 1..4),
            prop_oneof![1 => Just(vec![]), 2 => prop::collection::vec((s_uuid(), s_uuid(), s_any(), s_u32()).prop_map(|(old, new, details, version)| RewrittenDesc { old, new, details, version }), 1..3)],
            prop::option::weighted(0.4, s_index())
        )
            .prop_map(|(groups, rewritten, frag_reuse)| OpDesc::Rewrite { groups, rewritten, frag_reuse }),
        prop_oneof![1 => Just(vec![]), 3 => prop::collection::vec((s_id(), s_file()), 1..4)].prop_map(|replacements| OpDesc::DataReplacement { replacements }),
        (s_frags(false, 3), s_schema()).prop_map(|(fragments, schema)| OpDesc::Merge { fragments, schema }),
        s_id().prop_map(|version| OpDesc::Restore { version }),
        s_u32().prop_map(|n| OpDesc::ReserveFragments { n }),
        (s_ids(3), s_frags(false, 3), s_frags(true, 3), s_u32s(3), s_opt(s_memwal()), s_u32s(3), any::<bool>())
            .prop_map(|(removed_ids, updated, new, fields_modified, mem_wal, fields_preserve, cols)| OpDesc::Update { removed_ids, updated, new, fields_modified, mem_wal, fields_preserve, mode: Some(cols) }),
        s_schema().prop_map(|schema| OpDesc::Project { schema }),
        (s_opt(s_map()), s_opt(s_map()), s_opt(s_map()), prop_oneof![1 => Just(vec![]), 2 => prop::collection::vec((-1i32..50, s_map()), 1..3)])
            .prop_map(|(config, table, schema, field)| OpDesc::UpdateConfig { config, table, schema, field }),
        (s_memwals(3), s_memwals(3), s_memwals(3)).prop_map(|(added, updated, removed)| OpDesc::UpdateMemWalState { added, updated, removed }),
        (any::<bool>(), s_opt(s_str()), s_id(), s_str(), s_opt(s_str()))
            .prop_map(|(is_shallow, ref_name, ref_version, ref_path, branch_name)| OpDesc::Clone { is_shallow, ref_name, ref_version, ref_path, branch_name }),
        s_bases(4).prop_map(|new_bases| OpDesc::UpdateBases { new_bases }),
    ]
    .boxed()
}

fn s_txn() -> BoxedStrategy<TxnDesc> {
    (s_id(), s_uuid(), s_op(), s_opt(s_name()), s_opt(prop::collection::vec((s_name(), s_str()), 1..3))).prop_map(|(read_version, uuid, op, tag, props)| TxnDesc { read_version, uuid, op, tag, props }).boxed()
}

fn s_manifest() -> BoxedStrategy<ManifestDesc> {
    let version = prop_oneof![
        3 => s_id().prop_map(|v| v & !(1u64 << 63)),
        2 => any::<u64>().prop_map(|v| v | (1u64 << 63)), // detached
    ];
    let writer = (s_str(), s_str(), s_opt(s_str()), s_opt(s_str())).prop_map(|(library, version, prerelease, build_metadata)| WriterDesc { library, version, prerelease, build_metadata });
    let head = (s_schema(), s_frags(false, 4), prop_oneof![4 => Just("lance".to_string()), 1 => s_str()], prop_oneof![2 => Just("0.1".to_string()), 3 => Just("2.0".to_string()), 2 => Just("2.1".to_string()), 1 => s_str()], s_bases(3), version);
    let mid = (
        s_opt(s_name()),
        s_opt(writer),
        s_id(),
        prop_oneof![1 => Just(0u64), 4 => 0u64..4_000_000_000, 1 => 0u64..(1 << 40)],
        prop_oneof![1 => Just(0u32), 3 => 0u32..1_000_000_000],
        s_opt(s_name()),
        prop_oneof![2 => 0u64..128, 1 => any::<u64>()],
        prop_oneof![2 => 0u64..128, 1 => any::<u64>()],
        s_opt(s_u32()),
        s_opt(s_name()),
        s_id(),
    );
    let tail = (s_kv(4), s_kv(4), prop_oneof![6 => Just(0u32), 1 => 65_000u32..66_500, 1 => 130_000u32..132_000], s_opt(s_indices(3)), prop::option::weighted(0.5, s_txn()), any::<bool>());
    (head, mid, tail)
        .prop_map(
            |(
                (schema, fragments, file_format, storage_version, bases, version),
                (branch, writer_version, version_aux_data, ts_secs, ts_nanos, tag, reader_flags, writer_flags, max_fragment_id, transaction_file, next_row_id),
                (config, table_metadata, pad, indices, txn, known_size),
            )| ManifestDesc {
                schema,
                fragments,
                file_format,
                storage_version,
                bases,
                version,
                branch,
                writer_version,
                version_aux_data,
                ts_secs,
                ts_nanos,
                tag,
                reader_flags,
                writer_flags,
                max_fragment_id,
                transaction_file,
                next_row_id,
                config,
                table_metadata,
                pad,
                indices,
                txn,
                known_size,
            },
        )
        .boxed()
}

fn s_start() -> BoxedStrategy<u64> {
    prop_oneof![
        3 => 0u64..200,
        3 => (0u64..4, 0u64..100).prop_map(|(f, o)| ((f + 1) << 32) - 50 + o),
        1 => (0u64..300).prop_map(|d| u64::MAX - 1 - d),
        1 => any::<u64>().prop_map(|v| v >> 1),
    ]
    .boxed()
}

fn s_piece() -> BoxedStrategy<Piece> {
    // gaps: small (u16 offsets), medium (u32 offsets), huge (u64 values)
    let gap = prop_oneof![3 => 0u64..4, 3 => 100u64..3000, 2 => 70_000u64..10_000_000, 1 => (1u64 << 33)..(1u64 << 40)];
    let val = prop_oneof![2 => 0u64..64, 2 => 0u64..60_000, 2 => (1u64 << 32)..(1u64 << 32) + 100_000, 1 => any::<u64>()];
    prop_oneof![
        2 => (s_start(), 0u16..90).prop_map(|(start, len)| Piece::Range { start, len }),
        3 => (s_start(), 2u16..400, prop::collection::vec(any::<u16>(), 1..4)).prop_map(|(start, len, holes)| Piece::Holes { start, len, holes }),
        3 => (s_start(), prop::collection::vec(prop::bool::weighted(0.6), 2..90)).prop_map(|(start, keep)| Piece::Dense { start, keep }),
        3 => (s_start(), prop::collection::vec(gap, 1..30)).prop_map(|(start, gaps)| Piece::Sparse { start, gaps }),
        3 => prop::collection::vec(val, 1..30).prop_map(|vals| Piece::Unsorted { vals }),
    ]
    .boxed()
}

fn s_runs(tier: Tier) -> BoxedStrategy<Vec<RunDesc>> {
    let run = (1u16..300, prop_oneof![2 => 1u64..20, 2 => s_id()], prop_oneof![3 => Just(vec![]), 1 => prop::collection::vec(any::<u16>(), 1..4), 1 => prop::collection::vec(any::<u16>(), 20..60)])
        .prop_map(|(len, version, drop)| RunDesc { len, version, drop });
    let many = tier.pick(160, 400);
    prop_oneof![1 => Just(vec![]), 4 => prop::collection::vec(run.clone(), 1..12), 1 => prop::collection::vec(run.clone(), 12..100), 2 => prop::collection::vec(run, 100..many)].boxed()
}

fn s_dv() -> BoxedStrategy<DvDesc> {
    let n = prop_oneof![1 => Just(0u32), 2 => 1u32..60, 4 => 4980u32..5021, 1 => Just(5000u32), 1 => 5021u32..9000];
    let mode = prop_oneof![Just(DvMode::AutoExact), Just(DvMode::AutoUnknown), Just(DvMode::Grow), Just(DvMode::ForceSet), Just(DvMode::ForceBitmap)];
    let layout = prop_oneof![
        3 => (0u32..1000, 1u32..4),
        2 => (65_000u32..66_000, Just(1u32)),
        2 => (0u32..70_000, Just(65_536u32)),
        1 => (0u32..1000, Just(400_000u32)),
        1 => ((u32::MAX - 30_000)..u32::MAX, 1u32..3),
    ];
    (mode, n, layout, prop::collection::vec(prop_oneof![2 => 0u32..100_000, 1 => any::<u32>(), 1 => Just(u32::MAX)], 0..3), s_id(), s_id())
        .prop_map(|(mode, n, (start, stride), extra, fragment_id, read_version)| DvDesc { mode, n, start, stride, extra, fragment_id, read_version })
        .boxed()
}

fn s_ref() -> BoxedStrategy<RefDesc> {
    let name = prop_oneof![2 => s_name(), 1 => Just("feature/x-1".to_string())];
    prop_oneof![
        (name.clone(), s_opt(s_name()), s_id(), s_id()).prop_map(|(name, branch, version, manifest_size)| RefDesc::Tag { name, branch, version, manifest_size }),
        (name, s_opt(s_name()), s_id(), s_id(), s_id())
            .prop_map(|(name, parent_branch, parent_version, create_at, manifest_size)| RefDesc::Branch { name, parent_branch, parent_version, create_at, manifest_size }),
    ]
    .boxed()
}

// ---------------------------------------------------------------------------

impl Property for C32 {
    type Input = Input;
    fn id(&self) -> &'static str {
        "C32"
    }
    fn rule(&self) -> String {
        "Each case is one persisted value generated as a plain description and built through lance's public constructors/fields: a Manifest (write_manifest_file_to_path -> read_manifest / read_manifest_indexes / inline transaction section on the in-memory VStore; optional index section, inline transaction, detached versions, base paths, config, table metadata, nanosecond timestamps, fragments with deletion files / row id meta / version metas, >64 KiB manifests, legacy dictionaries), a Transaction of any of the 15 Operation variants (pb::Transaction::from -> bytes -> Transaction::try_from), IndexMetadata, Fragment/DataFile/DeletionFile (protobuf and JSON), RowIdSequence (all five segment kinds, U16/U32/U64 arrays), RowDatasetVersionSequence/Meta (up to 400 runs, masked spans), deletion vectors through write/read_deletion_file (sizes 0, small, 4980..5020 around the 5000 threshold, larger; both file formats), MemWalIndexDetails/MemWal (protobuf, Any, JSON), TagContents/BranchContents JSON files. Oracle: decode(encode(x)) == x by the type's PartialEq plus field-wise comparison (fragment and group order, id lists as multisets, schema metadata which Schema::eq ignores, model content for sequences and deletion vectors). Values are well-formed: num_deleted_rows/file sizes/physical_rows >= 1 or unknown, deleted <= physical rows, unique fragment ids (0 = unassigned may repeat in new-fragment lists), tags/transaction files non-empty or absent, Some(empty) maps not generated where the protobuf cannot tell them from None, update_mode always set, >= 1 rewrite group. Non-trivial (structured types) = >= 1 optional set, >= 1 empty and >= 1 non-empty collection, an id >= 2^32; refs: optional set and id >= 2^32; row ids/versions: >= 2 segment kinds / >= 2 runs with distinct versions and an id >= 2^32; deletion vectors: size within 16 of the threshold or offsets >= 2^16, and a fragment id/read version >= 2^32. Distinct by (type, operation, shape counters).".into()
    }
    fn assumptions(&self) -> Vec<String> {
        vec![
            "protobuf 0 means unknown for num_deleted_rows, file_size_bytes and physical_rows (Appendix A #15): only >= 1 or unknown is generated".into(),
            "fragment id 0 in lists of new fragments means unassigned (Appendix A #16)".into(),
            "the stable-row-id reader flag is only set when every fragment has row id metadata (Manifest::try_from rejects otherwise)".into(),
            "row ids < u64::MAX and unique within a sequence (Appendix A #14)".into(),
            "Schema::eq ignores schema metadata by design; the check compares it separately".into(),
        ]
    }
    fn cases(&self, tier: Tier) -> u32 {
        tier.pick(90_000, 2_400_000)
    }
    fn strategy(&self, tier: Tier) -> BoxedStrategy<Input> {
        prop_oneof![
            3 => s_manifest().prop_map(|m| Input::Manifest(Box::new(m))),
            5 => s_txn().prop_map(|t| Input::Transaction(Box::new(t))),
            2 => s_index().prop_map(Input::Index),
            2 => s_frag(false).prop_map(Input::Fragment),
            2 => prop::collection::vec(s_piece(), 1..6).prop_map(Input::RowIds),
            2 => s_runs(tier).prop_map(Input::Versions),
            1 => s_dv().prop_map(Input::DeletionVector),
            1 => s_memwals(4).prop_map(Input::MemWal),
            1 => s_ref().prop_map(Input::Ref),
        ]
        .boxed()
    }
    fn max_shrink_iters(&self) -> u32 {
        2000
    }

    fn check(&self, input: &Input, obs: &mut Obs, env: &Env) -> CheckResult {
        let mut sh = Shape::default();
        match input {
            Input::Manifest(d) => {
                obs.label("type:Manifest");
                roundtrip_manifest(d, &mut sh, obs, env)?;
                if sh.nontrivial() {
                    obs.nontrivial(format!(
                        "manifest|idx{:?}|txn{}|frags{}|{}",
                        d.indices.as_ref().map(|v| v.len().min(2)),
                        d.txn.as_ref().map(|t| op_name(&t.op)).unwrap_or("-"),
                        d.fragments.len().min(3),
                        sh.key()
                    ));
                }
            }
            Input::Transaction(d) => {
                obs.label("type:Transaction");
                obs.label(format!("txn:{}", op_name(&d.op)));
                let t = match build_txn(d, &mut sh) {
                    Ok(t) => t,
                    Err(e) => {
                        obs.rejected += 1;
                        obs.label("rejected-schema");
                        let _ = e;
                        return Ok(());
                    }
                };
                roundtrip_txn(&t, obs, env)?;
                obs.inner += 1;
                if sh.nontrivial() {
                    obs.nontrivial(format!("txn|{}|{}", op_name(&d.op), sh.key()));
                }
            }
            Input::Index(d) => {
                obs.label("type:IndexMetadata");
                if d.created_ms.is_some() && d.created_sub_ms_nanos % 1_000_000 != 0 {
                    obs.label("index:created-at-with-sub-ms");
                }
                if matches!(&d.frags, Some(f) if f.is_empty()) {
                    obs.label("index:empty-fragment-bitmap");
                }
                let i = build_index(d, &mut sh);
                roundtrip_index(&i, obs, env)?;
                obs.inner += 1;
                if sh.nontrivial() {
                    obs.nontrivial(format!("index|{}", sh.key()));
                }
            }
            Input::Fragment(d) => {
                obs.label("type:Fragment");
                if d.deletion.is_some() {
                    obs.label("fragment:deletion-file");
                }
                let f = build_fragment(d, &mut sh);
                roundtrip_fragment(&f, obs)?;
                if sh.nontrivial() {
                    obs.nontrivial(format!("fragment|files{}|{}", d.files.len().min(3), sh.key()));
                }
            }
            Input::RowIds(p) => {
                obs.label("type:RowIdSequence");
                roundtrip_row_ids(p, obs)?;
            }
            Input::Versions(r) => {
                obs.label("type:RowDatasetVersionSequence");
                roundtrip_versions(r, obs)?;
            }
            Input::DeletionVector(d) => {
                obs.label("type:DeletionVector");
                roundtrip_dv(d, obs, env)?;
            }
            Input::MemWal(ds) => {
                obs.label("type:MemWalIndexDetails");
                roundtrip_memwal(ds, &mut sh, obs)?;
                if sh.empty >= 1 && sh.nonempty >= 1 && sh.big >= 1 {
                    obs.nontrivial(format!("memwal|n{}|{}", ds.len().min(4), sh.key()));
                }
            }
            Input::Ref(d) => {
                obs.label(match d {
                    RefDesc::Tag { .. } => "type:TagContents",
                    RefDesc::Branch { .. } => "type:BranchContents",
                });
                roundtrip_ref(d, &mut sh, obs, env)?;
                if sh.opt_set >= 1 && sh.big >= 1 {
                    obs.nontrivial(format!("ref|{}|{}", matches!(d, RefDesc::Tag { .. }), sh.key()));
                }
            }
        }
        obs.label(if obs.nontrivial.is_some() { "nontrivial:yes" } else { "nontrivial:no" });
        Ok(())
    }
}
