//! C33 — Manifest naming and latest-version discovery are exact.
//!
//! Two domains in one input type:
//!  * `Names`: version numbers (u64 boundary values and random) through
//!    `ManifestNamingScheme::{manifest_path, parse_version, detect_scheme}`;
//!    the oracle is the documented name format computed here
//!    (`{v}.manifest`, `{u64::MAX - v:020}.manifest`, `d{v}.manifest`).
//!  * `Dir`: a `_versions` directory built file by file (manifests of one
//!    scheme, staging files, temp files, detached manifests, junk) in a generated
//!    creation order, on the controlled in-memory store under a generated listing
//!    order and on the local file system; the oracle is the maximum / descending
//!    sort of the generated attached versions.
//!  * `Table`: a real table (V1 or V2 names) with generated commits, detached
//!    commits and junk files; the oracle is the number of commits made.

use crate::engine::*;
use crate::store::{ListOrder, VStore};
use crate::{ensure, fail};
use arrow_array::{Int64Array, RecordBatch, RecordBatchIterator};
use arrow_schema::{DataType, Field, Schema};
use bytes::Bytes;
use futures::{FutureExt, TryStreamExt};
use lance::dataset::builder::DatasetBuilder;
use lance::dataset::transaction::{Operation, Transaction, UpdateMap, UpdateMapEntry};
use lance::dataset::{CommitBuilder, WriteMode, WriteParams};
use lance::Dataset;
use lance_io::object_store::ObjectStore as LanceObjectStore;
use lance_table::format::{is_detached_version, DETACHED_VERSION_MASK};
use lance_table::io::commit::{migrate_scheme_to_v2, CommitHandler, ConditionalPutCommitHandler, ManifestLocation, ManifestNamingScheme, RenameCommitHandler};
use object_store::path::Path;
use proptest::prelude::*;
use serde::{Deserialize, Serialize};
use std::collections::{BTreeMap, BTreeSet, HashMap};
use std::sync::Arc;
use url::Url;

pub struct C33;

#[derive(Clone, Debug, Serialize, Deserialize, PartialEq)]
pub enum Target {
    /// an existing attached version (fraction into the sorted version list)
    Existing(u16),
    /// max + 1: a commit in flight
    Next,
    /// some other attached version number
    Fresh(u64),
}

#[derive(Clone, Debug, Serialize, Deserialize, PartialEq)]
pub struct DirCase {
    pub v2: bool,
    /// attached versions (values >= 2^63 are folded into the attached range)
    pub versions: Vec<u64>,
    /// detached versions (the mask is OR-ed in); only used with V2 names (detached commits require V2)
    pub detached: Vec<u64>,
    /// `<manifest name>-<uuid>`
    pub staging: Vec<(Target, u64)>,
    /// `.tmp_<manifest name>_<uuid>`
    pub tmp: Vec<(Target, u64)>,
    /// indices into JUNK
    pub junk: Vec<u8>,
    /// creation order keys (file i is created at key order[i % len])
    pub order: Vec<u16>,
    pub list_order: ListOrder,
    /// 0 conditional put, 1 rename, 2 unsafe commit handler (all use the default discovery)
    pub handler: u8,
}

#[derive(Clone, Debug, Serialize, Deserialize, PartialEq)]
pub struct TableCase {
    pub v2: bool,
    pub commits: u8,
    /// after which commits (fractions) a detached commit is made (V2 only)
    pub detached_after: Vec<u16>,
    pub staging: Vec<(Target, u64)>,
    pub tmp: Vec<(Target, u64)>,
    pub list_order: ListOrder,
    pub handler: u8,
}

#[derive(Clone, Debug, Serialize, Deserialize, PartialEq)]
pub enum Input {
    Names { versions: Vec<u64>, uuid: u64 },
    Dir(DirCase),
    Table(TableCase),
}

/// junk that a `_versions` directory may realistically contain; none of these ends in
/// `manifest` or starts with `d` (see `narrowed` in the rule)
const JUNK: &[&str] = &["README.txt", "notes.md", ".DS_Store", "5.manifest.bak", "manifest.json", "_latest", "7.manifest.swp", "00000000000000000003.manifest.bak", "x"];

const MAX_ATTACHED: u64 = DETACHED_VERSION_MASK - 1;

// ---------------------------------------------------------------------------
// the documented naming model

fn model_name(v2: bool, v: u64) -> String {
    if v & 0x8000_0000_0000_0000 != 0 {
        format!("d{v}.manifest")
    } else if v2 {
        let inv = u64::MAX - v;
        let s = inv.to_string();
        format!("{}{}.manifest", "0".repeat(20 - s.len()), s)
    } else {
        format!("{v}.manifest")
    }
}

fn scheme_of(v2: bool) -> ManifestNamingScheme {
    if v2 {
        ManifestNamingScheme::V2
    } else {
        ManifestNamingScheme::V1
    }
}

fn uuid_of(seed: u64) -> String {
    // deterministic, uuid shaped
    let a = seed.wrapping_mul(0x9E37_79B9_7F4A_7C15);
    let b = (seed ^ 0xDEAD_BEEF_CAFE_F00D).wrapping_mul(0xBF58_476D_1CE4_E5B9);
    format!("{:08x}-{:04x}-4{:03x}-a{:03x}-{:012x}", (a >> 32) as u32, (a >> 16) as u16, a as u16 & 0xfff, (b >> 48) as u16 & 0xfff, b & 0xffff_ffff_ffff)
}

fn handler_of(h: u8) -> Arc<dyn CommitHandler> {
    match h % 3 {
        0 => Arc::new(ConditionalPutCommitHandler),
        1 => Arc::new(RenameCommitHandler),
        _ => Arc::new(lance_table::io::commit::UnsafeCommitHandler),
    }
}

// ---------------------------------------------------------------------------
// names

fn check_names(versions: &[u64], uuid: u64, obs: &mut Obs) -> CheckResult {
    let base = Path::from("some/table");
    let u = uuid_of(uuid);
    for &v in versions {
        for v2 in [false, true] {
            let scheme = scheme_of(v2);
            let path = scheme.manifest_path(&base, v);
            let want = format!("some/table/_versions/{}", model_name(v2, v));
            ensure!(path.to_string() == want, "name-format", "{scheme:?}.manifest_path({v}) = {path}, documented format gives {want}");
            let name = path.filename().unwrap_or("").to_string();
            obs.inner += 1;
            if !is_detached(v) {
                let got = scheme.parse_version(&name);
                ensure!(got == Some(v), "name-roundtrip", "{scheme:?}.parse_version({name}) = {got:?}, expected Some({v})");
                let det = ManifestNamingScheme::detect_scheme(&name);
                ensure!(det == Some(scheme), "detect-scheme", "detect_scheme({name}) = {det:?}, the name was produced by {scheme:?}");
                ensure!(!is_detached_version(v), "is-detached", "is_detached_version({v}) is true for a version below 2^63");
                // a staging file is not a manifest and keeps the scheme of its target name
                let st = format!("{name}-{u}");
                let dst = ManifestNamingScheme::detect_scheme(&st);
                ensure!(dst.is_none(), "staging-detected-as-manifest", "detect_scheme({st}) = {dst:?}, a staging file is not a manifest");
                let ss = ManifestNamingScheme::detect_scheme_staging(&st);
                ensure!(ss == scheme, "detect-scheme-staging", "detect_scheme_staging({st}) = {ss:?}, expected {scheme:?}");
                let tmp = format!(".tmp_{name}_{u}");
                let dt = ManifestNamingScheme::detect_scheme(&tmp);
                ensure!(dt.is_none(), "tmp-detected-as-manifest", "detect_scheme({tmp}) = {dt:?}, a temp file is not a manifest");
                obs.label(if v2 { "attached-v2" } else { "attached-v1" });
            } else {
                ensure!(is_detached_version(v), "is-detached", "is_detached_version({v}) is false for a version with the top bit set");
                // never mistaken for an attached version, under either scheme
                for ps in [ManifestNamingScheme::V1, ManifestNamingScheme::V2] {
                    match ps.parse_version(&name) {
                        None => {}
                        Some(x) if x == v => {}
                        Some(x) => fail!("detached-parsed-as-attached", "{ps:?}.parse_version({name}) = Some({x}) for the detached version {v}"),
                    }
                }
                obs.label("detached");
            }
        }
    }
    // ordering of V2 names
    let attached: BTreeSet<u64> = versions.iter().copied().filter(|v| !is_detached(*v)).collect();
    let attached: Vec<u64> = attached.into_iter().collect();
    let v2 = ManifestNamingScheme::V2;
    for w in attached.windows(2) {
        let (a, b) = (w[0], w[1]);
        let pa = v2.manifest_path(&base, a);
        let pb = v2.manifest_path(&base, b);
        obs.inner += 1;
        ensure!(pa.to_string() > pb.to_string() && pa > pb, "v2-order", "V2 names must sort in decreasing version order: {a} < {b} but {pa} <= {pb}");
    }
    for &d in versions.iter().filter(|v| is_detached(**v)) {
        let pd = v2.manifest_path(&base, d);
        for &a in &attached {
            for s in [ManifestNamingScheme::V1, ManifestNamingScheme::V2] {
                let pa = s.manifest_path(&base, a);
                ensure!(pd.to_string() > pa.to_string(), "detached-sorts-first", "detached manifest {pd} does not sort after the attached manifest {pa}");
            }
        }
    }
    let widths: BTreeSet<usize> = attached.iter().map(|v| v.to_string().len()).collect();
    let ndet = versions.iter().filter(|v| is_detached(**v)).count();
    if attached.len() >= 2 && widths.len() >= 2 {
        obs.nontrivial(format!("names|widths={widths:?}|det={ndet}"));
    }
    Ok(())
}

fn is_detached(v: u64) -> bool {
    v >> 63 == 1
}

// ---------------------------------------------------------------------------
// directories

/// the files of a generated directory: (file name, content, kind)
#[derive(Clone, Debug)]
struct DirPlan {
    attached: Vec<u64>, // ascending, unique
    files: Vec<(String, Vec<u8>, &'static str)>,
}

fn target_version(t: &Target, attached: &[u64]) -> u64 {
    match t {
        Target::Existing(f) if !attached.is_empty() => attached[idx(*f, attached.len())],
        Target::Existing(_) => 1,
        Target::Next => attached.last().map(|m| (m + 1).min(MAX_ATTACHED)).unwrap_or(1),
        Target::Fresh(v) => v & MAX_ATTACHED,
    }
}

fn extra_files(v2: bool, attached: &[u64], staging: &[(Target, u64)], tmp: &[(Target, u64)], files: &mut Vec<(String, Vec<u8>, &'static str)>) {
    let mut names: BTreeSet<String> = files.iter().map(|f| f.0.clone()).collect();
    for (t, u) in staging {
        let n = format!("{}-{}", model_name(v2, target_version(t, attached)), uuid_of(*u));
        if names.insert(n.clone()) {
            files.push((n, b"staging".to_vec(), "staging"));
        }
    }
    for (t, u) in tmp {
        let n = format!(".tmp_{}_{}", model_name(v2, target_version(t, attached)), uuid_of(*u));
        if names.insert(n.clone()) {
            files.push((n, b"tmp".to_vec(), "tmp"));
        }
    }
}

fn plan_dir(c: &DirCase) -> DirPlan {
    let attached: BTreeSet<u64> = c.versions.iter().map(|v| v & MAX_ATTACHED).collect();
    let attached: Vec<u64> = attached.into_iter().collect();
    let mut files: Vec<(String, Vec<u8>, &'static str)> = vec![];
    for v in &attached {
        files.push((model_name(c.v2, *v), format!("manifest of version {v}").into_bytes(), "manifest"));
    }
    if c.v2 {
        let det: BTreeSet<u64> = c.detached.iter().map(|d| d | DETACHED_VERSION_MASK).collect();
        for d in det {
            files.push((model_name(true, d), format!("detached {d}").into_bytes(), "detached"));
        }
    }
    extra_files(c.v2, &attached, &c.staging, &c.tmp, &mut files);
    let mut seen = BTreeSet::new();
    for j in &c.junk {
        let n = JUNK[*j as usize % JUNK.len()];
        if seen.insert(n) {
            files.push((n.to_string(), b"junk".to_vec(), "junk"));
        }
    }
    // creation order
    let keys: Vec<(u16, usize)> = (0..files.len()).map(|i| (if c.order.is_empty() { 0 } else { c.order[i % c.order.len()] }, i)).collect();
    let mut keys = keys;
    keys.sort();
    let files = keys.into_iter().map(|(_, i)| files[i].clone()).collect();
    DirPlan { attached, files }
}

fn vstore_lance(store: &VStore, lexical: bool) -> LanceObjectStore {
    LanceObjectStore::new(Arc::new(store.clone()), Url::parse("vs:///").unwrap(), None, None, false, lexical, 8, 0, None)
}

struct Backend {
    name: &'static str,
    /// the store declares a lexically ordered listing
    lexical: bool,
    /// the directory holds at least one detached manifest
    has_detached: bool,
    os: Arc<LanceObjectStore>,
    base: Path,
    /// all file names below base/_versions, sorted, with their contents
    dump: Box<dyn Fn() -> BTreeMap<String, Vec<u8>>>,
}

async fn list_sorted(h: &dyn CommitHandler, b: &Backend, sorted: bool) -> Result<Vec<ManifestLocation>, String> {
    h.list_manifest_locations(&b.base, &b.os, sorted).try_collect::<Vec<_>>().await.map_err(|e| format!("{e}"))
}

/// discovery checks against the expected attached versions (ascending) under naming scheme `v2`
/// Known finding C33-v2-unordered-store: on a non-local store that does not declare a lexically
/// ordered listing, a V2-named directory with two or more manifests cannot be resolved at all.
const V2_UNORDERED: &str = "C33-v2-unordered-store";
const V2_UNORDERED_MSG: &str = "Found V2 manifest in a V1 manifest directory";
/// Known finding C33-detached-unwrap: on a non-local store the latest-version discovery unwraps
/// `parse_version` of every name `detect_scheme` accepts, which includes detached manifests.
const DETACHED_UNWRAP: &str = "C33-detached-unwrap";

fn panic_text(p: Box<dyn std::any::Any + Send>) -> String {
    if let Some(s) = p.downcast_ref::<&str>() {
        s.to_string()
    } else if let Some(s) = p.downcast_ref::<String>() {
        s.clone()
    } else {
        "<non-string panic>".into()
    }
}

async fn check_discovery(h: &dyn CommitHandler, b: &Backend, attached: &[u64], v2: bool, what: &str, obs: &mut Obs, env: &Env) -> CheckResult {
    let scheme = scheme_of(v2);
    let ctx = format!("{what} [{}]", b.name);
    obs.inner += 1;
    let latest = match std::panic::AssertUnwindSafe(h.resolve_latest_location(&b.base, &b.os)).catch_unwind().await {
        Ok(r) => r,
        Err(p) => {
            let msg = panic_text(p);
            if v2 && b.has_detached && (b.name == "vstore" || attached.is_empty()) && msg.contains("Option::unwrap()") && env.known(DETACHED_UNWRAP) {
                obs.known_hit(DETACHED_UNWRAP, format!("{ctx}: resolve_latest_location panicked: {msg}"));
                // nothing more can be learned about the latest version of this directory
                Err(lance_core::Error::invalid_input("harness: known panic", snafu::location!()))
            } else {
                fail!("panic", "{ctx}: resolve_latest_location panicked: {msg}");
            }
        }
    };
    match (attached.last(), latest) {
        (_, Err(e)) if format!("{e}").contains("harness: known panic") => {}
        (Some(max), Ok(loc)) => {
            ensure!(!is_detached(loc.version), "latest-is-detached", "{ctx}: resolve_latest_location returned the detached version {}", loc.version);
            ensure!(loc.version == *max, "latest-version", "{ctx}: resolve_latest_location = {} but the highest attached version is {max} (versions {attached:?})", loc.version);
            let want = scheme.manifest_path(&b.base, *max);
            ensure!(loc.path == want, "latest-path", "{ctx}: latest location path {} but expected {want}", loc.path);
            ensure!(loc.naming_scheme == scheme, "latest-scheme", "{ctx}: latest location scheme {:?}, directory is {scheme:?}", loc.naming_scheme);
            if let Some(sz) = loc.size {
                let real = (b.dump)().get(&model_name(v2, *max)).map(|c| c.len() as u64);
                ensure!(Some(sz) == real, "latest-size", "{ctx}: latest location size {sz} but the file has {real:?} bytes");
            }
        }
        (Some(_), Err(e)) if v2 && !b.lexical && b.name == "vstore" && format!("{e}").contains(V2_UNORDERED_MSG) && env.known(V2_UNORDERED) => {
            obs.known_hit(V2_UNORDERED, format!("{ctx}: {e}"));
        }
        (Some(max), Err(e)) => fail!("latest-error", "{ctx}: resolve_latest_location failed ({e}) but version {max} is published (versions {attached:?})"),
        (None, Ok(loc)) => fail!("latest-without-manifest", "{ctx}: no attached manifest exists but resolve_latest_location returned version {} at {}", loc.version, loc.path),
        (None, Err(_)) => obs.label("no-attached-manifest:error"),
    }
    // sorted listing
    let want_desc: Vec<u64> = attached.iter().rev().copied().collect();
    let locs = list_sorted(h, b, true).await.map_err(|e| Failure::new("list-error", format!("{ctx}: list_manifest_locations(sorted) failed: {e}")))?;
    let got: Vec<u64> = locs.iter().map(|l| l.version).collect();
    ensure!(got == want_desc, "list-sorted", "{ctx}: sorted manifest listing {got:?}, expected {want_desc:?}");
    for l in &locs {
        let want = scheme.manifest_path(&b.base, l.version);
        ensure!(l.path == want && l.naming_scheme == scheme, "list-location", "{ctx}: listed version {} at {} ({:?}), expected {want} ({scheme:?})", l.version, l.path, l.naming_scheme);
    }
    let locs = list_sorted(h, b, false).await.map_err(|e| Failure::new("list-error", format!("{ctx}: list_manifest_locations(unsorted) failed: {e}")))?;
    let mut got: Vec<u64> = locs.iter().map(|l| l.version).collect();
    got.sort_unstable_by(|a, b| b.cmp(a));
    ensure!(got == want_desc, "list-unsorted-set", "{ctx}: unsorted manifest listing has versions {got:?}, expected the set {want_desc:?}");
    // every version resolves to its own path
    for v in attached.iter().rev().take(3) {
        let loc = h.resolve_version_location(&b.base, *v, b.os.inner.as_ref()).await.map_err(|e| Failure::new("resolve-version-error", format!("{ctx}: version {v}: {e}")))?;
        let want = scheme.manifest_path(&b.base, *v);
        ensure!(loc.path == want && loc.version == *v, "resolve-version", "{ctx}: resolve_version_location({v}) = {} (v{}), expected {want}", loc.path, loc.version);
    }
    Ok(())
}

async fn check_migration(h: &dyn CommitHandler, b: &Backend, plan: &DirPlan, obs: &mut Obs, env: &Env) -> CheckResult {
    let before = (b.dump)();
    migrate_scheme_to_v2(&b.os, &b.base).await.map_err(|e| Failure::new("migrate-error", format!("[{}] migrate_scheme_to_v2 failed: {e}", b.name)))?;
    let after = (b.dump)();
    // expected directory: every manifest renamed, everything else untouched
    let mut want: BTreeMap<String, Vec<u8>> = BTreeMap::new();
    for (name, content, kind) in &plan.files {
        if *kind == "manifest" {
            let v = plan.attached.iter().find(|v| model_name(false, **v) == *name).unwrap();
            want.insert(model_name(true, *v), content.clone());
        } else {
            want.insert(name.clone(), content.clone());
        }
    }
    // the local listing hides nothing: compare whole maps
    if after != want {
        let extra: Vec<&String> = after.keys().filter(|k| !want.contains_key(*k)).collect();
        let missing: Vec<&String> = want.keys().filter(|k| !after.contains_key(*k)).collect();
        let changed: Vec<&String> = want.keys().filter(|k| after.get(*k).map(|c| c != &want[*k]).unwrap_or(false)).collect();
        fail!("migrate-directory", "[{}] after migrate_scheme_to_v2: unexpected files {extra:?}, missing {missing:?}, wrong content {changed:?} (before: {:?})", b.name, before.keys().collect::<Vec<_>>());
    }
    check_discovery(h, b, &plan.attached, true, "after migration", obs, env).await?;
    // idempotent
    migrate_scheme_to_v2(&b.os, &b.base).await.map_err(|e| Failure::new("migrate-error", format!("[{}] second migrate_scheme_to_v2 failed: {e}", b.name)))?;
    let again = (b.dump)();
    ensure!(again == after, "migrate-idempotent", "[{}] a second migrate_scheme_to_v2 changed the directory: {:?} -> {:?}", b.name, after.keys().collect::<Vec<_>>(), again.keys().collect::<Vec<_>>());
    obs.label("migrated");
    Ok(())
}

fn vstore_backend(store: &VStore, lexical: bool, table: &str, has_detached: bool) -> Backend {
    let os = Arc::new(vstore_lance(store, lexical));
    let base = Path::from(table);
    let prefix = format!("{table}/_versions/");
    let s = store.clone();
    Backend {
        name: "vstore",
        lexical,
        has_detached,
        os,
        base,
        dump: Box::new(move || s.dump().into_iter().filter_map(|(k, v)| k.strip_prefix(&prefix).map(|n| (n.to_string(), v.to_vec()))).collect()),
    }
}

async fn local_backend(dir: &std::path::Path, has_detached: bool) -> Result<Backend, Failure> {
    let (os, base) = LanceObjectStore::from_uri(dir.to_str().unwrap()).await.map_err(|e| Failure::new("harness-local-store", format!("{e}")))?;
    let vdir = dir.join("_versions");
    Ok(Backend {
        name: "local",
        lexical: false,
        has_detached,
        os,
        base,
        dump: Box::new(move || {
            let mut m = BTreeMap::new();
            if let Ok(rd) = std::fs::read_dir(&vdir) {
                for e in rd.flatten() {
                    let n = e.file_name().to_string_lossy().to_string();
                    m.insert(n, std::fs::read(e.path()).unwrap_or_default());
                }
            }
            m
        }),
    })
}

fn order_name(o: &ListOrder) -> &'static str {
    match o {
        ListOrder::Lexical => "lexical",
        ListOrder::Reverse => "reverse",
        ListOrder::Shuffled(_) => "shuffled",
    }
}

async fn check_dir(c: &DirCase, obs: &mut Obs, env: &Env) -> CheckResult {
    let plan = plan_dir(c);
    let h = handler_of(c.handler);
    let count = |k: &str| plan.files.iter().filter(|f| f.2 == k).count();
    let (nst, ntmp, ndet, njunk) = (count("staging"), count("tmp"), count("detached"), count("junk"));
    obs.label(if c.v2 { "dir-v2" } else { "dir-v1" });
    obs.label(format!("list-{}", order_name(&c.list_order)));
    if ndet > 0 {
        obs.label("dir-with-detached");
    }
    if nst > 0 {
        obs.label("dir-with-staging");
    }
    if ntmp > 0 {
        obs.label("dir-with-tmp");
    }
    if c.staging.iter().chain(c.tmp.iter()).any(|(t, _)| matches!(t, Target::Next)) {
        obs.label("dir-with-in-flight-next-version");
    }
    let widths: BTreeSet<usize> = plan.attached.iter().map(|v| v.to_string().len()).collect();
    if widths.len() >= 2 {
        obs.label("dir-mixed-digit-widths");
    }

    // ---- controlled store -------------------------------------------------
    {
        let store = VStore::new();
        store.set_list_order(c.list_order);
        // a store may only claim a lexically ordered listing when it has one
        let lexical = matches!(c.list_order, ListOrder::Lexical);
        let b = vstore_backend(&store, lexical, "tbl", ndet > 0);
        for (name, content, _) in &plan.files {
            store.write_raw(&b.base.child("_versions").child(name.as_str()), Bytes::from(content.clone()));
        }
        // other things in the table root must not matter
        store.write_raw(&b.base.child("data").child("0.lance"), Bytes::from_static(b"x"));
        store.write_raw(&b.base.child("_versions_old").child("9999.manifest"), Bytes::from_static(b"x"));
        check_discovery(h.as_ref(), &b, &plan.attached, c.v2, "generated directory", obs, env).await?;
        if !c.v2 {
            check_migration(h.as_ref(), &b, &plan, obs, env).await?;
        }
    }
    // ---- local file system -----------------------------------------------
    {
        let dir = env.fresh_dir();
        let vdir = dir.join("_versions");
        std::fs::create_dir_all(&vdir).unwrap();
        for (name, content, _) in &plan.files {
            std::fs::write(vdir.join(name), content).unwrap();
        }
        // a partially uploaded file of the local object store (`<name>#<n>`)
        if let Some(max) = plan.attached.last() {
            if nst + ntmp > 0 {
                std::fs::write(vdir.join(format!("{}#1", model_name(c.v2, (*max + 1).min(MAX_ATTACHED)))), b"partial").unwrap();
            }
        }
        let b = local_backend(&dir, ndet > 0).await?;
        let r = check_discovery(h.as_ref(), &b, &plan.attached, c.v2, "generated directory", obs, env).await;
        let r = match r {
            Ok(()) if !c.v2 => {
                // the `#1` file is invisible to object_store listings but is a plain file for the dump
                let mut plan2 = plan.clone();
                if let Some(max) = plan.attached.last() {
                    if nst + ntmp > 0 {
                        plan2.files.push((format!("{}#1", model_name(c.v2, (*max + 1).min(MAX_ATTACHED))), b"partial".to_vec(), "junk"));
                    }
                }
                check_migration(h.as_ref(), &b, &plan2, obs, env).await
            }
            r => r,
        };
        let _ = std::fs::remove_dir_all(&dir);
        r?;
    }
    if plan.attached.len() >= 3 && nst + ntmp >= 1 && !matches!(c.list_order, ListOrder::Lexical) {
        let n = plan.attached.len();
        let maxpos = plan.files.iter().position(|f| Some(&f.0) == plan.attached.last().map(|m| model_name(c.v2, *m)).as_ref()).unwrap_or(0);
        obs.nontrivial(format!(
            "dir|{}|n={}|widths={:?}|st={}|tmp={}|det={}|junk={}|{}|maxpos={}",
            if c.v2 { "v2" } else { "v1" },
            n.min(12),
            widths,
            nst.min(3),
            ntmp.min(3),
            ndet.min(3),
            njunk.min(2),
            order_name(&c.list_order),
            (maxpos * 4) / plan.files.len().max(1)
        ));
    }
    Ok(())
}

// ---------------------------------------------------------------------------
// real tables

fn tiny_batch(start: i64, n: usize) -> (Arc<Schema>, RecordBatch) {
    let schema = Arc::new(Schema::new(vec![Field::new("uid", DataType::Int64, false)]));
    let arr = Int64Array::from_iter_values(start..start + n as i64);
    let b = RecordBatch::try_new(schema.clone(), vec![Arc::new(arr)]).unwrap();
    (schema, b)
}

fn lance_handler(h: u8) -> Arc<dyn CommitHandler> {
    // the unsafe handler is not a legal choice for a real table
    handler_of(h % 2)
}

async fn open_table(store: &VStore, lexical: bool, uri: &str, h: u8, version: Option<u64>) -> Result<Dataset, lance::Error> {
    let session = Arc::new(lance::session::Session::new(16 << 20, 16 << 20, crate::store::registry_for(store, lexical)));
    let mut b = DatasetBuilder::from_uri(uri).with_session(session).with_commit_handler(lance_handler(h));
    if let Some(v) = version {
        b = b.with_version(v);
    }
    b.load().await
}

async fn check_table(c: &TableCase, obs: &mut Obs, env: &Env) -> CheckResult {
    let r = match std::panic::AssertUnwindSafe(check_table_inner(c, obs)).catch_unwind().await {
        Ok(r) => r,
        Err(p) => {
            let msg = panic_text(p);
            if c.v2 && !c.detached_after.is_empty() && msg.contains("Option::unwrap()") && env.known(DETACHED_UNWRAP) {
                obs.known_hit(DETACHED_UNWRAP, format!("table with detached commits: {msg}"));
                return Ok(());
            }
            fail!("panic", "table: {msg}");
        }
    };
    match r {
        Err(f) if !matches!(c.list_order, ListOrder::Lexical) && f.msg.contains(V2_UNORDERED_MSG) && env.known(V2_UNORDERED) => {
            obs.known_hit(V2_UNORDERED, format!("table: {}: {}", f.kind, f.msg));
            Ok(())
        }
        r => r,
    }
}

async fn check_table_inner(c: &TableCase, obs: &mut Obs) -> CheckResult {
    let store = VStore::new();
    let lexical = matches!(c.list_order, ListOrder::Lexical);
    store.set_list_order(c.list_order);
    let session = Arc::new(lance::session::Session::new(16 << 20, 16 << 20, crate::store::registry_for(&store, lexical)));
    let handler = lance_handler(c.handler);
    let uri = crate::store::uri("tbl");
    let commits = (c.commits as usize).clamp(1, 24);
    let det_after: BTreeSet<usize> = if c.v2 { c.detached_after.iter().map(|f| idx(*f, commits) + 1).collect() } else { BTreeSet::new() };
    obs.label(if c.v2 { "table-v2" } else { "table-v1" });
    obs.label(format!("list-{}", order_name(&c.list_order)));
    let herr = |what: &str, e: lance::Error| Failure::new("table-write-error", format!("{what}: {e}"));
    let mut ds: Option<Dataset> = None;
    let mut ndet = 0;
    let mut rows_at: BTreeMap<u64, usize> = BTreeMap::new();
    for k in 1..=commits {
        let (schema, batch) = tiny_batch(k as i64 * 10, 2);
        let reader = RecordBatchIterator::new(vec![Ok(batch)], schema);
        let params = WriteParams {
            mode: if k == 1 { WriteMode::Create } else { WriteMode::Append },
            commit_handler: Some(handler.clone()),
            enable_v2_manifest_paths: c.v2,
            session: Some(session.clone()),
            auto_cleanup: None,
            ..Default::default()
        };
        let d = match ds.as_mut() {
            None => Dataset::write(reader, &uri, Some(params)).await.map_err(|e| herr("create", e))?,
            Some(d) => {
                d.append(reader, Some(params)).await.map_err(|e| herr("append", e))?;
                d.clone()
            }
        };
        ensure!(d.version().version == k as u64, "table-version-after-commit", "commit number {k} produced version {}", d.version().version);
        rows_at.insert(k as u64, 2 * k);
        if det_after.contains(&k) {
            // a detached commit must not become visible as a version
            let op = Operation::UpdateConfig {
                config_updates: Some(UpdateMap { update_entries: vec![UpdateMapEntry { key: "verif.detached".into(), value: Some(format!("{k}")) }], replace: false }),
                table_metadata_updates: None,
                schema_metadata_updates: None,
                field_metadata_updates: HashMap::new(),
            };
            let tx = Transaction::new(k as u64, op, None);
            let r = CommitBuilder::new(Arc::new(d.clone())).with_detached(true).execute(tx).await;
            match r {
                Ok(dd) => {
                    ensure!(is_detached(dd.version().version), "detached-commit-version", "a detached commit produced the attached version {}", dd.version().version);
                    ndet += 1;
                }
                Err(e) => {
                    obs.rejected += 1;
                    obs.label(format!("detached-commit-rejected:{}", truncate_str(&format!("{e}"), 50)));
                }
            }
        }
        ds = Some(d);
    }
    if ndet > 0 {
        obs.label("table-with-detached");
    }
    // junk next to the real manifests
    let attached: Vec<u64> = (1..=commits as u64).collect();
    let v2_on_disk = {
        // what the table really uses (the writer decides)
        let names: Vec<String> = store.paths().into_iter().filter_map(|p| p.strip_prefix("tbl/_versions/").map(|s| s.to_string())).collect();
        let real: Vec<&String> = names.iter().filter(|n| n.ends_with(".manifest") && !n.starts_with('d')).collect();
        ensure!(real.len() == commits, "table-manifest-count", "{commits} commits but manifests {names:?}");
        let is_v2 = real.iter().all(|n| n.len() == 29);
        ensure!(is_v2 == c.v2, "table-naming-scheme", "enable_v2_manifest_paths={} but manifests are named {real:?}", c.v2);
        let want: BTreeSet<String> = attached.iter().map(|v| model_name(c.v2, *v)).collect();
        let got: BTreeSet<String> = real.iter().map(|s| s.to_string()).collect();
        ensure!(got == want, "table-manifest-names", "manifest names {got:?}, documented format gives {want:?}");
        is_v2
    };
    let mut files = vec![];
    extra_files(v2_on_disk, &attached, &c.staging, &c.tmp, &mut files);
    let base = Path::from("tbl");
    for (n, content, _) in &files {
        store.write_raw(&base.child("_versions").child(n.as_str()), Bytes::from(content.clone()));
    }
    if !files.is_empty() {
        obs.label("table-with-junk");
    }
    let verify = |d: &Dataset, what: &str| -> CheckResult {
        ensure!(d.version().version == commits as u64, "table-latest", "{what}: opened version {} but {commits} commits were published", d.version().version);
        Ok(())
    };
    async fn versions_of(d: &Dataset) -> Result<Vec<u64>, Failure> {
        let mut v: Vec<u64> = d.versions().await.map_err(|e| Failure::new("table-versions-error", format!("{e}")))?.into_iter().map(|v| v.version).collect();
        v.sort_unstable();
        Ok(v)
    }
    let d = open_table(&store, lexical, &uri, c.handler, None).await.map_err(|e| Failure::new("table-open-error", format!("open latest: {e}")))?;
    verify(&d, "open")?;
    let n = d.count_rows(None).await.map_err(|e| Failure::new("table-open-error", format!("count: {e}")))?;
    ensure!(n == 2 * commits, "table-latest-rows", "latest version has {n} rows, expected {}", 2 * commits);
    let vs = versions_of(&d).await?;
    ensure!(vs == attached, "table-versions", "versions() = {vs:?}, expected {attached:?}");
    let lid = d.latest_version_id().await.map_err(|e| Failure::new("table-open-error", format!("latest_version_id: {e}")))?;
    ensure!(lid == commits as u64, "table-latest", "latest_version_id() = {lid}, expected {commits}");
    // an old handle finds the latest
    let mut old = open_table(&store, lexical, &uri, c.handler, Some(1)).await.map_err(|e| Failure::new("table-open-error", format!("open v1: {e}")))?;
    old.checkout_latest().await.map_err(|e| Failure::new("table-open-error", format!("checkout_latest: {e}")))?;
    verify(&old, "checkout_latest")?;
    obs.inner += 3;
    if !c.v2 {
        let mut m = d.clone();
        m.migrate_manifest_paths_v2().await.map_err(|e| Failure::new("migrate-error", format!("migrate_manifest_paths_v2: {e}")))?;
        verify(&m, "after migration")?;
        let d2 = open_table(&store, lexical, &uri, c.handler, None).await.map_err(|e| Failure::new("table-open-error", format!("open after migration: {e}")))?;
        verify(&d2, "open after migration")?;
        let vs = versions_of(&d2).await?;
        ensure!(vs == attached, "migrate-versions", "after migration versions() = {vs:?}, expected {attached:?}");
        for v in [1u64, commits as u64 / 2 + 1] {
            let dv = d2.checkout_version(v).await.map_err(|e| Failure::new("table-open-error", format!("checkout {v} after migration: {e}")))?;
            let n = dv.count_rows(None).await.map_err(|e| Failure::new("table-open-error", format!("count v{v}: {e}")))?;
            ensure!(n == rows_at[&v], "migrate-version-content", "after migration version {v} has {n} rows, expected {}", rows_at[&v]);
        }
        let names: Vec<String> = store.paths().into_iter().filter_map(|p| p.strip_prefix("tbl/_versions/").map(|s| s.to_string())).filter(|n| n.ends_with(".manifest")).collect();
        ensure!(names.iter().all(|n| n.len() == 29), "migrate-directory", "after migration some manifests keep V1 names: {names:?}");
        let before = store.dump();
        let mut m2 = d2.clone();
        m2.migrate_manifest_paths_v2().await.map_err(|e| Failure::new("migrate-error", format!("second migrate_manifest_paths_v2: {e}")))?;
        ensure!(store.dump() == before, "migrate-idempotent", "a second migrate_manifest_paths_v2 changed the store");
        obs.label("migrated");
    }
    if commits >= 3 && !files.is_empty() && !lexical {
        obs.nontrivial(format!("table|{}|n={}|extra={}|det={}|{}", if c.v2 { "v2" } else { "v1" }, commits, files.len().min(4), ndet.min(3), order_name(&c.list_order)));
    }
    Ok(())
}

// ---------------------------------------------------------------------------
// strategies

fn pow10(k: u32) -> u64 {
    10u64.pow(k)
}

fn boundary_versions() -> Vec<u64> {
    let mut v = vec![0u64, 1, 2, 9, 10, 11, (1 << 31) - 1, 1 << 31, 1 << 32, (1 << 32) + 1, (1 << 63) - 2, (1 << 63) - 1, 1 << 63, (1 << 63) + 1, u64::MAX - 1, u64::MAX];
    for k in 1..=19 {
        let p = pow10(k);
        v.extend([p - 1, p, p + 1]);
    }
    // u64::MAX - 10^k: the V2 name of these has a shorter decimal expansion
    for k in [1u32, 5, 18, 19] {
        v.push(u64::MAX - pow10(k));
        v.push((1 << 63) - 1 - pow10(k.min(18)));
    }
    v.sort_unstable();
    v.dedup();
    v
}

fn any_version() -> impl Strategy<Value = u64> {
    prop_oneof![
        3 => 0u64..40,
        2 => prop::sample::select(boundary_versions()),
        2 => (1u32..=19, -2i64..=2).prop_map(|(k, d)| pow10(k).wrapping_add(d as u64)),
        1 => (0u64..1000).prop_map(|d| (1u64 << 63) - 1 - d),
        1 => (0u64..1000).prop_map(|d| (1u64 << 63) + d),
        1 => (0u64..1000).prop_map(|d| u64::MAX - d),
        2 => any::<u64>(),
        1 => (0u32..64, any::<u64>()).prop_map(|(s, v)| v >> s),
    ]
}

fn attached_version() -> impl Strategy<Value = u64> {
    prop_oneof![
        6 => 1u64..30,
        2 => (1u32..=18, -1i64..=1).prop_map(|(k, d)| pow10(k).wrapping_add(d as u64)),
        1 => (0u64..20).prop_map(|d| MAX_ATTACHED - d),
        1 => any::<u64>().prop_map(|v| v & MAX_ATTACHED),
        1 => (0u32..63, any::<u64>()).prop_map(|(s, v)| (v & MAX_ATTACHED) >> s),
    ]
}

fn list_order() -> impl Strategy<Value = ListOrder> {
    prop_oneof![2 => Just(ListOrder::Lexical), 1 => Just(ListOrder::Reverse), 4 => any::<u64>().prop_map(ListOrder::Shuffled)]
}

fn target() -> impl Strategy<Value = Target> {
    prop_oneof![3 => any::<u16>().prop_map(Target::Existing), 3 => Just(Target::Next), 1 => attached_version().prop_map(Target::Fresh)]
}

fn extras(max: usize) -> impl Strategy<Value = Vec<(Target, u64)>> {
    prop::collection::vec((target(), any::<u64>()), 0..max)
}

fn dir_case() -> impl Strategy<Value = DirCase> {
    let versions = prop_oneof![
        // a dense history 1..=n with a few versions cleaned up
        3 => (1u64..26, prop::collection::vec(any::<u16>(), 0..4)).prop_map(|(n, holes)| {
            let mut v: Vec<u64> = (1..=n).collect();
            for h in holes {
                if v.len() > 1 {
                    let i = idx(h, v.len());
                    v.remove(i);
                }
            }
            v
        }),
        3 => prop::collection::vec(attached_version(), 0..10),
    ];
    (
        any::<bool>(),
        versions,
        prop::collection::vec(prop_oneof![1u64..20, any::<u64>()], 0..3),
        extras(4),
        extras(3),
        prop::collection::vec(any::<u8>(), 0..3),
        prop::collection::vec(any::<u16>(), 1..24),
        list_order(),
        0u8..3,
    )
        .prop_map(|(v2, versions, detached, staging, tmp, junk, order, list_order, handler)| DirCase { v2, versions, detached, staging, tmp, junk, order, list_order, handler })
}

fn table_case() -> impl Strategy<Value = TableCase> {
    (any::<bool>(), 1u8..14, prop::collection::vec(any::<u16>(), 0..3), extras(3), extras(3), list_order(), 0u8..2)
        .prop_map(|(v2, commits, detached_after, staging, tmp, list_order, handler)| TableCase { v2, commits, detached_after, staging, tmp, list_order, handler })
}

impl Property for C33 {
    type Input = Input;
    fn id(&self) -> &'static str {
        "C33"
    }
    fn rule(&self) -> String {
        "Three case kinds. Names (60%): 1-8 version numbers (small, u64 boundary values, 10^k +-2 up to 10^19, around 2^63 and u64::MAX, random, random >> s) through manifest_path / parse_version / detect_scheme / detect_scheme_staging under both schemes against the documented name format computed by the check; pairs of attached versions compare their V2 names; detached names never parse to another version and sort after every attached name; all boundary values are also enumerated. Dir (33%): a _versions directory with 0-25 attached manifests of one scheme (dense 1..n with holes, or values of mixed digit widths up to 2^63-1), detached manifests (V2 only), staging files <name>-<uuid> and temp files .tmp_<name>_<uuid> for an existing / the next / another version, junk files, created in a generated order, on the controlled store under lexical / reverse / shuffled listing (the store claims a lexically ordered listing only when it has one) and on the local file system (plus a partial-upload file name#1); resolve_latest_location, list_manifest_locations(sorted and unsorted) and resolve_version_location are compared with max / descending sort of the generated versions; V1 directories are migrated with migrate_scheme_to_v2 (same versions, same contents, other files untouched, second call changes nothing). Table (7%): a real table with 1-13 commits (V1 or V2 names, detached commits on V2) plus staging/temp files: open, latest_version_id, versions(), checkout_latest, migrate_manifest_paths_v2. Non-trivial: names with >=2 attached versions of different digit widths; directories/tables with >=3 versions, >=1 staging or temp file and a non-lexical listing; distinct by (scheme, #versions, digit widths, #staging, #tmp, #detached, listing order, creation position of the latest manifest).".into()
    }
    fn assumptions(&self) -> Vec<String> {
        vec![
            "a store declares list_is_lexically_ordered only if its listing is lexically ordered (the generated non-lexical orders are run with the flag off)".into(),
            "a _versions directory holds manifests of one naming scheme; detached manifests appear only next to V2 names (detached commits require V2)".into(),
            "foreign files in _versions do not end in `manifest` and do not start with `d` (the code treats every such name as a manifest)".into(),
            "attached versions are < 2^63 (the top bit marks detached versions)".into(),
        ]
    }
    fn cases(&self, tier: Tier) -> u32 {
        tier.pick(15_000, 400_000)
    }
    fn strategy(&self, _tier: Tier) -> BoxedStrategy<Input> {
        prop_oneof![
            60 => (prop::collection::vec(any_version(), 1..9), any::<u64>()).prop_map(|(versions, uuid)| Input::Names { versions, uuid }),
            33 => dir_case().prop_map(Input::Dir),
            7 => table_case().prop_map(Input::Table),
        ]
        .boxed()
    }
    fn enumerate(&self, _tier: Tier) -> Vec<Input> {
        let b = boundary_versions();
        let mut out: Vec<Input> = b.chunks(6).map(|c| Input::Names { versions: c.to_vec(), uuid: 7 }).collect();
        // neighbouring boundary values as pairs (ordering across digit widths)
        out.push(Input::Names { versions: b.clone(), uuid: 1 });
        out
    }
    fn check(&self, input: &Input, obs: &mut Obs, env: &Env) -> CheckResult {
        match input {
            Input::Names { versions, uuid } => {
                obs.label("names");
                check_names(versions, *uuid, obs)
            }
            Input::Dir(c) => {
                obs.label("dir");
                env.block_on(check_dir(c, obs, env))
            }
            Input::Table(c) => {
                obs.label("table");
                env.block_on(check_table(c, obs, env))
            }
        }
    }
}
