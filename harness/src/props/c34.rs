//! C34 — Row id sequences and the row id index are faithful.
//! Model: a plain `Vec<u64>` (unique ids).  Every operation on the sequence is
//! compared with the same operation on the list.

use crate::engine::*;
use crate::{ensure, fail};
use lance_core::utils::deletion::DeletionVector;
use lance_core::utils::mask::{RowIdMask, RowIdTreeMap};
use lance_table::rowids::{read_row_ids, rechunk_sequences, write_row_ids, FragmentRowIdIndex, RowIdIndex, RowIdSequence};
use proptest::prelude::*;
use serde::{Deserialize, Serialize};
use std::collections::{BTreeSet, HashMap, HashSet};
use std::sync::Arc;

pub struct C34;

/// How one piece (-> one segment) of ids is drawn.
#[derive(Clone, Debug, Serialize, Deserialize, PartialEq)]
pub enum Piece {
    /// contiguous start..start+len
    Range { start: u64, len: u16 },
    /// contiguous with a few holes (positions as fractions)
    Holes { start: u64, len: u16, holes: Vec<u16> },
    /// contiguous with many holes: keep[i] decides
    Dense { start: u64, keep: Vec<bool> },
    /// sorted, sparse: cumulative gaps
    Sparse { start: u64, gaps: Vec<u32> },
    /// arbitrary order
    Unsorted { vals: Vec<u64> },
    /// built as a Range through `From<Range<u64>>`
    PureRange { start: u64, len: u16 },
}

#[derive(Clone, Debug, Serialize, Deserialize, PartialEq)]
pub enum Op {
    Delete { picks: Vec<u16>, absent: Vec<u64> },
    Mask { picks: Vec<u16> },
    Slice { off: u16, len: u16 },
    Get { picks: Vec<u16> },
    Select { picks: Vec<u16>, beyond: u8 },
    Serde,
    ToTreeMap,
    Rechunk { cuts: Vec<u16>, allow_incomplete: bool, drop_tail: u16 },
    MaskToRanges { allow: Option<Vec<u16>>, block: Option<Vec<u16>>, extra: Vec<u64>, full_frag: bool },
    Index { frag_cuts: Vec<u16>, deleted: Vec<u16> },
}

#[derive(Clone, Debug, Serialize, Deserialize, PartialEq)]
pub struct Input {
    pub pieces: Vec<Piece>,
    pub ops: Vec<Op>,
}

fn piece_ids(p: &Piece) -> Vec<u64> {
    match p {
        Piece::Range { start, len } | Piece::PureRange { start, len } => {
            let end = start.saturating_add(*len as u64).min(u64::MAX - 1);
            (*start..end).collect()
        }
        Piece::Holes { start, len, holes } => {
            let end = start.saturating_add(*len as u64).min(u64::MAX - 1);
            let all: Vec<u64> = (*start..end).collect();
            let hs: HashSet<usize> = holes.iter().map(|h| idx(*h, all.len())).collect();
            all.iter().enumerate().filter(|(i, _)| !hs.contains(i)).map(|(_, v)| *v).collect()
        }
        Piece::Dense { start, keep } => keep
            .iter()
            .enumerate()
            .filter(|(_, k)| **k)
            .filter_map(|(i, _)| start.checked_add(i as u64))
            .filter(|v| *v < u64::MAX)
            .collect(),
        Piece::Sparse { start, gaps } => {
            let mut v = *start;
            let mut out = vec![];
            for g in gaps {
                match v.checked_add(*g as u64 + 1) {
                    Some(n) if n < u64::MAX => {
                        v = n;
                        out.push(v);
                    }
                    _ => break,
                }
            }
            out
        }
        Piece::Unsorted { vals } => vals.iter().copied().filter(|v| *v < u64::MAX).collect(),
    }
}

/// Build the sequence and the model list; ids already used are dropped so that
/// ids stay unique over the whole sequence (documented precondition).
fn build(pieces: &[Piece]) -> (RowIdSequence, Vec<u64>, usize) {
    let mut seq = RowIdSequence::new();
    let mut model = vec![];
    let mut seen: HashSet<u64> = HashSet::new();
    let mut nseg = 0;
    for p in pieces {
        let ids: Vec<u64> = piece_ids(p).into_iter().filter(|v| seen.insert(*v)).collect();
        if ids.is_empty() {
            continue;
        }
        let part = match p {
            Piece::PureRange { .. } if ids.windows(2).all(|w| w[1] == w[0] + 1) => RowIdSequence::from(ids[0]..ids[ids.len() - 1] + 1),
            _ => RowIdSequence::from(ids.as_slice()),
        };
        seq.extend(part);
        model.extend(ids);
        nseg += 1;
    }
    (seq, model, nseg)
}

fn start_strategy() -> impl Strategy<Value = u64> {
    prop_oneof![
        4 => 0u64..200,
        2 => (0u64..4, 0u64..100).prop_map(|(f, o)| ((f + 1) << 32) - 50 + o),
        1 => (0u64..300).prop_map(|d| u64::MAX - 1 - d),
        1 => any::<u64>().prop_map(|v| v >> 1),
    ]
}

fn piece_strategy(small: bool) -> impl Strategy<Value = Piece> {
    let maxlen: u16 = if small { 8 } else { 90 };
    prop_oneof![
        2 => (start_strategy(), 0..maxlen).prop_map(|(start, len)| Piece::Range { start, len }),
        2 => (start_strategy(), 0..maxlen).prop_map(|(start, len)| Piece::PureRange { start, len }),
        3 => (start_strategy(), 2..maxlen.max(3), prop::collection::vec(any::<u16>(), 1..4)).prop_map(|(start, len, holes)| Piece::Holes { start, len, holes }),
        3 => (start_strategy(), prop::collection::vec(prop::bool::weighted(0.6), 2..(maxlen as usize).max(3))).prop_map(|(start, keep)| Piece::Dense { start, keep }),
        2 => (start_strategy(), prop::collection::vec(prop_oneof![0u32..4, 100u32..100000], 1..(maxlen as usize / 3).max(2))).prop_map(|(start, gaps)| Piece::Sparse { start, gaps }),
        2 => prop::collection::vec(prop_oneof![0u64..64, any::<u64>()], 1..(maxlen as usize / 3).max(2)).prop_map(|vals| Piece::Unsorted { vals }),
    ]
}

fn fracs(max: usize) -> impl Strategy<Value = Vec<u16>> {
    prop::collection::vec(any::<u16>(), 0..max)
}

fn op_strategy() -> impl Strategy<Value = Op> {
    prop_oneof![
        3 => (fracs(8), prop::collection::vec(prop_oneof![0u64..300, any::<u64>()], 0..3)).prop_map(|(picks, absent)| Op::Delete { picks, absent }),
        3 => fracs(8).prop_map(|picks| Op::Mask { picks }),
        3 => (any::<u16>(), any::<u16>()).prop_map(|(off, len)| Op::Slice { off, len }),
        1 => fracs(6).prop_map(|picks| Op::Get { picks }),
        2 => (fracs(8), 0u8..3).prop_map(|(picks, beyond)| Op::Select { picks, beyond }),
        2 => Just(Op::Serde),
        1 => Just(Op::ToTreeMap),
        3 => (fracs(5), any::<bool>(), prop_oneof![3 => Just(0u16), 1 => 1u16..5]).prop_map(|(cuts, allow_incomplete, drop_tail)| Op::Rechunk { cuts, allow_incomplete, drop_tail }),
        4 => (prop::option::of(fracs(10)), prop::option::of(fracs(6)), prop::collection::vec(0u64..300, 0..3), prop::bool::weighted(0.15)).prop_map(|(allow, block, extra, full_frag)| Op::MaskToRanges { allow, block, extra, full_frag }),
        3 => (fracs(4), fracs(8)).prop_map(|(frag_cuts, deleted)| Op::Index { frag_cuts, deleted }),
    ]
}

fn seg_kinds(seq: &RowIdSequence) -> BTreeSet<&'static str> {
    let d = format!("{seq:?}");
    let mut s = BTreeSet::new();
    for k in ["RangeWithHoles", "RangeWithBitmap", "SortedArray", "Array("] {
        if d.contains(k) {
            s.insert(k);
        }
    }
    // plain Range: "Range(" preceded by neither With...
    if d.contains("Range(") {
        s.insert("Range");
    }
    s
}

fn check_equal(step: &str, seq: &RowIdSequence, model: &[u64]) -> CheckResult {
    let got: Vec<u64> = seq.iter().collect();
    ensure!(got == model, "seq-iter", "{step}: iter() = {:?} but model = {:?}", trunc(&got), trunc(model));
    ensure!(seq.len() == model.len() as u64, "seq-len", "{step}: len()={} model {}", seq.len(), model.len());
    let rev: Vec<u64> = seq.iter().rev().collect();
    let mut m2 = model.to_vec();
    m2.reverse();
    ensure!(rev == m2, "seq-iter-rev", "{step}: reversed iteration differs");
    Ok(())
}

fn trunc(v: &[u64]) -> String {
    if v.len() <= 40 {
        format!("{v:?}")
    } else {
        format!("{:?}…(len {})", &v[..40], v.len())
    }
}

impl Property for C34 {
    type Input = Input;
    fn id(&self) -> &'static str {
        "C34"
    }
    fn rule(&self) -> String {
        "A sequence is built from 1-4 generated pieces (contiguous, few holes, many holes, sorted sparse, unsorted, near 2^32 boundaries and u64::MAX; ids unique) joined with extend(), then 1-6 operations (delete, mask, slice, get, select, serde, to-treemap, rechunk, mask_to_offset_ranges, RowIdIndex over a fragment layout with deletion vectors) are applied to the sequence and to a Vec<u64> model and compared. Non-trivial = the sequence has >=2 segments of different encodings and >=1 op touched >=2 segments; distinct by (segment kinds, op kinds). Lists over {0..7} of length <=4 are enumerated exhaustively as single Unsorted pieces with every single op of a fixed panel.".into()
    }
    fn assumptions(&self) -> Vec<String> {
        vec![
            "ids within one sequence are unique and < u64::MAX (documented)".into(),
            "select() offsets are sorted (documented panic otherwise); mask() positions are sorted ascending (every caller iterates a deletion vector)".into(),
        ]
    }
    fn cases(&self, tier: Tier) -> u32 {
        tier.pick(200_000, 4_000_000)
    }
    fn strategy(&self, _tier: Tier) -> BoxedStrategy<Input> {
        (prop::collection::vec(piece_strategy(false), 1..5), prop::collection::vec(op_strategy(), 1..6))
            .prop_map(|(pieces, ops)| Input { pieces, ops })
            .boxed()
    }
    fn enumerate(&self, tier: Tier) -> Vec<Input> {
        // all duplicate-free lists over {0..7} of length <= L, with a fixed op panel
        let maxlen = tier.pick(3, 4);
        let mut lists: Vec<Vec<u64>> = vec![vec![]];
        let mut frontier: Vec<Vec<u64>> = vec![vec![]];
        for _ in 0..maxlen {
            let mut next = vec![];
            for l in &frontier {
                for v in 0..8u64 {
                    if !l.contains(&v) {
                        let mut n = l.clone();
                        n.push(v);
                        next.push(n);
                    }
                }
            }
            lists.extend(next.iter().cloned());
            frontier = next;
        }
        let panel = vec![
            Op::Delete { picks: vec![0, 40000], absent: vec![9] },
            Op::Mask { picks: vec![20000, 65535] },
            Op::Slice { off: 20000, len: 30000 },
            Op::Select { picks: vec![0, 30000, 65535], beyond: 1 },
            Op::Serde,
            Op::Rechunk { cuts: vec![30000], allow_incomplete: false, drop_tail: 0 },
            Op::MaskToRanges { allow: Some(vec![0, 30000, 65535]), block: Some(vec![30000]), extra: vec![], full_frag: false },
            Op::Index { frag_cuts: vec![30000], deleted: vec![10000] },
        ];
        lists
            .into_iter()
            .filter(|l| !l.is_empty())
            .map(|l| Input { pieces: vec![Piece::Unsorted { vals: l }], ops: panel.clone() })
            .collect()
    }
    fn enumeration_is_exhaustive(&self, _tier: Tier) -> bool {
        true
    }

    fn check(&self, input: &Input, obs: &mut Obs, _env: &Env) -> CheckResult {
        let (seq0, model0, nseg) = build(&input.pieces);
        check_equal("build", &seq0, &model0)?;
        let kinds = seg_kinds(&seq0);
        for k in &kinds {
            obs.label(format!("seg-{k}"));
        }
        let mut seq = seq0.clone();
        let mut model = model0.clone();
        let mut touched_multi = false;
        let mut opkinds = vec![];

        // segment boundaries (in positions) of the *initial* sequence, for classification
        let seg_of = |pos: usize, pieces: &[Piece]| -> usize {
            let mut seen: HashSet<u64> = HashSet::new();
            let mut acc = 0;
            let mut s = 0;
            for p in pieces {
                let n = piece_ids(p).into_iter().filter(|v| seen.insert(*v)).count();
                if n == 0 {
                    continue;
                }
                if pos < acc + n {
                    return s;
                }
                acc += n;
                s += 1;
            }
            s
        };

        for (i, op) in input.ops.iter().enumerate() {
            let step = format!("op#{i} {op:?}");
            obs.inner += 1;
            match op {
                Op::Delete { picks, absent } => {
                    opkinds.push("delete");
                    if model.is_empty() {
                        continue;
                    }
                    let mut ids: Vec<u64> = picks.iter().map(|p| model[idx(*p, model.len())]).collect();
                    let segs: BTreeSet<usize> = picks.iter().map(|p| seg_of(idx(*p, model.len()), &input.pieces)).collect();
                    if segs.len() >= 2 {
                        touched_multi = true;
                    }
                    let present: HashSet<u64> = model.iter().copied().collect();
                    ids.extend(absent.iter().filter(|a| !present.contains(a)));
                    // duplicates in the delete list are legal for a set-like delete; keep it simple: dedup
                    let mut seen = HashSet::new();
                    ids.retain(|v| seen.insert(*v));
                    seq.delete(ids.iter().copied());
                    let del: HashSet<u64> = ids.into_iter().collect();
                    model.retain(|v| !del.contains(v));
                    check_equal(&step, &seq, &model)?;
                }
                Op::Mask { picks } => {
                    opkinds.push("mask");
                    if model.is_empty() {
                        continue;
                    }
                    let pos: BTreeSet<u32> = picks.iter().map(|p| idx(*p, model.len()) as u32).collect();
                    if pos.iter().map(|p| seg_of(*p as usize, &input.pieces)).collect::<BTreeSet<_>>().len() >= 2 {
                        touched_multi = true;
                    }
                    if let Err(e) = seq.mask(pos.iter().copied()) {
                        fail!("seq-mask-error", "{step}: {e}");
                    }
                    let mut k = 0u32;
                    model.retain(|_| {
                        let keep = !pos.contains(&k);
                        k += 1;
                        keep
                    });
                    check_equal(&step, &seq, &model)?;
                }
                Op::Slice { off, len } => {
                    opkinds.push("slice");
                    let o = idx(*off, model.len() + 1);
                    let l = idx(*len, model.len() - o + 1);
                    let sl = seq.slice(o, l);
                    let got: Vec<u64> = sl.iter().collect();
                    ensure!(got == model[o..o + l], "seq-slice", "{step}: slice({o},{l}) = {} but model = {}", trunc(&got), trunc(&model[o..o + l]));
                    if l > 0 && seg_of(o, &input.pieces) != seg_of(o + l - 1, &input.pieces) {
                        touched_multi = true;
                    }
                }
                Op::Get { picks } => {
                    opkinds.push("get");
                    for p in picks {
                        let i = idx(*p, model.len() + 2);
                        let got = seq.get(i);
                        let want = model.get(i).copied();
                        ensure!(got == want, "seq-get", "{step}: get({i}) = {got:?}, model {want:?}");
                    }
                }
                Op::Select { picks, beyond } => {
                    opkinds.push("select");
                    let mut offs: Vec<usize> = picks.iter().map(|p| idx(*p, model.len().max(1))).collect();
                    for b in 0..*beyond {
                        offs.push(model.len() + b as usize * 3);
                    }
                    offs.sort_unstable();
                    let got: Vec<u64> = seq.select(offs.iter().copied()).collect();
                    let want: Vec<u64> = offs.iter().filter_map(|o| model.get(*o).copied()).collect();
                    ensure!(got == want, "seq-select", "{step}: select({offs:?}) = {} model {}", trunc(&got), trunc(&want));
                }
                Op::Serde => {
                    opkinds.push("serde");
                    let bytes = write_row_ids(&seq);
                    match read_row_ids(&bytes) {
                        Ok(s2) => {
                            check_equal(&step, &s2, &model)?;
                            ensure!(s2 == seq, "seq-serde-eq", "{step}: decoded sequence differs structurally: {s2:?} vs {seq:?}");
                        }
                        Err(e) => fail!("seq-serde-error", "{step}: {e}"),
                    }
                }
                Op::ToTreeMap => {
                    opkinds.push("treemap");
                    // Range segments are materialised per id in a bitmap; keep this for short sequences
                    let tm = RowIdTreeMap::from(&seq);
                    for v in &model {
                        ensure!(tm.contains(*v), "seq-treemap", "{step}: tree map lacks {v}");
                    }
                    ensure!(tm.len() == Some(model.len() as u64), "seq-treemap-len", "{step}: tree map len {:?} vs {}", tm.len(), model.len());
                }
                Op::Rechunk { cuts, allow_incomplete, drop_tail } => {
                    opkinds.push("rechunk");
                    // split the current sequence into 1-2 input sequences and rechunk into generated sizes
                    let n = model.len();
                    let mut cs: Vec<usize> = cuts.iter().map(|c| idx(*c, n + 1)).collect();
                    cs.sort_unstable();
                    let mut sizes = vec![];
                    let mut prev = 0;
                    for c in cs {
                        sizes.push((c - prev) as u64);
                        prev = c;
                    }
                    sizes.push((n - prev) as u64);
                    // optionally ask for more than available in the last chunk (incomplete)
                    let mut want_sizes = sizes.clone();
                    if *drop_tail > 0 {
                        *want_sizes.last_mut().unwrap() += *drop_tail as u64;
                    }
                    let mid = n / 2;
                    let a: RowIdSequence = {
                        let s = seq.slice(0, mid);
                        let v: Vec<u64> = s.iter().collect();
                        // keep original segments for the first half: rebuild by masking the tail off
                        let mut c = seq.clone();
                        let _ = c.mask((mid as u32)..(n as u32));
                        ensure!(c.iter().collect::<Vec<_>>() == v, "seq-mask-tail", "{step}: masking the tail off changed the head");
                        c
                    };
                    let b: RowIdSequence = {
                        let mut c = seq.clone();
                        let _ = c.mask(0..(mid as u32));
                        c
                    };
                    let r = rechunk_sequences(vec![a, b], want_sizes.clone(), *allow_incomplete);
                    let total_want: u64 = want_sizes.iter().sum();
                    match r {
                        Ok(chunks) => {
                            if total_want != n as u64 && !*allow_incomplete {
                                fail!("rechunk-accepted-mismatch", "{step}: sizes {want_sizes:?} over {n} ids accepted without allow_incomplete");
                            }
                            ensure!(chunks.len() == want_sizes.len(), "rechunk-count", "{step}: {} chunks for {} sizes", chunks.len(), want_sizes.len());
                            let mut pos = 0usize;
                            for (ci, ch) in chunks.iter().enumerate() {
                                let l = (sizes[ci] as usize).min(n - pos);
                                let got: Vec<u64> = ch.iter().collect();
                                ensure!(got == model[pos..pos + l], "rechunk-content", "{step}: chunk {ci} = {} but model {}", trunc(&got), trunc(&model[pos..pos + l]));
                                pos += l;
                            }
                            if sizes.iter().filter(|s| **s > 0).count() >= 2 && nseg >= 2 {
                                touched_multi = true;
                            }
                        }
                        Err(e) => {
                            if total_want == n as u64 || (*allow_incomplete && total_want >= n as u64) {
                                fail!("rechunk-error", "{step}: sizes {want_sizes:?} over {n} ids rejected: {e}");
                            }
                            obs.rejected += 1;
                        }
                    }
                }
                Op::MaskToRanges { allow, block, extra, full_frag } => {
                    opkinds.push("mask2ranges");
                    let pick_set = |ps: &Vec<u16>| -> Vec<u64> {
                        if model.is_empty() {
                            vec![]
                        } else {
                            ps.iter().map(|p| model[idx(*p, model.len())]).collect()
                        }
                    };
                    let mut al: Option<RowIdTreeMap> = allow.as_ref().map(|ps| pick_set(ps).into_iter().chain(extra.iter().copied()).collect());
                    let bl: Option<RowIdTreeMap> = block.as_ref().map(|ps| pick_set(ps).into_iter().collect());
                    if *full_frag {
                        if let Some(a) = al.as_mut() {
                            if let Some(first) = model.first() {
                                a.insert_fragment((*first >> 32) as u32);
                            }
                        }
                    }
                    let mask = RowIdMask { allow_list: al, block_list: bl };
                    let got = seq.mask_to_offset_ranges(&mask);
                    // model: offsets of selected ids, grouped into maximal runs *per segment order*;
                    // the documented contract is the set of offsets, so compare flattened offsets
                    let got_offs: Vec<u64> = got.iter().flat_map(|r| r.clone()).collect();
                    let want: Vec<u64> = model.iter().enumerate().filter(|(_, id)| mask.selected(**id)).map(|(i, _)| i as u64).collect();
                    let mut got_sorted = got_offs.clone();
                    got_sorted.sort_unstable();
                    if got_sorted != want {
                        fail!("mask-to-offset-ranges", "{step}: seq={seq:?} offsets {} but model {}", trunc(&got_sorted), trunc(&want));
                    }
                    for r in &got {
                        ensure!(r.start < r.end, "mask-to-offset-ranges-empty", "{step}: empty range {r:?}");
                    }
                    if want.len() >= 2 && seg_of(want[0] as usize, &input.pieces) != seg_of(*want.last().unwrap() as usize, &input.pieces) {
                        touched_multi = true;
                    }
                }
                Op::Index { frag_cuts, deleted } => {
                    opkinds.push("index");
                    // lay the current ids out over fragments
                    let n = model.len();
                    let mut cs: Vec<usize> = frag_cuts.iter().map(|c| idx(*c, n + 1)).collect();
                    cs.push(n);
                    cs.sort_unstable();
                    let mut frags = vec![];
                    let mut prev = 0;
                    let mut expect: HashMap<u64, (u32, u32)> = HashMap::new();
                    let mut dead: HashSet<u64> = HashSet::new();
                    for (fi, c) in cs.iter().enumerate() {
                        let ids = &model[prev..*c];
                        prev = *c;
                        if ids.is_empty() {
                            continue;
                        }
                        let frag_id = (fi as u32) * 3 + 1;
                        // keep the original segment encodings: mask everything else off a clone
                        let fseq = RowIdSequence::from(ids);
                        let mut dvs: Vec<u32> = vec![];
                        for d in deleted {
                            let pos = idx(*d, n);
                            if pos >= *c - ids.len() && pos < *c && (d % 3 != 0) {
                                let local = (pos - (*c - ids.len())) as u32;
                                dvs.push(local);
                                dead.insert(ids[local as usize]);
                            }
                        }
                        let dv: DeletionVector = if dvs.is_empty() { DeletionVector::default() } else { dvs.into_iter().collect() };
                        for (o, id) in ids.iter().enumerate() {
                            if !dead.contains(id) {
                                expect.insert(*id, (frag_id, o as u32));
                            }
                        }
                        frags.push(FragmentRowIdIndex { fragment_id: frag_id, row_id_sequence: Arc::new(fseq), deletion_vector: Arc::new(dv) });
                    }
                    let index = match RowIdIndex::new(&frags) {
                        Ok(i) => i,
                        Err(e) => fail!("rowid-index-build-error", "{step}: {e}"),
                    };
                    for id in &model {
                        let got = index.get(*id).map(|a| (a.fragment_id(), a.row_offset()));
                        let want = expect.get(id).copied();
                        ensure!(got == want, "rowid-index-get", "{step}: get({id}) = {got:?}, model {want:?}");
                    }
                    // absent ids
                    let present: HashSet<u64> = model.iter().copied().collect();
                    for id in model.iter().flat_map(|v| [v.wrapping_add(1), v.wrapping_sub(1)]).chain([0, 1, u64::MAX - 1]) {
                        if !present.contains(&id) {
                            let got = index.get(id);
                            ensure!(got.is_none(), "rowid-index-absent", "{step}: absent id {id} resolves to {got:?}");
                        }
                    }
                    if frags.len() >= 2 {
                        touched_multi = true;
                    }
                }
            }
        }
        if kinds.len() >= 2 && nseg >= 2 && touched_multi {
            let mut ok = opkinds.clone();
            ok.dedup();
            obs.nontrivial(format!("{:?}|{:?}", kinds, ok));
        }
        Ok(())
    }
}
