//! C35 — Distance kernels agree with the scalar definitions.
//!
//! Reference: the textbook definitions evaluated in f64 with a compensated dot
//! product (Ogita/Rump/Oishi `Dot2`, i.e. as if computed in twice the precision).
//!
//! Tolerance: not tuned.  Every kernel is mirrored operation by operation with a
//! running forward error bound (`Q { v, e }`: reference value and a bound on
//! |kernel - v|) under the standard model with gradual underflow
//!     fl(a op b) = (a op b)(1 + d) + t,  |d| <= u,  |t| <= eta
//! (Higham, Accuracy and Stability of Numerical Algorithms, 2.2 / 3.1 / 4.2):
//!   * a sum of n products in any order, with or without FMA:
//!     |err| <= gamma_k * sum|a_i b_i| + k*eta,  gamma_k = k u / (1 - k u), k = n (+ extra roundings per term)
//!   * sqrt, *, /, 1-x: first-order propagation over the interval [v-e, v+e] plus one rounding.
//! u / eta are those of the precision the kernel really accumulates in (read off
//! the code: f16, bf16, f32 -> f32; f64 -> f64 followed by a cast to f32; u8 -> exact
//! integers).  Whenever the interval analysis cannot exclude overflow of the
//! accumulator or a zero denominator (cosine of a zero / underflowing vector) the
//! comparison is skipped and labelled, except where overflow is certain for a sum of
//! non-negative terms (then +inf is the expected answer).

use crate::engine::*;
use crate::{ensure, fail};
use arrow_array::types::{Float16Type, Float32Type, Float64Type};
use arrow_array::{Array, ArrayRef, FixedSizeListArray, Float16Array, Float32Array, Float64Array, UInt8Array};
use arrow_buffer::NullBuffer;
use arrow_schema::{DataType, Field};
use half::{bf16, f16};
use lance_index::vector::kmeans::{compute_partition, compute_partitions, compute_partitions_arrow_array, kmeans_find_partitions, kmeans_find_partitions_arrow_array, kmeans_find_partitions_binary, KMeansAlgoFloat};
use lance_linalg::distance::hamming::{hamming, hamming_distance_arrow_batch, hamming_distance_batch, hamming_scalar};
use lance_linalg::distance::{cosine_distance, cosine_distance_batch, dot, dot_distance, dot_distance_batch, l2, l2_distance_batch, norm_l2, norm_squared_fsl, Cosine, DistanceType, Dot, Normalize, L2};
use lance_linalg::kernels::{argmax, argmin, argmin_opt, argmin_value, argmin_value_float};
use proptest::prelude::*;
use serde::{Deserialize, Serialize};
use std::sync::Arc;

pub struct C35;

// ---------------------------------------------------------------------------
// inputs

#[derive(Clone, Copy, Debug, Serialize, Deserialize, PartialEq, Eq)]
pub enum Ty {
    F16,
    BF16,
    F32,
    F64,
    U8,
}

/// How the elements of one vector are drawn (exponents are clamped to the type).
#[derive(Clone, Copy, Debug, Serialize, Deserialize, PartialEq)]
pub enum Class {
    /// uniform in [-1, 1]
    Unit,
    /// uniform in [-1, 1] * 2^e, e clamped to [smallest subnormal, largest exponent whose squares still sum in range]
    Scaled(i16),
    /// uniform in [-1, 1] * 2^e, e clamped to [safe, max exponent]: the f64 definition is fine, an f32 accumulator overflows
    Huge(i16),
    /// per element exponent uniform in [lo, hi] (clamped as Scaled), random mantissa and sign
    MixedExp(i16, i16),
    Zeros,
    /// +0.0 / -0.0 mostly, a few Unit values
    SignedZeros,
    /// one value m * 2^e in every element
    Const(i16),
    /// integers in [-r, r]
    Ints(u8),
    /// small multiples of the smallest subnormal of the element type
    Denormal,
    /// ~90 % zeros, the rest Scaled(e)
    Sparse(i16),
}

/// Relation of the first batch vector to the query.
#[derive(Clone, Copy, Debug, Serialize, Deserialize, PartialEq, Eq)]
pub enum Rel {
    Indep,
    Equal,
    Neg,
    /// y = x * (1 + small)
    Near,
    /// y = 2 x
    Double,
}

#[derive(Clone, Debug, Serialize, Deserialize, PartialEq)]
pub struct VecCase {
    pub ty: Ty,
    pub len: u16,
    pub cx: Class,
    pub cy: Class,
    pub rel: Rel,
    pub seed: u64,
    /// vectors in the batch (1..=4)
    pub nb: u8,
    /// bit j set => row j of the Arrow batch is null
    pub nulls: u8,
    /// the FixedSizeList is a slice (offset 1) of a longer one
    pub sliced: bool,
}

#[derive(Clone, Debug, Serialize, Deserialize, PartialEq)]
pub struct NearCase {
    pub ty: Ty,
    pub dim: u16,
    pub k: u8,
    pub nvec: u8,
    /// false = L2, true = Dot (u8: always Hamming)
    pub dot: bool,
    pub cc: Class,
    pub cv: Class,
    pub seed: u64,
    /// centroids (as fractions of k) that get a NaN element
    pub nan_centroids: Vec<u16>,
    /// vectors (fractions of nvec) that get a NaN element
    pub nan_vectors: Vec<u16>,
    /// (a, b): centroid b becomes a copy of centroid a (exact ties)
    pub dup: Option<(u16, u16)>,
    /// vector 0 becomes a copy of this centroid (distance 0)
    pub hit: Option<u16>,
    pub nprobes: u8,
}

#[derive(Clone, Copy, Debug, Serialize, Deserialize, PartialEq)]
pub enum ArgVal {
    /// v / 8
    Num(i16),
    Nan,
    PosInf,
    NegInf,
    /// absent (`None`) for the `_opt` variants, skipped elsewhere
    Missing,
}

#[derive(Clone, Debug, Serialize, Deserialize, PartialEq)]
pub enum Input {
    Vec(VecCase),
    Near(NearCase),
    Argmin(Vec<ArgVal>),
}

// ---------------------------------------------------------------------------
// error-bound arithmetic

#[derive(Clone, Copy, Debug)]
struct Prec {
    u: f64,
    eta: f64,
    max: f64,
}
const P32: Prec = Prec { u: 5.960_464_477_539_063e-8, eta: 1.401_298_464_324_817e-45, max: f32::MAX as f64 };
const P64: Prec = Prec { u: 1.110_223_024_625_156_5e-16, eta: 5e-324, max: f64::MAX };

#[derive(Clone, Copy, Debug)]
struct Q {
    v: f64,
    e: f64,
}

#[derive(Clone, Copy, Debug, PartialEq)]
enum Why {
    /// overflow of the kernel's accumulator / result type cannot be excluded
    Overflow,
    /// a sum of non-negative terms (or a cast) certainly exceeds the f32 range: the answer is +-inf
    CertainInf(bool),
    /// a denominator interval contains zero (cosine of a zero or underflowing vector)
    Singular,
    /// the bound is not informative
    Vacuous,
}
type QR = Result<Q, Why>;

fn gamma(k: usize, u: f64) -> Result<f64, Why> {
    let ku = k as f64 * u;
    if ku >= 0.25 {
        Err(Why::Vacuous)
    } else {
        Ok(ku / (1.0 - ku))
    }
}

fn two_sum(a: f64, b: f64) -> (f64, f64) {
    let s = a + b;
    let bb = s - a;
    (s, (a - (s - bb)) + (b - bb))
}

/// (sum a_i*b_i as if in twice the working precision, sum |a_i*b_i|)
fn dot2(a: &[f64], b: &[f64]) -> (f64, f64) {
    let mut p = 0.0f64;
    let mut s = 0.0f64;
    let mut abs = 0.0f64;
    for (x, y) in a.iter().zip(b.iter()) {
        let h = x * y;
        let r = x.mul_add(*y, -h);
        let (p2, q) = two_sum(p, h);
        p = p2;
        s += q + r;
        abs += h.abs();
    }
    (p + s, abs)
}

/// Model of "sum of n products, any order, precision p, `extra` more roundings per term".
/// `nonneg`: every product is >= 0 (then certain overflow gives +inf).
fn sumprod_q(a: &[f64], b: &[f64], extra: usize, ref_rel: f64, p: Prec, nonneg: bool) -> QR {
    let n = a.len();
    let (s, abs) = dot2(a, b);
    let nf = n as f64;
    let abs_up = abs * (1.0 + nf * 4.5e-16) + nf * P64.eta;
    let k = n + extra;
    let g = gamma(k.max(1), p.u)?;
    // reference error: Dot2 + the rounding of the inputs of the products (`ref_rel` per product)
    let ref_err = 2.3e-16 * s.abs() + (nf * 2.3e-16).powi(2) * abs_up + ref_rel * abs_up + 4.0 * nf * P64.eta;
    if nonneg && s * (1.0 - g) - ref_err > p.max * (1.0 + p.u) && p.max < f64::MAX {
        return Err(Why::CertainInf(true));
    }
    if !(abs_up * (1.0 + g) < p.max) {
        return Err(Why::Overflow);
    }
    Ok(Q { v: s, e: g * abs_up + (k as f64) * p.eta + ref_err })
}

fn finite(q: Q, p: Prec) -> QR {
    if !q.v.is_finite() || !q.e.is_finite() {
        return Err(Why::Vacuous);
    }
    if !(q.v.abs() + q.e < p.max) {
        return Err(Why::Overflow);
    }
    Ok(q)
}

fn cast32(q: Q) -> QR {
    let a = q.v.abs();
    if a - q.e > P32.max * (1.0 + P32.u) {
        return Err(Why::CertainInf(q.v > 0.0));
    }
    finite(Q { v: q.v, e: q.e + P32.u * (a + q.e) + P32.eta }, P32)
}

fn sqrt_q(q: Q, p: Prec) -> QR {
    let lo = (q.v - q.e).max(0.0);
    let hi = q.v + q.e;
    let s = q.v.max(0.0).sqrt();
    let e = (s - lo.sqrt()).max(hi.sqrt() - s);
    // reference sqrt: one f64 rounding
    // reference sqrt calls: a few f64 roundings
    finite(Q { v: s, e: e + p.u * (s + e) + 6.7e-16 * s }, p)
}

fn mul_q(a: Q, b: Q, p: Prec) -> QR {
    let v = a.v * b.v;
    let e = a.v.abs() * b.e + b.v.abs() * a.e + a.e * b.e;
    finite(Q { v, e: e + p.u * (v.abs() + e) + p.eta + 2.3e-16 * v.abs() + P64.eta }, p)
}

fn div_q(a: Q, b: Q, p: Prec) -> QR {
    let den_lo = b.v.abs() - b.e;
    if !(den_lo > 0.0) {
        return Err(Why::Singular);
    }
    let v = a.v / b.v;
    let e = (a.e + v.abs() * b.e) / den_lo;
    finite(Q { v, e: e + p.u * (v.abs() + e) + p.eta + 2.3e-16 * v.abs() + P64.eta }, p)
}

fn one_minus_q(a: Q, p: Prec) -> QR {
    let v = 1.0 - a.v;
    finite(Q { v, e: a.e + p.u * (v.abs() + a.e) + 2.3e-16 * v.abs() }, p)
}

// ---------------------------------------------------------------------------
// element types

struct TyInfo {
    /// exponent of the smallest subnormal
    sub: i32,
    /// largest exponent e such that 1100 * (2 * 2^e)^2 stays inside the accumulator / result range
    safe: i32,
    /// largest exponent generated at all
    emax: i32,
    maxv: f64,
}

fn ty_info(ty: Ty) -> TyInfo {
    match ty {
        Ty::F16 => TyInfo { sub: -24, safe: 15, emax: 15, maxv: 65504.0 },
        Ty::BF16 => TyInfo { sub: -133, safe: 57, emax: 126, maxv: bf16::MAX.to_f64() },
        Ty::F32 => TyInfo { sub: -149, safe: 57, emax: 126, maxv: f32::MAX as f64 },
        // "huge magnitudes that do not overflow the definition in f64": 1100 * (2*2^500)^2 < 2^1024
        Ty::F64 => TyInfo { sub: -1074, safe: 57, emax: 500, maxv: 2f64.powi(501) },
        Ty::U8 => TyInfo { sub: 0, safe: 7, emax: 7, maxv: 255.0 },
    }
}

trait Elem: Copy + Send + Sync + std::fmt::Debug + 'static + L2 + Dot + Cosine + Normalize {
    const TY: Ty;
    const NAME: &'static str;
    /// precision of the accumulator of the kernels
    const ACC: Prec;
    /// f64: accumulate in f64, cast the result to f32
    const WIDE: bool;
    /// f32: hand written SIMD cosine
    const F32FAST: bool;
    fn q(v: f64) -> Self;
    fn f(self) -> f64;
    fn nan() -> Self;
    fn arrow(v: Vec<Self>) -> Option<ArrayRef>;
    fn dt() -> Option<DataType>;
    fn partition(centroids: &[Self], v: &[Self], dt: DistanceType) -> Option<u32>;
    fn find_partitions(centroids: &[Self], q: &[Self], nprobes: usize, dt: DistanceType) -> Result<(Vec<u32>, Vec<f32>), String>;
    /// compute_partitions::<_, KMeansAlgoFloat<_>> on primitive arrays
    fn partitions(centroids: Vec<Self>, vectors: Vec<Self>, dim: usize, dt: DistanceType) -> Option<Vec<Option<u32>>>;
}

fn unpack_find(r: arrow::error::Result<(arrow_array::UInt32Array, Float32Array)>) -> Result<(Vec<u32>, Vec<f32>), String> {
    match r {
        Ok((i, d)) => {
            if i.null_count() > 0 || d.null_count() > 0 {
                return Err("nulls in kmeans_find_partitions output".into());
            }
            Ok((i.values().to_vec(), d.values().to_vec()))
        }
        Err(e) => Err(e.to_string()),
    }
}

macro_rules! elem_impl {
    ($t:ty, $ty:expr, $name:expr, $acc:expr, $wide:expr, $fast:expr, $q:expr, $f:expr, $nan:expr, $arr:expr, $dt:expr, $parts:expr) => {
        impl Elem for $t {
            const TY: Ty = $ty;
            const NAME: &'static str = $name;
            const ACC: Prec = $acc;
            const WIDE: bool = $wide;
            const F32FAST: bool = $fast;
            fn q(v: f64) -> Self {
                ($q)(v)
            }
            fn f(self) -> f64 {
                ($f)(self)
            }
            fn nan() -> Self {
                $nan
            }
            fn arrow(v: Vec<Self>) -> Option<ArrayRef> {
                ($arr)(v)
            }
            fn dt() -> Option<DataType> {
                $dt
            }
            fn partition(centroids: &[Self], v: &[Self], dt: DistanceType) -> Option<u32> {
                compute_partition::<$t>(centroids, v, dt)
            }
            fn find_partitions(centroids: &[Self], q: &[Self], nprobes: usize, dt: DistanceType) -> Result<(Vec<u32>, Vec<f32>), String> {
                unpack_find(kmeans_find_partitions::<$t>(centroids, q, nprobes, dt))
            }
            fn partitions(centroids: Vec<Self>, vectors: Vec<Self>, dim: usize, dt: DistanceType) -> Option<Vec<Option<u32>>> {
                ($parts)(centroids, vectors, dim, dt)
            }
        }
    };
}

elem_impl!(
    f16,
    Ty::F16,
    "f16",
    P32,
    false,
    false,
    |v: f64| f16::from_f64(v),
    |s: f16| s.to_f64(),
    f16::NAN,
    |v: Vec<f16>| Some(Arc::new(Float16Array::from(v)) as ArrayRef),
    Some(DataType::Float16),
    |c: Vec<f16>, v: Vec<f16>, dim: usize, dt: DistanceType| Some(compute_partitions::<Float16Type, KMeansAlgoFloat<Float16Type>>(&Float16Array::from(c), &Float16Array::from(v), dim, dt).0)
);
elem_impl!(
    bf16,
    Ty::BF16,
    "bf16",
    P32,
    false,
    false,
    |v: f64| bf16::from_f64(v),
    |s: bf16| s.to_f64(),
    bf16::NAN,
    |_v: Vec<bf16>| None,
    None,
    |_c: Vec<bf16>, _v: Vec<bf16>, _dim: usize, _dt: DistanceType| None
);
elem_impl!(
    f32,
    Ty::F32,
    "f32",
    P32,
    false,
    true,
    |v: f64| v as f32,
    |s: f32| s as f64,
    f32::NAN,
    |v: Vec<f32>| Some(Arc::new(Float32Array::from(v)) as ArrayRef),
    Some(DataType::Float32),
    |c: Vec<f32>, v: Vec<f32>, dim: usize, dt: DistanceType| Some(compute_partitions::<Float32Type, KMeansAlgoFloat<Float32Type>>(&Float32Array::from(c), &Float32Array::from(v), dim, dt).0)
);
elem_impl!(
    f64,
    Ty::F64,
    "f64",
    P64,
    true,
    false,
    |v: f64| v,
    |s: f64| s,
    f64::NAN,
    |v: Vec<f64>| Some(Arc::new(Float64Array::from(v)) as ArrayRef),
    Some(DataType::Float64),
    |c: Vec<f64>, v: Vec<f64>, dim: usize, dt: DistanceType| Some(compute_partitions::<Float64Type, KMeansAlgoFloat<Float64Type>>(&Float64Array::from(c), &Float64Array::from(v), dim, dt).0)
);

// ---------------------------------------------------------------------------
// value generation (pure function of the generated seed)

fn splitmix(x: &mut u64) -> u64 {
    *x = x.wrapping_add(0x9E37_79B9_7F4A_7C15);
    let mut z = *x;
    z = (z ^ (z >> 30)).wrapping_mul(0xBF58_476D_1CE4_E5B9);
    z = (z ^ (z >> 27)).wrapping_mul(0x94D0_49BB_1331_11EB);
    z ^ (z >> 31)
}

fn unit(s: &mut u64) -> f64 {
    ((splitmix(s) >> 11) as f64 / (1u64 << 53) as f64) * 2.0 - 1.0
}

fn pow2(e: i32) -> f64 {
    2f64.powi(e)
}

fn class_kind(c: &Class) -> &'static str {
    match c {
        Class::Unit => "unit",
        Class::Scaled(e) => {
            if *e < -30 {
                "tiny"
            } else if *e > 30 {
                "large"
            } else {
                "scaled"
            }
        }
        Class::Huge(_) => "huge",
        Class::MixedExp(..) => "mixedexp",
        Class::Zeros => "zeros",
        Class::SignedZeros => "signedzeros",
        Class::Const(_) => "const",
        Class::Ints(_) => "ints",
        Class::Denormal => "denormal",
        Class::Sparse(_) => "sparse",
    }
}

/// f64 candidates; the caller rounds them to the element type
fn gen_raw(ty: Ty, class: Class, len: usize, seed: u64, which: u64) -> Vec<f64> {
    let info = ty_info(ty);
    let mut s = seed ^ which.wrapping_mul(0xD1B5_4A32_D192_ED03) ^ 0x1234_5678;
    let cl = |e: i16| (e as i32).clamp(info.sub + 1, info.safe);
    let cval = unit(&mut s) * 0.5 + if splitmix(&mut s) & 1 == 0 { 1.0 } else { -1.5 };
    (0..len)
        .map(|_| {
            let v = match class {
                Class::Unit => unit(&mut s),
                Class::Scaled(e) => unit(&mut s) * pow2(cl(e)),
                Class::Huge(e) => unit(&mut s) * pow2((e as i32).clamp(info.safe, info.emax)),
                Class::MixedExp(a, b) => {
                    let (lo, hi) = (cl(a.min(b)), cl(a.max(b)));
                    let e = lo + (splitmix(&mut s) % ((hi - lo + 1) as u64)) as i32;
                    let m = 1.0 + (unit(&mut s) + 1.0) * 0.5;
                    let sign = if splitmix(&mut s) & 1 == 0 { 1.0 } else { -1.0 };
                    sign * m * pow2(e)
                }
                Class::Zeros => 0.0,
                Class::SignedZeros => match splitmix(&mut s) % 5 {
                    0 | 1 => 0.0,
                    2 | 3 => -0.0,
                    _ => unit(&mut s),
                },
                Class::Const(e) => cval * pow2(cl(e)),
                Class::Ints(r) => {
                    let r = r as i64;
                    ((splitmix(&mut s) % (2 * r as u64 + 1)) as i64 - r) as f64
                }
                Class::Denormal => ((splitmix(&mut s) % 201) as i64 - 100) as f64 * pow2(info.sub),
                Class::Sparse(e) => {
                    if splitmix(&mut s) % 10 == 0 {
                        unit(&mut s) * pow2(cl(e))
                    } else {
                        0.0
                    }
                }
            };
            v.clamp(-info.maxv, info.maxv)
        })
        .collect()
}

fn gen_vec<T: Elem>(class: Class, len: usize, seed: u64, which: u64) -> Vec<T> {
    gen_raw(T::TY, class, len, seed, which).into_iter().map(T::q).collect()
}

fn apply_rel<T: Elem>(rel: Rel, x: &[T], y: Vec<T>, seed: u64) -> Vec<T> {
    let info = ty_info(T::TY);
    let mut s = seed ^ 0xABCD_EF01;
    match rel {
        Rel::Indep => y,
        Rel::Equal => x.to_vec(),
        Rel::Neg => x.iter().map(|v| T::q(-v.f())).collect(),
        Rel::Near => x.iter().map(|v| T::q((v.f() * (1.0 + unit(&mut s) / 64.0)).clamp(-info.maxv, info.maxv))).collect(),
        Rel::Double => x.iter().map(|v| T::q((v.f() * 2.0).clamp(-info.maxv, info.maxv))).collect(),
    }
}

fn gen_u8(class: Class, len: usize, seed: u64, which: u64) -> Vec<u8> {
    let mut s = seed ^ which.wrapping_mul(0xD1B5_4A32_D192_ED03) ^ 0x8888;
    (0..len)
        .map(|_| {
            let r = splitmix(&mut s);
            match class {
                Class::Zeros => 0,
                Class::Huge(_) | Class::Const(_) => 255,
                Class::Ints(m) => (r % (m as u64 + 1)) as u8,
                Class::Sparse(_) | Class::SignedZeros => {
                    if r % 10 == 0 {
                        (r >> 8) as u8
                    } else {
                        0
                    }
                }
                Class::Denormal => (r & 1) as u8,
                _ => (r >> 8) as u8,
            }
        })
        .collect()
}

// ---------------------------------------------------------------------------
// kernel models

fn f64s<T: Elem>(x: &[T]) -> Vec<f64> {
    x.iter().map(|v| v.f()).collect()
}

fn wide<T: Elem>(q: QR) -> QR {
    if T::WIDE {
        cast32(q?)
    } else {
        q
    }
}

fn m_dot<T: Elem>(x: &[f64], y: &[f64]) -> QR {
    wide::<T>(sumprod_q(x, y, 0, 0.0, T::ACC, false))
}

fn m_l2<T: Elem>(x: &[f64], y: &[f64]) -> QR {
    // diff = fl(x - y) enters the square twice: two extra roundings per term; the f64 reference
    // difference carries one f64 rounding (twice in the square)
    let d: Vec<f64> = x.iter().zip(y).map(|(a, b)| a - b).collect();
    wide::<T>(sumprod_q(&d, &d, 2, 4.5e-16, T::ACC, true))
}

fn m_norm<T: Elem>(x: &[f64]) -> QR {
    let ss = sumprod_q(x, x, 0, 0.0, T::ACC, true)?;
    wide::<T>(sqrt_q(ss, T::ACC))
}

/// inside a composite formula a certain overflow is just "cannot bound"
fn inner(q: QR) -> QR {
    match q {
        Err(Why::CertainInf(_)) => Err(Why::Overflow),
        o => o,
    }
}

fn m_dotdist<T: Elem>(x: &[f64], y: &[f64]) -> QR {
    one_minus_q(inner(m_dot::<T>(x, y))?, P32)
}

fn m_cos<T: Elem>(x: &[f64], y: &[f64]) -> QR {
    let xn = inner(m_norm::<T>(x))?;
    if T::F32FAST {
        // y_norm = S16 + S8 + norm_l2(tail)^2 : sqrt (twice in the square) + powi + two joins
        let yy = inner(sumprod_q(y, y, 5, 0.0, P32, true))?;
        let xy = sumprod_q(x, y, 2, 0.0, P32, false)?;
        let r = div_q(div_q(xy, xn, P32)?, sqrt_q(yy, P32)?, P32)?;
        one_minus_q(r, P32)
    } else {
        // cosine_scalar: 1 - xy / (x_norm * sqrt(dot(y, y)))
        let yy = inner(m_dot::<T>(y, y))?;
        let xy = inner(m_dot::<T>(x, y))?;
        let den = mul_q(xn, sqrt_q(yy, P32)?, P32)?;
        one_minus_q(div_q(xy, den, P32)?, P32)
    }
}

fn m_cos_norms<T: Elem>(x: &[f64], y: &[f64]) -> QR {
    let xn = inner(m_norm::<T>(x))?;
    let yn = inner(m_norm::<T>(y))?;
    if T::F32FAST {
        let xy = sumprod_q(x, y, 2, 0.0, P32, false)?;
        one_minus_q(div_q(div_q(xy, xn, P32)?, yn, P32)?, P32)
    } else {
        let xy = inner(m_dot::<T>(x, y))?;
        one_minus_q(div_q(xy, mul_q(xn, yn, P32)?, P32)?, P32)
    }
}

/// `norm_squared_fsl`: sum of v*v per row, in the arithmetic of the element type.
/// f32: f32 products and sum; f64: f64 then cast; f16 (as compiled here, `half` without native
/// fp16 arithmetic): every product is rounded to f16, the sum runs in f32 and is rounded to f16
/// at the end.  The bound follows exactly that; exceeding the f16 range is "overflow possible".
fn m_normsq<T: Elem>(y: &[f64]) -> QR {
    match T::TY {
        Ty::F16 => {
            const U16: f64 = 4.882_812_5e-4; // 2^-11
            const ETA16: f64 = 5.960_464_477_539_063e-8; // 2^-24
            let n = y.len();
            let (s, abs) = dot2(y, y);
            let g = gamma(n.max(1), P32.u)?;
            let maxterm = y.iter().fold(0.0f64, |m, v| m.max(v * v));
            if maxterm * (1.0 + U16) >= 65504.0 || s * (1.0 + 2.0 * U16 + g) * 1.001 >= 65504.0 {
                return Err(Why::Overflow);
            }
            let rel = ((1.0 + U16) * (1.0 + g) * (1.0 + U16) - 1.0) * 1.000_001;
            Ok(Q { v: s, e: rel * abs + (n as f64 + 1.0) * ETA16 * (1.0 + g) + 4.5e-16 * abs })
        }
        _ => wide::<T>(sumprod_q(y, y, 0, 0.0, T::ACC, true)),
    }
}

fn cos_vacuous(q: QR) -> QR {
    // cosine distance lives in [0, 2]; a bound >= 0.5 says nothing
    match q {
        Ok(q) if q.e >= 0.5 => Err(Why::Vacuous),
        o => o,
    }
}

fn why_str(w: Why) -> &'static str {
    match w {
        Why::Overflow => "overflow-possible",
        Why::CertainInf(_) => "certain-inf",
        Why::Singular => "zero-denominator",
        Why::Vacuous => "vacuous",
    }
}

/// Compare one kernel output with its model.  `path` in {single, batch, arrow, ...}.
fn judge(path: &str, metric: &str, ctx: &dyn Fn() -> String, got: f32, exp: &QR, obs: &mut Obs) -> CheckResult {
    obs.inner += 1;
    match exp {
        Ok(q) => {
            obs.label(format!("{metric}:checked"));
            let g = got as f64;
            // how much of the derived bound is used (shows that the bound is not vacuous)
            let used = (g - q.v).abs() / q.e;
            if used.is_finite() {
                obs.label(format!(
                    "{metric}:bound-used-{}",
                    if used == 0.0 {
                        "0"
                    } else if used < 1e-3 {
                        "<1e-3"
                    } else if used < 1e-2 {
                        "<1e-2"
                    } else if used < 1e-1 {
                        "<1e-1"
                    } else if used < 0.5 {
                        "<0.5"
                    } else {
                        "<=1"
                    }
                ));
            }
            if got.is_nan() || !((g - q.v).abs() <= q.e) {
                fail!(
                    format!("{path}-{metric}"),
                    "{}: {path} {metric} = {got:e} but the f64 definition gives {:e}; |diff| = {:e} exceeds the derived bound {:e} ({:.1} x)",
                    ctx(),
                    q.v,
                    (g - q.v).abs(),
                    q.e,
                    (g - q.v).abs() / q.e
                );
            }
            Ok(())
        }
        Err(Why::CertainInf(pos)) => {
            obs.label(format!("{metric}:expect-inf"));
            if !(got.is_infinite() && (got > 0.0) == *pos) {
                fail!(format!("{path}-{metric}-inf"), "{}: {path} {metric} = {got:e} but the value certainly exceeds the f32 range (expected {}inf)", ctx(), if *pos { "+" } else { "-" });
            }
            Ok(())
        }
        Err(w) => {
            obs.label(format!("{metric}:skip-{}", why_str(*w)));
            Ok(())
        }
    }
}

// ---------------------------------------------------------------------------
// vector cases

fn fsl_of(values: ArrayRef, dt: DataType, dim: usize, rows: usize, nulls: &[bool], sliced: bool) -> Result<FixedSizeListArray, String> {
    // nulls[j] == true => row j is null.  If sliced, `values` holds rows+2 rows and rows 1..=rows are used.
    let total_rows = if sliced { rows + 2 } else { rows };
    let mut valid: Vec<bool> = Vec::with_capacity(total_rows);
    if sliced {
        valid.push(false);
    }
    valid.extend(nulls.iter().map(|n| !*n));
    if sliced {
        valid.push(true);
    }
    let nb = if valid.iter().all(|v| *v) { None } else { Some(NullBuffer::from(valid)) };
    let fsl = FixedSizeListArray::try_new(Arc::new(Field::new("item", dt, true)), dim as i32, values, nb).map_err(|e| e.to_string())?;
    Ok(if sliced { fsl.slice(1, rows) } else { fsl })
}

fn check_arrow_out(path: &str, metric: &str, out: &Float32Array, nulls: &[bool], ctx: &dyn Fn() -> String) -> CheckResult {
    ensure!(out.len() == nulls.len(), format!("{path}-{metric}-len"), "{}: {} distances for {} rows", ctx(), out.len(), nulls.len());
    for (j, n) in nulls.iter().enumerate() {
        ensure!(out.is_null(j) == *n, format!("{path}-{metric}-nulls"), "{}: row {j}: null in = {n}, null out = {}", ctx(), out.is_null(j));
    }
    Ok(())
}

fn check_vec<T: Elem>(c: &VecCase, obs: &mut Obs) -> CheckResult {
    let n = c.len as usize;
    let nb = (c.nb as usize).clamp(1, 4);
    let x: Vec<T> = gen_vec::<T>(c.cx, n, c.seed, 0);
    let mut ys: Vec<Vec<T>> = (0..nb).map(|j| gen_vec::<T>(c.cy, n, c.seed, j as u64 + 1)).collect();
    ys[0] = apply_rel::<T>(c.rel, &x, std::mem::take(&mut ys[0]), c.seed);
    let xf = f64s(&x);
    let yfs: Vec<Vec<f64>> = ys.iter().map(|y| f64s(y)).collect();
    let base = format!("{} len {} x={:?} y={:?} rel={:?}", T::NAME, n, c.cx, c.cy, c.rel);

    let exp_norm = m_norm::<T>(&xf);
    judge("single", "norm", &|| base.clone(), norm_l2(&x), &exp_norm, obs)?;

    let mut exp_l2 = vec![];
    let mut exp_dd = vec![];
    let mut exp_cos = vec![];
    for (j, y) in ys.iter().enumerate() {
        let yf = &yfs[j];
        let ctx = || format!("{base} vector #{j}");
        let e_l2 = m_l2::<T>(&xf, yf);
        let e_dot = m_dot::<T>(&xf, yf);
        let e_dd = m_dotdist::<T>(&xf, yf);
        let e_cos = cos_vacuous(m_cos::<T>(&xf, yf));
        let e_cosn = cos_vacuous(m_cos_norms::<T>(&xf, yf));
        judge("single", "l2", &ctx, l2(&x, y), &e_l2, obs)?;
        judge("single", "l2", &ctx, DistanceType::L2.func::<T>()(&x, y), &e_l2, obs)?;
        judge("single", "dot", &ctx, dot(&x, y), &e_dot, obs)?;
        judge("single", "dotdist", &ctx, dot_distance(&x, y), &e_dd, obs)?;
        judge("single", "dotdist", &ctx, DistanceType::Dot.func::<T>()(&x, y), &e_dd, obs)?;
        judge("single", "cosine", &ctx, cosine_distance(&x, y), &e_cos, obs)?;
        judge("single", "cosine", &ctx, DistanceType::Cosine.func::<T>()(&x, y), &e_cos, obs)?;
        // norms "already known": the documented way to get them is norm_l2
        let (xn, yn) = (norm_l2(&x), norm_l2(y));
        if xn.is_finite() && yn.is_finite() {
            judge("single", "cosine-with-norms", &ctx, T::cosine_with_norms(&x, xn, yn, y), &e_cosn, obs)?;
        }
        // symmetric arguments: l2 and dot are symmetric in the definition
        judge("single", "l2", &ctx, l2(y, &x), &e_l2, obs)?;
        judge("single", "dot", &ctx, dot(y, &x), &e_dot, obs)?;
        exp_l2.push(e_l2);
        exp_dd.push(e_dd);
        exp_cos.push(e_cos);
    }

    if n >= 1 {
        // batch helpers: documented preconditions from.len() == dimension, to.len() % dimension == 0
        let flat: Vec<T> = ys.iter().flat_map(|y| y.iter().copied()).collect();
        let got: Vec<f32> = l2_distance_batch(&x, &flat, n).collect();
        ensure!(got.len() == nb, "batch-l2-len", "{base}: {} distances for {nb} vectors", got.len());
        for j in 0..nb {
            judge("batch", "l2", &|| format!("{base} vector #{j}"), got[j], &exp_l2[j], obs)?;
        }
        let got: Vec<f32> = T::l2_batch(&x, &flat, n).collect();
        for j in 0..nb {
            judge("batch", "l2", &|| format!("{base} vector #{j} (L2::l2_batch)"), got[j], &exp_l2[j], obs)?;
        }
        let got: Vec<f32> = dot_distance_batch(&x, &flat, n).collect();
        ensure!(got.len() == nb, "batch-dotdist-len", "{base}: {} distances for {nb} vectors", got.len());
        for j in 0..nb {
            judge("batch", "dotdist", &|| format!("{base} vector #{j}"), got[j], &exp_dd[j], obs)?;
        }
        let got: Vec<f32> = cosine_distance_batch(&x, &flat, n).collect();
        ensure!(got.len() == nb, "batch-cosine-len", "{base}: {} distances for {nb} vectors", got.len());
        for j in 0..nb {
            judge("batch", "cosine", &|| format!("{base} vector #{j}"), got[j], &exp_cos[j], obs)?;
        }

        // Arrow batch helpers (no Arrow type for bf16)
        if let Some(dt) = T::dt() {
            let nulls: Vec<bool> = (0..nb).map(|j| c.nulls >> j & 1 == 1).collect();
            let mut vals: Vec<T> = vec![];
            if c.sliced {
                // a leading row that must not be looked at (it is NaN and null)
                vals.extend(std::iter::repeat(T::nan()).take(n));
            }
            vals.extend(flat.iter().copied());
            if c.sliced {
                vals.extend(std::iter::repeat(T::q(1.0)).take(n));
            }
            let fsl = match fsl_of(T::arrow(vals).unwrap(), dt, n, nb, &nulls, c.sliced) {
                Ok(f) => f,
                Err(e) => fail!("harness-fsl", "cannot build FixedSizeList: {e}"),
            };
            let from = T::arrow(x.clone()).unwrap();
            if nulls.iter().any(|n| *n) {
                obs.label("arrow:null-rows");
            }
            if c.sliced {
                obs.label("arrow:sliced");
            }
            // squared norms of the rows (null rows are computed like any other)
            let nsq = norm_squared_fsl(&fsl);
            ensure!(nsq.len() == nb, "arrow-normsq-len", "{base}: {} squared norms for {nb} rows", nsq.len());
            for j in 0..nb {
                let e = m_normsq::<T>(&yfs[j]);
                if T::TY == Ty::F16 && matches!(e, Err(Why::Overflow)) && m_norm::<T>(&yfs[j]).is_ok() {
                    // the f32 result type and norm_l2::<f16> can hold the value; the f16 arithmetic of this helper cannot
                    obs.label("normsq:f16-arithmetic-overflows-but-f32-result-representable");
                }
                judge("arrow", "normsq", &|| format!("{base} row #{j} sliced={}", c.sliced), nsq[j], &e, obs)?;
            }
            for (metric, dtp, exps) in [("l2", DistanceType::L2, &exp_l2), ("dotdist", DistanceType::Dot, &exp_dd), ("cosine", DistanceType::Cosine, &exp_cos)] {
                let out = match dtp.arrow_batch_func()(from.as_ref(), &fsl) {
                    Ok(o) => o,
                    Err(e) => fail!(format!("arrow-{metric}-error"), "{base}: {e}"),
                };
                check_arrow_out("arrow", metric, &out, &nulls, &|| base.clone())?;
                for j in 0..nb {
                    if !nulls[j] {
                        judge("arrow", metric, &|| format!("{base} row #{j} nulls={nulls:?} sliced={}", c.sliced), out.value(j), &exps[j], obs)?;
                    }
                }
            }
        }
    }

    obs.label(format!("ty:{}", T::NAME));
    obs.label(format!("x:{}", class_kind(&c.cx)));
    obs.label(format!("y:{}", if c.rel == Rel::Indep { class_kind(&c.cy).to_string() } else { format!("{:?}", c.rel) }));
    classify_len(n, obs);
    if n > 16 && n % 8 != 0 {
        obs.nontrivial(format!("{}|{}|{}|{}|{:?}", T::NAME, n, class_kind(&c.cx), class_kind(&c.cy), c.rel));
    }
    Ok(())
}

fn classify_len(n: usize, obs: &mut Obs) {
    obs.label(match n {
        0 => "len:0",
        1..=7 => "len:1-7",
        8..=16 => "len:8-16",
        _ if n % 16 == 0 => "len:>16,multiple-of-16",
        _ if n % 8 == 0 => "len:>16,multiple-of-8",
        _ => "len:>16,with-tail",
    });
}

fn exact_f32(v: u64) -> f32 {
    // u64 -> f32 conversion is correctly rounded, like the kernels' `u32 as f32`
    v as f32
}

fn check_vec_u8(c: &VecCase, obs: &mut Obs) -> CheckResult {
    let n = c.len as usize;
    let nb = (c.nb as usize).clamp(1, 4);
    let x = gen_u8(c.cx, n, c.seed, 0);
    let mut ys: Vec<Vec<u8>> = (0..nb).map(|j| gen_u8(c.cy, n, c.seed, j as u64 + 1)).collect();
    match c.rel {
        Rel::Equal => ys[0] = x.clone(),
        Rel::Neg => ys[0] = x.iter().map(|v| !*v).collect(),
        Rel::Near => ys[0] = x.iter().map(|v| v ^ 1).collect(),
        Rel::Double => ys[0] = x.iter().map(|v| v.saturating_mul(2)).collect(),
        Rel::Indep => {}
    }
    let base = format!("u8 len {n} x={:?} y={:?} rel={:?}", c.cx, c.cy, c.rel);
    let xf: Vec<f64> = x.iter().map(|v| *v as f64).collect();
    let mut exp_l2 = vec![];
    let mut exp_dot = vec![];
    let mut exp_ham = vec![];
    let mut exp_cos = vec![];
    for (j, y) in ys.iter().enumerate() {
        let l2e: u64 = x.iter().zip(y).map(|(a, b)| (*a as i64 - *b as i64).pow(2) as u64).sum();
        let dote: u64 = x.iter().zip(y).map(|(a, b)| *a as u64 * *b as u64).sum();
        let hame: u64 = x.iter().zip(y).map(|(a, b)| (a ^ b).count_ones() as u64).sum();
        obs.inner += 4;
        let got = l2(&x, y);
        ensure!(got.to_bits() == exact_f32(l2e).to_bits(), "single-u8-l2", "{base} vector #{j}: l2 = {got} but the exact sum is {l2e}");
        let got = dot(&x, y);
        ensure!(got.to_bits() == exact_f32(dote).to_bits(), "single-u8-dot", "{base} vector #{j}: dot = {got} but the exact sum is {dote}");
        let got = hamming(&x, y);
        ensure!(got.to_bits() == exact_f32(hame).to_bits(), "single-hamming", "{base} vector #{j}: hamming = {got} but the exact count is {hame}");
        let got = hamming_scalar(&x, y);
        ensure!(got.to_bits() == exact_f32(hame).to_bits(), "single-hamming-scalar", "{base} vector #{j}: hamming_scalar = {got} but the exact count is {hame}");
        // dot_distance = 1 - dot, one f32 rounding of an exact value
        let dd = one_minus_q(Q { v: exact_f32(dote) as f64, e: 0.0 }, P32);
        judge("single", "u8-dotdist", &|| format!("{base} vector #{j}"), dot_distance(&x, y), &dd, obs)?;
        // cosine (generic path): 1 - dot(x,y) / (norm_l2(x) * sqrt(dot(y,y))), dot exact then rounded to f32
        let yy: u64 = y.iter().map(|a| *a as u64 * *a as u64).sum();
        let cosq: QR = (|| -> QR {
            let xn = sqrt_q(sumprod_q(&xf, &xf, 0, 0.0, P32, true)?, P32)?;
            let yyq = Q { v: exact_f32(yy) as f64, e: 0.0 };
            let xyq = Q { v: exact_f32(dote) as f64, e: 0.0 };
            let den = mul_q(xn, sqrt_q(yyq, P32)?, P32)?;
            one_minus_q(div_q(xyq, den, P32)?, P32)
        })();
        let cosq = cos_vacuous(cosq);
        judge("single", "u8-cosine", &|| format!("{base} vector #{j}"), cosine_distance(&x, y), &cosq, obs)?;
        exp_l2.push(exact_f32(l2e));
        exp_dot.push(dd);
        exp_ham.push(exact_f32(hame));
        exp_cos.push(cosq);
    }
    let nq = sumprod_q(&xf, &xf, 0, 0.0, P32, true).and_then(|s| sqrt_q(s, P32));
    judge("single", "u8-norm", &|| base.clone(), norm_l2(&x), &nq, obs)?;

    if n >= 1 {
        let flat: Vec<u8> = ys.iter().flat_map(|y| y.iter().copied()).collect();
        let got: Vec<f32> = l2_distance_batch(&x, &flat, n).collect();
        ensure!(got.len() == nb, "batch-u8-l2-len", "{base}: {} distances", got.len());
        for j in 0..nb {
            obs.inner += 1;
            ensure!(got[j].to_bits() == exp_l2[j].to_bits(), "batch-u8-l2", "{base} vector #{j}: batch l2 {} vs exact {}", got[j], exp_l2[j]);
        }
        let got: Vec<f32> = dot_distance_batch(&x, &flat, n).collect();
        for j in 0..nb {
            judge("batch", "u8-dotdist", &|| format!("{base} vector #{j}"), got[j], &exp_dot[j], obs)?;
        }
        let got: Vec<f32> = cosine_distance_batch(&x, &flat, n).collect();
        for j in 0..nb {
            judge("batch", "u8-cosine", &|| format!("{base} vector #{j}"), got[j], &exp_cos[j], obs)?;
        }
        let got: Vec<f32> = hamming_distance_batch(&x, &flat, n).collect();
        ensure!(got.len() == nb, "batch-hamming-len", "{base}: {} distances", got.len());
        for j in 0..nb {
            obs.inner += 1;
            ensure!(got[j].to_bits() == exp_ham[j].to_bits(), "batch-hamming", "{base} vector #{j}: batch hamming {} vs exact {}", got[j], exp_ham[j]);
        }
        // Arrow
        let nulls: Vec<bool> = (0..nb).map(|j| c.nulls >> j & 1 == 1).collect();
        let mut vals: Vec<u8> = vec![];
        if c.sliced {
            vals.extend(std::iter::repeat(0xA5u8).take(n));
        }
        vals.extend(flat.iter().copied());
        if c.sliced {
            vals.extend(std::iter::repeat(0x5Au8).take(n));
        }
        let fsl = match fsl_of(Arc::new(UInt8Array::from(vals)), DataType::UInt8, n, nb, &nulls, c.sliced) {
            Ok(f) => f,
            Err(e) => fail!("harness-fsl", "cannot build FixedSizeList: {e}"),
        };
        let from = UInt8Array::from(x.clone());
        for f in [hamming_distance_arrow_batch as lance_linalg::distance::ArrowBatchDistanceFunc, DistanceType::Hamming.arrow_batch_func()] {
            let out = match f(&from, &fsl) {
                Ok(o) => o,
                Err(e) => fail!("arrow-hamming-error", "{base}: {e}"),
            };
            check_arrow_out("arrow", "hamming", &out, &nulls, &|| base.clone())?;
            for j in 0..nb {
                obs.inner += 1;
                if !nulls[j] {
                    ensure!(out.value(j).to_bits() == exp_ham[j].to_bits(), "arrow-hamming", "{base} row #{j} (nulls {nulls:?}, sliced {}): {} vs exact {}", c.sliced, out.value(j), exp_ham[j]);
                }
            }
        }
        if nulls.iter().any(|n| *n) {
            obs.label("arrow:null-rows");
        }
        if c.sliced {
            obs.label("arrow:sliced");
        }
    }
    obs.label("ty:u8");
    obs.label("u8:exact-checked");
    obs.label(format!("x:{}", class_kind(&c.cx)));
    classify_len(n, obs);
    if n > 16 && n % 8 != 0 {
        obs.nontrivial(format!("u8|{}|{}|{}|{:?}", n, class_kind(&c.cx), class_kind(&c.cy), c.rel));
    }
    Ok(())
}

// ---------------------------------------------------------------------------
// nearest centroid

/// chosen must be a centroid whose distance cannot be shown to exceed the minimum.
fn judge_choice(what: &str, ctx: &str, chosen: Option<u32>, dists: &[Option<QR>], obs: &mut Obs) -> CheckResult {
    // dists[i] = None: distance is NaN by definition (NaN element); Some(Err): cannot bound
    obs.inner += 1;
    if dists.iter().any(|d| matches!(d, Some(Err(_)))) {
        obs.label("near:skip-unbounded-distance");
        return Ok(());
    }
    let valid: Vec<(usize, Q)> = dists.iter().enumerate().filter_map(|(i, d)| d.as_ref().map(|q| (i, *q.as_ref().unwrap()))).collect();
    match chosen {
        None => {
            ensure!(valid.is_empty(), format!("{what}-none"), "{ctx}: no centroid chosen although {} centroids have a finite distance (e.g. #{} at {:e})", valid.len(), valid[0].0, valid[0].1.v);
            obs.label("near:all-nan->none");
        }
        Some(c) => {
            let c = c as usize;
            ensure!(c < dists.len(), format!("{what}-range"), "{ctx}: centroid {c} of {}", dists.len());
            let Some(Ok(qc)) = &dists[c] else {
                fail!(format!("{what}-nan-wins"), "{ctx}: centroid #{c} has a NaN distance and was chosen ({} centroids have finite distances)", valid.len());
            };
            let best = valid.iter().map(|(_, q)| q.v + q.e).fold(f64::INFINITY, f64::min);
            if !(qc.v - qc.e <= best) {
                let (bi, bq) = valid.iter().min_by(|a, b| a.1.v.partial_cmp(&b.1.v).unwrap()).unwrap();
                fail!(format!("{what}-not-minimal"), "{ctx}: chose centroid #{c} at distance {:e} (+-{:e}) but centroid #{bi} is at {:e} (+-{:e})", qc.v, qc.e, bq.v, bq.e);
            }
            if valid.iter().filter(|(_, q)| (q.v - qc.v).abs() <= q.e + qc.e).count() > 1 {
                obs.label("near:tie-within-bound");
            }
        }
    }
    Ok(())
}

fn check_near<T: Elem>(c: &NearCase, obs: &mut Obs) -> CheckResult {
    let dim = (c.dim as usize).max(1);
    let k = (c.k as usize).max(1);
    let nvec = (c.nvec as usize).max(1);
    let dt = if c.dot { DistanceType::Dot } else { DistanceType::L2 };
    let mut cents: Vec<Vec<T>> = (0..k).map(|i| gen_vec::<T>(c.cc, dim, c.seed, 100 + i as u64)).collect();
    let mut vecs: Vec<Vec<T>> = (0..nvec).map(|j| gen_vec::<T>(c.cv, dim, c.seed, 1000 + j as u64)).collect();
    if let Some((a, b)) = c.dup {
        let (a, b) = (idx(a, k), idx(b, k));
        cents[b] = cents[a].clone();
    }
    if let Some(h) = c.hit {
        vecs[0] = cents[idx(h, k)].clone();
    }
    let mut cnan = vec![false; k];
    for f in &c.nan_centroids {
        let i = idx(*f, k);
        cnan[i] = true;
        let pos = idx(f.wrapping_mul(31), dim);
        cents[i][pos] = T::nan();
    }
    let mut vnan = vec![false; nvec];
    for f in &c.nan_vectors {
        let j = idx(*f, nvec);
        vnan[j] = true;
        let pos = idx(f.wrapping_mul(17), dim);
        vecs[j][pos] = T::nan();
    }
    let flat_c: Vec<T> = cents.iter().flat_map(|v| v.iter().copied()).collect();
    let flat_v: Vec<T> = vecs.iter().flat_map(|v| v.iter().copied()).collect();
    let cf: Vec<Vec<f64>> = cents.iter().map(|v| f64s(v)).collect();
    let base = format!("{} {} dim {dim} k {k} centroids={:?} vectors={:?}", T::NAME, if c.dot { "dot" } else { "l2" }, c.cc, c.cv);

    // reference distances
    let mut all: Vec<Vec<Option<QR>>> = vec![];
    for (j, v) in vecs.iter().enumerate() {
        let vf = f64s(v);
        let d: Vec<Option<QR>> = (0..k)
            .map(|i| {
                if cnan[i] || vnan[j] {
                    None
                } else if c.dot {
                    Some(m_dotdist::<T>(&vf, &cf[i]))
                } else {
                    Some(m_l2::<T>(&vf, &cf[i]))
                }
            })
            .collect();
        all.push(d);
    }

    for (j, v) in vecs.iter().enumerate() {
        let ctx = format!("{base} vector #{j} (nan centroids {:?}, nan vector {})", cnan.iter().enumerate().filter(|(_, n)| **n).map(|(i, _)| i).collect::<Vec<_>>(), vnan[j]);
        // 1. compute_partition
        let chosen = T::partition(&flat_c, v, dt);
        judge_choice("compute-partition", &ctx, chosen, &all[j], obs)?;
        // 2. kmeans_find_partitions
        let nprobes = (c.nprobes as usize).clamp(1, k);
        match T::find_partitions(&flat_c, v, nprobes, dt) {
            Err(e) => fail!("find-partitions-error", "{ctx}: {e}"),
            Ok((ids, ds)) => {
                ensure!(ids.len() == nprobes && ds.len() == nprobes, "find-partitions-len", "{ctx}: {} ids / {} dists for nprobes {nprobes}", ids.len(), ds.len());
                let mut seen = std::collections::BTreeSet::new();
                for id in &ids {
                    ensure!((*id as usize) < k && seen.insert(*id), "find-partitions-ids", "{ctx}: ids {ids:?} out of range or repeated");
                }
                let unbounded = all[j].iter().any(|d| matches!(d, Some(Err(_))));
                if !unbounded {
                    let nvalid = all[j].iter().filter(|d| d.is_some()).count();
                    for (p, (id, d)) in ids.iter().zip(ds.iter()).enumerate() {
                        let id = *id as usize;
                        obs.inner += 1;
                        match &all[j][id] {
                            None => {
                                // a NaN distance may only appear after every finite one
                                ensure!(p >= nvalid, "find-partitions-nan-rank", "{ctx}: centroid #{id} with a NaN distance is ranked {p} although {nvalid} centroids have finite distances");
                                ensure!(d.is_nan(), "find-partitions-nan-dist", "{ctx}: NaN centroid #{id} reported with distance {d}");
                            }
                            Some(Ok(q)) => {
                                ensure!(!d.is_nan() && (*d as f64 - q.v).abs() <= q.e, "find-partitions-dist", "{ctx}: centroid #{id} reported at {d:e}, definition {:e} +- {:e}", q.v, q.e);
                                // nothing that was left out, and nothing ranked later, may be certainly closer
                                for (o, od) in all[j].iter().enumerate() {
                                    if let Some(Ok(oq)) = od {
                                        let later = ids.iter().position(|x| *x as usize == o).map(|pp| pp > p).unwrap_or(true);
                                        if later && o != id {
                                            ensure!(q.v - q.e <= oq.v + oq.e, "find-partitions-order", "{ctx}: rank {p} is centroid #{id} at {:e} but centroid #{o} at {:e} is ranked later / left out", q.v, oq.v);
                                        }
                                    }
                                }
                            }
                            Some(Err(_)) => unreachable!(),
                        }
                    }
                } else {
                    obs.label("near:skip-unbounded-distance");
                }
            }
        }
    }

    // 3. compute_partitions over all vectors (primitive arrays) and the Arrow entry points
    if let Some(members) = T::partitions(flat_c.clone(), flat_v.clone(), dim, dt) {
        ensure!(members.len() == nvec, "compute-partitions-len", "{base}: {} memberships for {nvec} vectors", members.len());
        for j in 0..nvec {
            judge_choice("compute-partitions", &format!("{base} vector #{j}"), members[j], &all[j], obs)?;
        }
        let dtp = T::dt().unwrap();
        let cf_arr = FixedSizeListArray::try_new(Arc::new(Field::new("item", dtp.clone(), true)), dim as i32, T::arrow(flat_c.clone()).unwrap(), None).unwrap();
        let vf_arr = FixedSizeListArray::try_new(Arc::new(Field::new("item", dtp, true)), dim as i32, T::arrow(flat_v.clone()).unwrap(), None).unwrap();
        match compute_partitions_arrow_array(&cf_arr, &vf_arr, dt) {
            Err(e) => fail!("partitions-arrow-error", "{base}: {e}"),
            Ok((members, dists)) => {
                ensure!(members.len() == nvec && dists.len() == nvec, "partitions-arrow-len", "{base}: {} / {} outputs for {nvec} vectors", members.len(), dists.len());
                for j in 0..nvec {
                    judge_choice("partitions-arrow", &format!("{base} vector #{j}"), members[j], &all[j], obs)?;
                    if let (Some(m), Some(d)) = (members[j], dists[j]) {
                        if let Some(Some(Ok(q))) = all[j].get(m as usize) {
                            ensure!(!d.is_nan() && (d as f64 - q.v).abs() <= q.e, "partitions-arrow-dist", "{base} vector #{j}: distance to chosen centroid #{m} reported {d:e}, definition {:e} +- {:e}", q.v, q.e);
                        }
                    }
                }
            }
        }
        // Arrow query entry point
        let q0 = T::arrow(vecs[0].clone()).unwrap();
        let nprobes = (c.nprobes as usize).clamp(1, k);
        match kmeans_find_partitions_arrow_array(&cf_arr, q0.as_ref(), nprobes, dt) {
            Err(e) => fail!("find-partitions-arrow-error", "{base}: {e}"),
            Ok((ids, _)) => {
                ensure!(ids.len() == nprobes, "find-partitions-arrow-len", "{base}: {} ids for nprobes {nprobes}", ids.len());
                let first = ids.value(0);
                let nvalid = all[0].iter().filter(|d| d.is_some()).count();
                if nvalid > 0 {
                    judge_choice("find-partitions-arrow", &format!("{base} vector #0"), Some(first), &all[0], obs)?;
                }
            }
        }
    }

    obs.label(format!("near:{}", T::NAME));
    obs.label(if c.dot { "near:dot" } else { "near:l2" });
    if cnan.iter().any(|n| *n) {
        obs.label("near:nan-centroid");
    }
    if cnan.iter().all(|n| *n) {
        obs.label("near:all-centroids-nan");
    }
    if vnan.iter().any(|n| *n) {
        obs.label("near:nan-vector");
    }
    if c.dup.is_some() {
        obs.label("near:duplicate-centroid");
    }
    if k >= 2 {
        obs.nontrivial(format!("near|{}|{}|d{}|k{}|{}|{}|nan{}", T::NAME, c.dot, dim, k, class_kind(&c.cc), class_kind(&c.cv), cnan.iter().filter(|n| **n).count()));
    }
    Ok(())
}

fn check_near_u8(c: &NearCase, obs: &mut Obs) -> CheckResult {
    let dim = (c.dim as usize).max(1);
    let k = (c.k as usize).max(1);
    let nvec = (c.nvec as usize).max(1);
    let mut cents: Vec<Vec<u8>> = (0..k).map(|i| gen_u8(c.cc, dim, c.seed, 100 + i as u64)).collect();
    let mut vecs: Vec<Vec<u8>> = (0..nvec).map(|j| gen_u8(c.cv, dim, c.seed, 1000 + j as u64)).collect();
    if let Some((a, b)) = c.dup {
        let (a, b) = (idx(a, k), idx(b, k));
        cents[b] = cents[a].clone();
    }
    if let Some(h) = c.hit {
        vecs[0] = cents[idx(h, k)].clone();
    }
    let flat_c: Vec<u8> = cents.iter().flatten().copied().collect();
    let flat_v: Vec<u8> = vecs.iter().flatten().copied().collect();
    let base = format!("u8 hamming dim {dim} k {k}");
    let ham = |a: &[u8], b: &[u8]| -> u64 { a.iter().zip(b).map(|(x, y)| (x ^ y).count_ones() as u64).sum() };
    let all: Vec<Vec<u64>> = vecs.iter().map(|v| cents.iter().map(|c| ham(v, c)).collect()).collect();
    let field = Arc::new(Field::new("item", DataType::UInt8, true));
    let c_arr = FixedSizeListArray::try_new(field.clone(), dim as i32, Arc::new(UInt8Array::from(flat_c.clone())), None).unwrap();
    let v_arr = FixedSizeListArray::try_new(field, dim as i32, Arc::new(UInt8Array::from(flat_v)), None).unwrap();
    match compute_partitions_arrow_array(&c_arr, &v_arr, DistanceType::Hamming) {
        Err(e) => fail!("partitions-arrow-error", "{base}: {e}"),
        Ok((members, dists)) => {
            ensure!(members.len() == nvec && dists.len() == nvec, "partitions-arrow-len", "{base}: {} / {} outputs", members.len(), dists.len());
            for j in 0..nvec {
                obs.inner += 1;
                let min = *all[j].iter().min().unwrap();
                let Some(m) = members[j] else { fail!("partitions-arrow-none", "{base} vector #{j}: no centroid chosen, minimum hamming distance {min}") };
                ensure!((m as usize) < k && all[j][m as usize] == min, "partitions-arrow-not-minimal", "{base} vector #{j}: chose #{m} at {:?}, minimum is {min} ({:?})", all[j].get(m as usize), all[j]);
                ensure!(dists[j] == Some(min as f32), "partitions-arrow-dist", "{base} vector #{j}: reported distance {:?}, exact {min}", dists[j]);
            }
        }
    }
    let nprobes = (c.nprobes as usize).clamp(1, k);
    for (j, v) in vecs.iter().enumerate() {
        for which in 0..2 {
            let r = if which == 0 {
                unpack_find(kmeans_find_partitions_binary(&flat_c, v, nprobes, DistanceType::Hamming))
            } else {
                unpack_find(kmeans_find_partitions_arrow_array(&c_arr, &UInt8Array::from(v.clone()), nprobes, DistanceType::Hamming))
            };
            let (ids, ds) = match r {
                Ok(x) => x,
                Err(e) => fail!("find-partitions-error", "{base}: {e}"),
            };
            obs.inner += 1;
            ensure!(ids.len() == nprobes, "find-partitions-len", "{base}: {} ids for nprobes {nprobes}", ids.len());
            let mut sorted = all[j].clone();
            sorted.sort_unstable();
            for (p, (id, d)) in ids.iter().zip(ds.iter()).enumerate() {
                ensure!((*id as usize) < k, "find-partitions-ids", "{base}: id {id}");
                ensure!(all[j][*id as usize] == sorted[p] && *d == sorted[p] as f32, "find-partitions-order", "{base} vector #{j}: rank {p} is centroid #{id} at {} (reported {d}), the {p}-th smallest distance is {}", all[j][*id as usize], sorted[p]);
            }
        }
    }
    obs.label("near:u8");
    obs.label("near:hamming");
    if k >= 2 {
        obs.nontrivial(format!("near|u8|d{dim}|k{k}|{}|{}", class_kind(&c.cc), class_kind(&c.cv)));
    }
    Ok(())
}

// ---------------------------------------------------------------------------
// argmin helpers

fn argval(a: &ArgVal) -> Option<f32> {
    match a {
        ArgVal::Num(v) => Some(*v as f32 / 8.0),
        ArgVal::Nan => Some(f32::NAN),
        ArgVal::PosInf => Some(f32::INFINITY),
        ArgVal::NegInf => Some(f32::NEG_INFINITY),
        ArgVal::Missing => None,
    }
}

fn check_argmin(vals: &[ArgVal], obs: &mut Obs) -> CheckResult {
    let opt: Vec<Option<f32>> = vals.iter().map(argval).collect();
    let dense: Vec<f32> = opt.iter().flatten().copied().collect();
    // The documented contract: index of the minimum; None if empty or all NaN / Inf.
    let judge_min = |what: &str, got: Option<(u32, Option<f32>)>, list: &[Option<f32>], obs: &mut Obs| -> CheckResult {
        obs.inner += 1;
        let cands: Vec<(usize, f32)> = list.iter().enumerate().filter_map(|(i, v)| v.filter(|x| !x.is_nan()).map(|x| (i, x))).collect();
        // +inf never counts as a distance (documented); -inf is an ordinary minimum
        let finite_or_neg: Vec<(usize, f32)> = cands.iter().copied().filter(|(_, v)| *v < f32::INFINITY).collect();
        match got {
            None => ensure!(finite_or_neg.is_empty(), format!("{what}-none"), "{what}({list:?}) = None although {:?} is a candidate", finite_or_neg.first()),
            Some((i, val)) => {
                let i = i as usize;
                let Some(Some(v)) = list.get(i) else { fail!(format!("{what}-index"), "{what}({list:?}) = {i}: not an element") };
                ensure!(!v.is_nan(), format!("{what}-nan-wins"), "{what}({list:?}) = {i}, a NaN");
                ensure!(cands.iter().all(|(_, c)| v <= c), format!("{what}-not-minimal"), "{what}({list:?}) = {i} ({v}) is not minimal");
                if let Some(val) = val {
                    ensure!(val.to_bits() == v.to_bits() || val == *v, format!("{what}-value"), "{what}({list:?}) returned value {val} for index {i} holding {v}");
                }
            }
        }
        Ok(())
    };
    let dense_opt: Vec<Option<f32>> = dense.iter().map(|v| Some(*v)).collect();
    judge_min("argmin_value_float", argmin_value_float(dense.iter().copied()).map(|(i, v)| (i, Some(v))), &dense_opt, obs)?;
    judge_min("argmin", argmin(dense.iter().copied()).map(|i| (i, None)), &dense_opt, obs)?;
    judge_min("argmin_value", argmin_value(dense.iter().copied()).map(|(i, v)| (i, Some(v))), &dense_opt, obs)?;
    judge_min("argmin_opt", argmin_opt(opt.iter().copied()).map(|i| (i, None)), &opt, obs)?;
    // argmax: mirror image
    obs.inner += 1;
    let got = argmax(dense.iter().copied());
    let cands: Vec<f32> = dense.iter().copied().filter(|v| !v.is_nan()).collect();
    match got {
        None => ensure!(cands.iter().all(|v| *v == f32::NEG_INFINITY), "argmax-none", "argmax({dense:?}) = None"),
        Some(i) => {
            let v = dense[i as usize];
            ensure!(!v.is_nan() && cands.iter().all(|c| v >= *c), "argmax-not-maximal", "argmax({dense:?}) = {i} ({v})");
        }
    }
    obs.label("argmin:list");
    if vals.iter().any(|v| matches!(v, ArgVal::Nan)) {
        obs.label("argmin:has-nan");
    }
    if dense.iter().all(|v| v.is_nan() || v.is_infinite()) {
        obs.label("argmin:no-finite");
    }
    if dense.len() >= 2 && dense.iter().any(|v| v.is_nan()) && dense.iter().any(|v| v.is_finite()) {
        obs.nontrivial(format!("argmin|{}|{:?}", dense.len(), vals.iter().map(|v| std::mem::discriminant(v)).collect::<Vec<_>>()));
    }
    Ok(())
}

// ---------------------------------------------------------------------------
// strategies

fn exp_strategy() -> impl Strategy<Value = i16> {
    prop_oneof![4 => -20i16..20, 3 => -160i16..130, 1 => -1080i16..510]
}

fn class_strategy() -> impl Strategy<Value = Class> {
    prop_oneof![
        6 => Just(Class::Unit),
        5 => exp_strategy().prop_map(Class::Scaled),
        1 => (40i16..510).prop_map(Class::Huge),
        4 => (exp_strategy(), exp_strategy()).prop_map(|(a, b)| Class::MixedExp(a, b)),
        1 => Just(Class::Zeros),
        1 => Just(Class::SignedZeros),
        2 => exp_strategy().prop_map(Class::Const),
        2 => (1u8..=100).prop_map(Class::Ints),
        1 => Just(Class::Denormal),
        1 => exp_strategy().prop_map(Class::Sparse),
    ]
}

fn moderate_class_strategy() -> impl Strategy<Value = Class> {
    prop_oneof![
        5 => Just(Class::Unit),
        3 => (-12i16..12).prop_map(Class::Scaled),
        2 => (-8i16..0, 0i16..8).prop_map(|(a, b)| Class::MixedExp(a, b)),
        2 => (1u8..=4).prop_map(Class::Ints),
        1 => (-4i16..4).prop_map(Class::Const),
        1 => (-4i16..4).prop_map(Class::Sparse),
        1 => Just(Class::SignedZeros),
    ]
}

fn ty_strategy() -> impl Strategy<Value = Ty> {
    prop_oneof![Just(Ty::F16), Just(Ty::BF16), Just(Ty::F32), Just(Ty::F64), Just(Ty::U8)]
}

fn rel_strategy() -> impl Strategy<Value = Rel> {
    prop_oneof![6 => Just(Rel::Indep), 2 => Just(Rel::Equal), 1 => Just(Rel::Neg), 2 => Just(Rel::Near), 1 => Just(Rel::Double)]
}

fn len_strategy() -> impl Strategy<Value = u16> {
    prop_oneof![8 => 0u16..=1100, 1 => 0u16..40, 1 => prop_oneof![Just(8u16), Just(16), Just(17), Just(24), Just(31), Just(33), Just(63), Just(64), Just(65), Just(1024), Just(1100)]]
}

fn vec_strategy() -> impl Strategy<Value = VecCase> {
    (ty_strategy(), len_strategy(), class_strategy(), class_strategy(), rel_strategy(), any::<u64>(), 1u8..=4, prop_oneof![2 => Just(0u8), 3 => 0u8..16], prop::bool::weighted(0.3))
        .prop_map(|(ty, len, cx, cy, rel, seed, nb, nulls, sliced)| VecCase { ty, len, cx, cy, rel, seed, nb, nulls, sliced })
}

fn near_strategy() -> impl Strategy<Value = NearCase> {
    (
        (ty_strategy(), prop_oneof![3 => 1u16..40, 2 => 40u16..200, 1 => 200u16..1100], 1u8..12, 1u8..5, any::<bool>()),
        (moderate_class_strategy(), moderate_class_strategy(), any::<u64>()),
        (
            prop_oneof![3 => Just(vec![]), 2 => prop::collection::vec(any::<u16>(), 1..3), 1 => prop::collection::vec(any::<u16>(), 8..24)],
            prop_oneof![4 => Just(vec![]), 1 => prop::collection::vec(any::<u16>(), 1..2)],
            prop::option::weighted(0.3, (any::<u16>(), any::<u16>())),
            prop::option::weighted(0.2, any::<u16>()),
            1u8..6,
        ),
    )
        .prop_map(|((ty, dim, k, nvec, dot), (cc, cv, seed), (nan_centroids, nan_vectors, dup, hit, nprobes))| NearCase { ty, dim, k, nvec, dot, cc, cv, seed, nan_centroids, nan_vectors, dup, hit, nprobes })
}

fn argmin_strategy() -> impl Strategy<Value = Vec<ArgVal>> {
    prop::collection::vec(
        prop_oneof![6 => (-64i16..64).prop_map(ArgVal::Num), 2 => any::<i16>().prop_map(ArgVal::Num), 2 => Just(ArgVal::Nan), 1 => Just(ArgVal::PosInf), 1 => Just(ArgVal::NegInf), 1 => Just(ArgVal::Missing)],
        0..10,
    )
}

// ---------------------------------------------------------------------------

impl Property for C35 {
    type Input = Input;
    fn id(&self) -> &'static str {
        "C35"
    }
    fn rule(&self) -> String {
        "Vec cases: one query x and 1-4 vectors y of one length (every length 0..=1100 is enumerated for each of f16, bf16, f32, f64, u8 with two value classes per run; random cases draw the length uniformly) and element type; element classes: uniform [-1,1], scaled by 2^e (tiny .. largest exponent whose squares still sum inside the accumulator range), huge (f64 definition finite, f32 accumulator overflows), per-element mixed exponents, zeros, +-0, constant, small integers, subnormals, sparse; y related to x as independent / equal / negated / nearly equal / doubled. Checked per pair: l2, dot, dot_distance, cosine_distance, Cosine::cosine_with_norms, norm_l2 (also through DistanceType::func), then l2_distance_batch / L2::l2_batch / dot_distance_batch / cosine_distance_batch and the Arrow helpers (DistanceType::arrow_batch_func and norm_squared_fsl over a FixedSizeList with null rows and optionally sliced at offset 1) against the f64 definition (Dot2-compensated) with a derived running error bound (Higham: gamma_k*sum|terms| + k*eta per accumulation in the accumulator's precision - f32 for f16/bf16/f32, f64 then cast for f64 - and first-order interval propagation through sqrt, *, /, 1-x); u8 l2/dot and hamming are exact. Non-trivial = length > 16 and not a multiple of 8 (SIMD body + tail); distinct by (type, length, classes, relation). Near cases: k<=11 centroids and <=4 vectors of dimension 1..1100 with moderate values, NaN elements in some/all centroids or in a vector, duplicate centroids, a vector equal to a centroid; compute_partition, kmeans_find_partitions, compute_partitions (KMeansAlgoFloat), compute_partitions_arrow_array, kmeans_find_partitions_arrow_array (u8: Hamming, exact): the chosen centroid's reference distance minus its bound must not exceed min_j(distance_j + bound_j), a NaN distance never wins, None only if every distance is NaN; non-trivial = k >= 2. Argmin cases: lists of <= 9 f32 incl. NaN, +-inf and missing entries through argmin / argmin_value / argmin_value_float / argmin_opt / argmax.".into()
    }
    fn assumptions(&self) -> Vec<String> {
        vec![
            "equal lengths for both arguments; batch helpers get from.len() == dimension >= 1 and to.len() a multiple of dimension (documented / assume_eq); dimension 0 is only exercised through the single-vector kernels".into(),
            "only the code paths compiled for this CPU and feature set are reached: lance-linalg without `fp16kernels` (f16 goes through the f32-accumulating auto-vectorised loop), x86_64 AVX2+FMA f32 SIMD for cosine".into(),
            "the tolerance assumes IEEE-754 round-to-nearest with gradual underflow and any summation order / FMA contraction; comparisons are skipped (and labelled skip-*) when the interval analysis cannot exclude accumulator overflow or a zero denominator: cosine with a zero or underflowing vector (the in-tree scalar definition yields NaN there) is excluded from the oracle".into(),
            "for sums of non-negative terms (l2, norm) and for the f64 kernels whose f64 result is cast to f32, a value certainly beyond f32::MAX must come back as +-inf".into(),
            "nearest centroid: values are moderate so that no distance overflows; a centroid / vector with a NaN element has a NaN distance by definition; Cosine is not supported by the k-means assignment (it panics by design) and is not called".into(),
            "argmin*: +inf never wins and an all-NaN/+inf list gives None (documented); f32::MAX itself is not generated".into(),
        ]
    }
    fn cases(&self, tier: Tier) -> u32 {
        tier.pick(300_000, 8_000_000)
    }
    fn strategy(&self, _tier: Tier) -> BoxedStrategy<Input> {
        prop_oneof![
            70 => vec_strategy().prop_map(Input::Vec),
            25 => near_strategy().prop_map(Input::Near),
            5 => argmin_strategy().prop_map(Input::Argmin),
        ]
        .boxed()
    }
    fn enumerate(&self, _tier: Tier) -> Vec<Input> {
        // every length 0..=1100, every element type, two value classes (one fixed, one rotating)
        let rot: [(Class, Class, Rel); 10] = [
            (Class::MixedExp(-40, 40), Class::MixedExp(-40, 40), Rel::Indep),
            (Class::Scaled(-100), Class::Scaled(-100), Rel::Indep),
            (Class::Scaled(50), Class::Scaled(50), Rel::Indep),
            (Class::Unit, Class::Unit, Rel::Equal),
            (Class::SignedZeros, Class::Unit, Rel::Indep),
            (Class::Denormal, Class::Denormal, Rel::Indep),
            (Class::Ints(60), Class::Ints(60), Rel::Indep),
            (Class::Unit, Class::Unit, Rel::Near),
            (Class::Const(3), Class::Const(-3), Rel::Indep),
            (Class::Zeros, Class::Unit, Rel::Indep),
        ];
        let mut v = Vec::with_capacity(1101 * 10);
        for len in 0..=1100u16 {
            for (ti, ty) in [Ty::F16, Ty::BF16, Ty::F32, Ty::F64, Ty::U8].into_iter().enumerate() {
                let seed = 0x5EED_0000_0000u64 + (len as u64) * 16 + ti as u64;
                v.push(Input::Vec(VecCase { ty, len, cx: Class::Unit, cy: Class::Unit, rel: Rel::Indep, seed, nb: 2, nulls: (len % 4) as u8, sliced: len % 3 == 0 }));
                let (cx, cy, rel) = rot[(len as usize + ti * 3) % rot.len()];
                v.push(Input::Vec(VecCase { ty, len, cx, cy, rel, seed: seed ^ 0xFFFF_0000, nb: 1 + (len % 3) as u8, nulls: ((len / 4) % 8) as u8, sliced: len % 5 == 0 }));
            }
        }
        v
    }
    fn check(&self, input: &Input, obs: &mut Obs, _env: &Env) -> CheckResult {
        match input {
            Input::Vec(c) => {
                if c.len > 1100 {
                    obs.label("len>1100-ignored");
                    return Ok(());
                }
                match c.ty {
                    Ty::F16 => check_vec::<f16>(c, obs),
                    Ty::BF16 => check_vec::<bf16>(c, obs),
                    Ty::F32 => check_vec::<f32>(c, obs),
                    Ty::F64 => check_vec::<f64>(c, obs),
                    Ty::U8 => check_vec_u8(c, obs),
                }
            }
            Input::Near(c) => match c.ty {
                Ty::F16 => check_near::<f16>(c, obs),
                Ty::BF16 => check_near::<bf16>(c, obs),
                Ty::F32 => check_near::<f32>(c, obs),
                Ty::F64 => check_near::<f64>(c, obs),
                Ty::U8 => check_near_u8(c, obs),
            },
            Input::Argmin(v) => check_argmin(v, obs),
        }
    }
}
