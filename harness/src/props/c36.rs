//! C36 — Namespace catalog behaves as a hierarchical map.
//!
//! Model: `BTreeMap<(namespace path, name), TInfo>` + `BTreeSet<namespace path>`.
//! A generated sequence of namespace/table calls is applied to a
//! `DirectoryNamespace` (directory-listing only / manifest only / dual) rooted
//! in a scratch directory and to the model.  After every mutating call the
//! whole *universe* of ids that the case mentions (plus their `$`-split/joined
//! variants) is re-queried
//! (exists / describe / list) and compared with the model.

use crate::engine::*;
use crate::{ensure, fail};
use arrow_array::{Int32Array, RecordBatch};
use arrow_schema::{DataType, Field, Schema};
use bytes::Bytes;
use lance_namespace::models::{
    CreateEmptyTableRequest, CreateNamespaceRequest, CreateTableRequest, DeregisterTableRequest, DescribeNamespaceRequest,
    DescribeTableRequest, DropNamespaceRequest, DropTableRequest, ListNamespacesRequest, ListTablesRequest, NamespaceExistsRequest,
    RegisterTableRequest, TableExistsRequest,
};
use lance_namespace::LanceNamespace;
use lance_namespace_impls::{DirectoryNamespace, DirectoryNamespaceBuilder};
use proptest::prelude::*;
use serde::{Deserialize, Serialize};
use std::collections::{BTreeMap, BTreeSet};
use std::sync::Arc;

pub struct C36;

#[derive(Clone, Copy, Debug, Serialize, Deserialize, PartialEq, Eq)]
pub enum Mode {
    /// manifest_enabled=false, dir_listing_enabled=true
    DirOnly,
    /// manifest_enabled=true, dir_listing_enabled=false
    ManifestOnly,
    /// both (the default configuration)
    Dual,
}

impl Mode {
    fn name(&self) -> &'static str {
        match self {
            Mode::DirOnly => "dir",
            Mode::ManifestOnly => "manifest",
            Mode::Dual => "dual",
        }
    }
    fn manifest(&self) -> bool {
        !matches!(self, Mode::DirOnly)
    }
}

/// Names are referenced by fractions into `Input::names`.
#[derive(Clone, Debug, Serialize, Deserialize, PartialEq)]
pub enum Op {
    CreateNs { ns: Vec<u16> },
    DropNs { ns: Vec<u16> },
    DescribeNs { ns: Vec<u16> },
    NsExists { ns: Vec<u16> },
    /// limit 0 = no limit
    ListNs { ns: Vec<u16>, limit: u8 },
    CreateTable { ns: Vec<u16>, name: u16 },
    CreateEmpty { ns: Vec<u16>, name: u16 },
    /// register `name` at the physical location of an earlier created table (or a made-up one)
    Register { ns: Vec<u16>, name: u16, target: u16 },
    Deregister { ns: Vec<u16>, name: u16 },
    DropTable { ns: Vec<u16>, name: u16 },
    DescribeTable { ns: Vec<u16>, name: u16 },
    TableExists { ns: Vec<u16>, name: u16 },
    ListTables { ns: Vec<u16>, limit: u8 },
    Reopen,
    // -- state-relative forms, resolved against the model when the step runs --
    /// create a table whose name is one of the confusable combinations `x<sep>y`
    CreateDerived { ns: Vec<u16>, pick: u16, empty: bool },
    /// drop (or deregister) a table that exists in the model
    DropSome { pick: u16, deregister: bool },
    /// drop a namespace that exists in the model
    DropSomeNs { pick: u16 },
    /// list the tables of the namespace that holds the most tables
    ListBusiest { limit: u8 },
}

#[derive(Clone, Debug, Serialize, Deserialize, PartialEq)]
pub struct Input {
    pub mode: Mode,
    /// inline optimisation of the `__manifest` table (default true)
    pub inline_opt: bool,
    /// root given as `file://…` instead of a plain path
    pub file_url: bool,
    pub names: Vec<String>,
    /// `names[2..2 + derived]` are the combinations `x<sep>y`
    #[serde(default)]
    pub derived: u8,
    pub ops: Vec<Op>,
}

// ---------------------------------------------------------------------------
// generator

const PLAIN: [&str; 5] = ["a", "B", "1", "_", "-"];
const ALPHABET: [&str; 13] = ["a", "B", "1", "_", "-", ".", "$", "'", "\"", "/", "%", " ", "é"];
/// separators put between two atoms to build confusable families
const SEPS: [&str; 17] = ["$", "'", "''", "\"", "/", "%", " ", ".", "é", "_", "-", "", "%2", ".", " ", "-", "_"];

fn free_name() -> impl Strategy<Value = String> {
    prop::collection::vec(prop::sample::select(ALPHABET.to_vec()), 1..=4).prop_map(|v| v.concat())
}

fn names_strategy() -> impl Strategy<Value = (Vec<String>, u8)> {
    (
        prop::sample::select(PLAIN.to_vec()),
        prop::sample::select(PLAIN.to_vec()),
        prop::collection::vec(prop::sample::select(SEPS.to_vec()), 2..=4),
        prop::collection::vec(free_name(), 0..=2),
        prop::bool::weighted(0.06),
    )
        .prop_map(|(x, y, seps, free, empty)| {
            let mut names: Vec<String> = vec![x.to_string()];
            if y != x {
                names.push(y.to_string());
            } else {
                // keep the layout [x, y, derived.., free..]: a second, different atom
                names.push(PLAIN.iter().find(|p| **p != x).unwrap().to_string());
            }
            let y = names[1].clone();
            let mut derived = 0u8;
            for s in seps {
                let n = format!("{x}{s}{y}");
                if !names.contains(&n) {
                    names.push(n);
                    derived += 1;
                }
            }
            for f in free {
                if !names.contains(&f) {
                    names.push(f);
                }
            }
            if empty {
                names.push(String::new());
            }
            (names, derived)
        })
}

/// the (at most two) non-root namespace paths a case works in; the first component prefers
/// the atom `x` so that `["x","y"]` meets the pool name `x$y`
fn paths_strategy(mode: Mode) -> BoxedStrategy<Vec<Vec<u16>>> {
    let comp = || prop_oneof![3 => Just(0u16), 2 => any::<u16>()];
    match mode {
        Mode::DirOnly => comp().prop_map(|a| vec![vec![a]]).boxed(),
        _ => (comp(), comp(), any::<bool>(), any::<u16>()).prop_map(|(a, b, nested, c)| if nested { vec![vec![a], vec![a, c]] } else { vec![vec![a], vec![b]] }).boxed(),
    }
}

fn ns_ref(mode: Mode, paths: &[Vec<u16>], allow_root: bool) -> BoxedStrategy<Vec<u16>> {
    let mut opts: Vec<(u32, Vec<u16>)> = vec![];
    if allow_root {
        opts.push((if mode == Mode::DirOnly { 12 } else { 5 }, vec![]));
    }
    for (i, p) in paths.iter().enumerate() {
        opts.push((if mode == Mode::DirOnly { 1 } else if i == 0 { 4 } else { 2 }, p.clone()));
    }
    proptest::strategy::Union::new_weighted(opts.into_iter().map(|(w, p)| (w, Just(p))).collect()).boxed()
}

fn limit() -> impl Strategy<Value = u8> {
    prop_oneof![1 => Just(0u8), 4 => Just(1u8), 3 => Just(2u8), 2 => 3u8..=5]
}

fn op_strategy(mode: Mode, paths: Vec<Vec<u16>>) -> BoxedStrategy<Op> {
    let any_ns = ns_ref(mode, &paths, true);
    let child_ns = ns_ref(mode, &paths, false);
    let t = { let any_ns = any_ns.clone(); move || (any_ns.clone(), any::<u16>()) };
    let nsw = if mode.manifest() { 5 } else { 1 };
    let regw = if mode.manifest() { 2 } else { 1 };
    prop_oneof![
        nsw => child_ns.clone().prop_map(|ns| Op::CreateNs { ns }),
        1 => child_ns.clone().prop_map(|ns| Op::DropNs { ns }),
        1 => any_ns.clone().prop_map(|ns| Op::DescribeNs { ns }),
        1 => any_ns.clone().prop_map(|ns| Op::NsExists { ns }),
        (nsw + 1) / 2 => (any_ns.clone(), limit()).prop_map(|(ns, limit)| Op::ListNs { ns, limit }),
        3 => t().prop_map(|(ns, name)| Op::CreateTable { ns, name }),
        3 => t().prop_map(|(ns, name)| Op::CreateEmpty { ns, name }),
        regw => (t(), any::<u16>()).prop_map(|((ns, name), target)| Op::Register { ns, name, target }),
        1 => t().prop_map(|(ns, name)| Op::Deregister { ns, name }),
        1 => t().prop_map(|(ns, name)| Op::DropTable { ns, name }),
        1 => t().prop_map(|(ns, name)| Op::DescribeTable { ns, name }),
        1 => t().prop_map(|(ns, name)| Op::TableExists { ns, name }),
        3 => (any_ns.clone(), limit()).prop_map(|(ns, limit)| Op::ListTables { ns, limit }),
        1 => Just(Op::Reopen),
        8 => (any_ns.clone(), any::<u16>(), any::<bool>()).prop_map(|(ns, pick, empty)| Op::CreateDerived { ns, pick, empty }),
        4 => (any::<u16>(), prop::bool::weighted(if mode.manifest() { 0.3 } else { 0.05 })).prop_map(|(pick, deregister)| Op::DropSome { pick, deregister }),
        (nsw + 1) / 2 => any::<u16>().prop_map(|pick| Op::DropSomeNs { pick }),
        6 => limit().prop_map(|limit| Op::ListBusiest { limit }),
    ]
    .boxed()
}

// ---------------------------------------------------------------------------
// model

type NsPath = Vec<String>;
type TableId = (NsPath, String);

#[derive(Clone, Debug, PartialEq)]
enum Content {
    /// created with data; the single column is called `col`
    Data { col: String },
    /// created empty, or registered at a location without a dataset
    NoDataset,
    /// accepted create over an existing id, shared location dropped, …: only "describable" is checked
    Unknown,
}

#[derive(Clone, Debug)]
struct TInfo {
    content: Content,
    /// index into `Ctx::phys` of the physical location, when known
    phys: Option<usize>,
    /// registered at a location where no directory exists
    dir_missing: bool,
}

#[derive(Clone, Debug)]
struct Phys {
    /// location relative to the root, as needed by register_table
    rel: String,
    col: Option<String>,
    alive: bool,
}

#[derive(Default, Clone, Debug)]
struct Model {
    namespaces: BTreeSet<NsPath>,
    tables: BTreeMap<TableId, TInfo>,
}

impl Model {
    fn tables_in(&self, ns: &NsPath) -> Vec<String> {
        self.tables.keys().filter(|(p, _)| p == ns).map(|(_, n)| n.clone()).collect()
    }
    fn children_of(&self, ns: &NsPath) -> Vec<String> {
        self.namespaces
            .iter()
            .filter(|p| p.len() == ns.len() + 1 && p[..ns.len()] == ns[..])
            .map(|p| p[ns.len()].clone())
            .collect()
    }
}

fn is_plain(s: &str) -> bool {
    !s.is_empty() && s.chars().all(|c| c.is_ascii_alphanumeric() || c == '_' || c == '-')
}

fn show_id(ns: &NsPath, name: &str) -> String {
    let mut v = ns.clone();
    v.push(name.to_string());
    format!("{v:?}")
}

/// canonical skeleton of an id: only letters and digits survive
fn canon(parts: &[String]) -> String {
    parts.concat().chars().filter(|c| c.is_alphanumeric()).collect()
}

fn specials(parts: &[String]) -> BTreeSet<char> {
    parts.iter().flat_map(|p| p.chars()).filter(|c| !c.is_ascii_alphanumeric()).collect()
}

// ---------------------------------------------------------------------------
// discrepancies

#[derive(Clone, Debug, PartialEq)]
enum Subject {
    Table(NsPath, String),
    Ns(NsPath),
    TableList(NsPath),
    NsList(NsPath),
}

#[derive(Clone, Debug, PartialEq)]
enum Check {
    /// model has it, the catalog says it does not exist
    Missing,
    /// model does not have it, the catalog says it exists
    Phantom,
    NotDescribable,
    PhantomDescribe,
    WrongContent,
    /// listing differs: names missing / unexpected / returned more than once
    List { missing: Vec<String>, extra: Vec<String>, dup: Vec<String> },
    /// the listing call failed although the model has entries there
    ListError,
    /// directory-only mode accepted a nested id
    NestedAccepted,
}

#[derive(Clone, Debug)]
struct Disc {
    subject: Subject,
    check: Check,
    detail: String,
}

#[derive(Clone, Debug, PartialEq)]
enum Effect {
    Create,
    Remove,
}

#[derive(Clone, Copy, Debug, PartialEq)]
enum How {
    CreateData,
    CreateEmpty,
    Register,
    Deregister,
    Drop,
}

#[derive(Clone, Debug)]
enum Acted {
    Table(NsPath, String, Effect, How),
    Ns(NsPath, Effect),
    Reopen,
    Initial,
}

fn list_diff(got: &[String], want: &[String]) -> Option<Check> {
    let mut g: BTreeMap<&String, usize> = BTreeMap::new();
    for n in got {
        *g.entry(n).or_insert(0) += 1;
    }
    let w: BTreeSet<&String> = want.iter().collect();
    let missing: Vec<String> = w.iter().filter(|n| !g.contains_key(**n)).map(|n| (*n).clone()).collect();
    let extra: Vec<String> = g.keys().filter(|n| !w.contains(**n)).map(|n| (*n).clone()).collect();
    let dup: Vec<String> = g.iter().filter(|(n, c)| **c > 1 && w.contains(**n)).map(|(n, _)| (*n).clone()).collect();
    if missing.is_empty() && extra.is_empty() && dup.is_empty() {
        None
    } else {
        Some(Check::List { missing, extra, dup })
    }
}

// ---------------------------------------------------------------------------
// the system under test + bookkeeping

struct Ctx<'a> {
    input: &'a Input,
    root: String,
    ns: DirectoryNamespace,
    model: Model,
    phys: Vec<Phys>,
    uni_tables: Vec<TableId>,
    uni_ns: Vec<NsPath>,
    /// accepted creations (ids as parts, incl. the name) for the non-trivial rule
    created: Vec<Vec<String>>,
    paged_small: Option<String>,
    /// the scratch directory of the case; the namespace root is its sub-directory `r`
    case_dir: std::path::PathBuf,
    strays_seen: bool,
    /// panics caught inside lance calls: (id parts of the call, message)
    panics: std::cell::RefCell<Vec<(Vec<String>, String)>>,
}

async fn open_ns(input: &Input, root: &str) -> Result<DirectoryNamespace, Failure> {
    let b = DirectoryNamespaceBuilder::new(root)
        .manifest_enabled(input.mode.manifest())
        .dir_listing_enabled(input.mode != Mode::ManifestOnly)
        .inline_optimization_enabled(input.inline_opt);
    b.build().await.map_err(|e| Failure::new("open-failed", format!("DirectoryNamespaceBuilder::build on {root}: {e}")))
}

fn ipc_bytes(col: &str) -> Bytes {
    let schema = Arc::new(Schema::new(vec![Field::new(col, DataType::Int32, true)]));
    let batch = RecordBatch::try_new(schema.clone(), vec![Arc::new(Int32Array::from(vec![7]))]).unwrap();
    let mut buf = Vec::new();
    {
        let mut w = arrow_ipc::writer::StreamWriter::try_new(&mut buf, &schema).unwrap();
        w.write(&batch).unwrap();
        w.finish().unwrap();
    }
    Bytes::from(buf)
}

fn full_id(ns: &NsPath, name: &str) -> Vec<String> {
    let mut v = ns.clone();
    v.push(name.to_string());
    v
}

impl<'a> Ctx<'a> {
    fn name(&self, f: u16) -> String {
        self.input.names[idx(f, self.input.names.len())].clone()
    }
    fn path(&self, fs: &[u16]) -> NsPath {
        fs.iter().map(|f| self.name(*f)).collect()
    }

    /// run one lance call; a panic inside it is recorded and reported as Err
    async fn g<T>(&self, parts: &[String], f: impl std::future::Future<Output = lance_core::Result<T>>) -> Result<T, String> {
        use futures::FutureExt;
        match std::panic::AssertUnwindSafe(f).catch_unwind().await {
            Ok(r) => r.map_err(|e| e.to_string()),
            Err(p) => {
                let msg = p.downcast_ref::<&str>().map(|s| s.to_string()).or_else(|| p.downcast_ref::<String>().cloned()).unwrap_or_else(|| "<non-string panic>".into());
                self.panics.borrow_mut().push((parts.to_vec(), msg.clone()));
                Err(format!("PANIC: {msg}"))
            }
        }
    }

    /// a fraction that `name()` maps back to this pool name
    fn frac_of(&self, name: &str) -> u16 {
        let len = self.input.names.len();
        let i = self.input.names.iter().position(|n| n == name).unwrap_or(0);
        (((i << 16) + len - 1) / len) as u16
    }
    fn fracs_of(&self, path: &[String]) -> Vec<u16> {
        path.iter().map(|n| self.frac_of(n)).collect()
    }
    fn derived_name(&self, pick: u16) -> u16 {
        let d = (self.input.derived as usize).min(self.input.names.len().saturating_sub(2));
        if d == 0 {
            pick
        } else {
            self.frac_of(&self.input.names[2 + idx(pick, d)])
        }
    }
    /// resolve a state-relative op against the model; None = nothing to do
    fn concretize(&self, op: &Op) -> Option<Op> {
        Some(match op {
            Op::CreateDerived { ns, pick, empty } => {
                let name = self.derived_name(*pick);
                if *empty {
                    Op::CreateEmpty { ns: ns.clone(), name }
                } else {
                    Op::CreateTable { ns: ns.clone(), name }
                }
            }
            Op::DropSome { pick, deregister } => {
                let keys: Vec<&TableId> = self.model.tables.keys().collect();
                if keys.is_empty() {
                    return None;
                }
                let (ns, name) = keys[idx(*pick, keys.len())];
                let (ns, name) = (self.fracs_of(ns), self.frac_of(name));
                if *deregister {
                    Op::Deregister { ns, name }
                } else {
                    Op::DropTable { ns, name }
                }
            }
            Op::DropSomeNs { pick } => {
                let keys: Vec<&NsPath> = self.model.namespaces.iter().collect();
                if keys.is_empty() {
                    return None;
                }
                Op::DropNs { ns: self.fracs_of(keys[idx(*pick, keys.len())]) }
            }
            Op::ListBusiest { limit } => {
                let mut count: BTreeMap<&NsPath, usize> = BTreeMap::new();
                for (ns, _) in self.model.tables.keys() {
                    *count.entry(ns).or_insert(0) += 1;
                }
                let best = count.iter().max_by(|a, b| a.1.cmp(b.1).then(b.0.cmp(a.0))).map(|(ns, _)| (*ns).clone()).unwrap_or_default();
                Op::ListTables { ns: self.fracs_of(&best), limit: *limit }
            }
            other => other.clone(),
        })
    }

    // ---- raw observations -------------------------------------------------

    async fn table_exists(&self, ns: &NsPath, name: &str) -> Result<(), String> {
        let mut r = TableExistsRequest::new();
        r.id = Some(full_id(ns, name));
        self.g(&full_id(ns, name), self.ns.table_exists(r)).await
    }

    /// Ok(Some(cols)) = dataset opened, Ok(None) = described without a dataset
    async fn describe_table(&self, ns: &NsPath, name: &str) -> Result<Option<Vec<String>>, String> {
        let mut r = DescribeTableRequest::new();
        r.id = Some(full_id(ns, name));
        let resp = self.g(&full_id(ns, name), self.ns.describe_table(r)).await?;
        Ok(resp.schema.map(|s| s.fields.iter().map(|f| f.name.clone()).collect()))
    }

    async fn ns_exists(&self, ns: &NsPath) -> Result<(), String> {
        let mut r = NamespaceExistsRequest::new();
        r.id = Some(ns.clone());
        self.g(ns, self.ns.namespace_exists(r)).await
    }

    async fn list_tables(&self, ns: &NsPath, token: Option<String>, limit: Option<i32>) -> Result<(Vec<String>, Option<String>), String> {
        let mut r = ListTablesRequest::new();
        r.id = Some(ns.clone());
        r.page_token = token;
        r.limit = limit;
        let resp = self.g(ns, self.ns.list_tables(r)).await?;
        Ok((resp.tables, resp.page_token))
    }

    async fn list_namespaces(&self, ns: &NsPath, token: Option<String>, limit: Option<i32>) -> Result<(Vec<String>, Option<String>), String> {
        let mut r = ListNamespacesRequest::new();
        r.id = Some(ns.clone());
        r.page_token = token;
        r.limit = limit;
        let resp = self.g(ns, self.ns.list_namespaces(r)).await?;
        Ok((resp.namespaces, resp.page_token))
    }

    // ---- per-id comparisons ----------------------------------------------

    async fn check_table(&self, ns: &NsPath, name: &str, out: &mut Vec<Disc>, obs: &mut Obs) {
        obs.inner += 2;
        let want = self.model.tables.get(&(ns.clone(), name.to_string()));
        let subject = Subject::Table(ns.clone(), name.to_string());
        let ex = self.table_exists(ns, name).await;
        let de = self.describe_table(ns, name).await;
        if self.input.mode == Mode::DirOnly && !ns.is_empty() {
            // documented: multi-level ids are rejected without a manifest
            if ex.is_ok() || de.is_ok() {
                out.push(Disc { subject, check: Check::NestedAccepted, detail: format!("{}: exists={ex:?} describe={de:?}", show_id(ns, name)) });
            }
            return;
        }
        match (want, &ex) {
            (Some(_), Err(e)) => out.push(Disc { subject: subject.clone(), check: Check::Missing, detail: format!("table_exists({}) = Err({e}) but the model has the table", show_id(ns, name)) }),
            (None, Ok(())) => out.push(Disc { subject: subject.clone(), check: Check::Phantom, detail: format!("table_exists({}) = Ok but the model has no such table", show_id(ns, name)) }),
            _ => {}
        }
        match (want, &de) {
            (Some(_), Err(e)) => out.push(Disc { subject, check: Check::NotDescribable, detail: format!("describe_table({}) = Err({e}) but the model has the table", show_id(ns, name)) }),
            (None, Ok(c)) => out.push(Disc { subject, check: Check::PhantomDescribe, detail: format!("describe_table({}) = Ok(columns {c:?}) but the model has no such table", show_id(ns, name)) }),
            (Some(info), Ok(cols)) => {
                let ok = match (&info.content, cols) {
                    (Content::Unknown, _) => true,
                    (Content::Data { col }, Some(c)) => c.len() == 1 && &c[0] == col,
                    (Content::Data { .. }, None) => false,
                    (Content::NoDataset, None) => true,
                    (Content::NoDataset, Some(_)) => false,
                };
                if !ok {
                    out.push(Disc { subject, check: Check::WrongContent, detail: format!("describe_table({}) shows columns {cols:?} but the model has {:?}", show_id(ns, name), info.content) });
                }
            }
            _ => {}
        }
    }

    async fn check_ns(&self, ns: &NsPath, out: &mut Vec<Disc>, obs: &mut Obs) {
        let dir_only = self.input.mode == Mode::DirOnly;
        // existence
        obs.inner += 1;
        let ex = self.ns_exists(ns).await;
        let want = ns.is_empty() || self.model.namespaces.contains(ns);
        if dir_only && !ns.is_empty() {
            if ex.is_ok() {
                out.push(Disc { subject: Subject::Ns(ns.clone()), check: Check::NestedAccepted, detail: format!("namespace_exists({ns:?}) = Ok in directory-only mode") });
            }
        } else {
            match (want, &ex) {
                (true, Err(e)) => out.push(Disc { subject: Subject::Ns(ns.clone()), check: Check::Missing, detail: format!("namespace_exists({ns:?}) = Err({e}) but the model has the namespace") }),
                (false, Ok(())) => out.push(Disc { subject: Subject::Ns(ns.clone()), check: Check::Phantom, detail: format!("namespace_exists({ns:?}) = Ok but the model has no such namespace") }),
                _ => {}
            }
        }
        // tables in it
        obs.inner += 1;
        let lt = self.list_tables(ns, None, None).await;
        let want_tables = self.model.tables_in(ns);
        if dir_only && !ns.is_empty() {
            if lt.is_ok() {
                out.push(Disc { subject: Subject::TableList(ns.clone()), check: Check::NestedAccepted, detail: format!("list_tables({ns:?}) = {lt:?} in directory-only mode") });
            }
        } else {
            match lt {
                Ok((got, _)) => {
                    if let Some(check) = list_diff(&got, &want_tables) {
                        out.push(Disc { subject: Subject::TableList(ns.clone()), check, detail: format!("list_tables({ns:?}) = {got:?} but the model has {want_tables:?}") });
                    }
                }
                Err(e) => {
                    if !want_tables.is_empty() {
                        out.push(Disc { subject: Subject::TableList(ns.clone()), check: Check::ListError, detail: format!("list_tables({ns:?}) = Err({e}) but the model has {want_tables:?}") });
                    }
                }
            }
        }
        // child namespaces
        obs.inner += 1;
        let ln = self.list_namespaces(ns, None, None).await;
        let want_ns = self.model.children_of(ns);
        if dir_only && !ns.is_empty() {
            if ln.is_ok() {
                out.push(Disc { subject: Subject::NsList(ns.clone()), check: Check::NestedAccepted, detail: format!("list_namespaces({ns:?}) = {ln:?} in directory-only mode") });
            }
        } else {
            match ln {
                Ok((got, _)) => {
                    if let Some(check) = list_diff(&got, &want_ns) {
                        out.push(Disc { subject: Subject::NsList(ns.clone()), check, detail: format!("list_namespaces({ns:?}) = {got:?} but the model has {want_ns:?}") });
                    }
                }
                Err(e) => {
                    if !want_ns.is_empty() {
                        out.push(Disc { subject: Subject::NsList(ns.clone()), check: Check::ListError, detail: format!("list_namespaces({ns:?}) = Err({e}) but the model has {want_ns:?}") });
                    }
                }
            }
        }
    }

    async fn audit(&self, obs: &mut Obs) -> Vec<Disc> {
        let mut out = vec![];
        for (ns, name) in &self.uni_tables {
            self.check_table(ns, name, &mut out, obs).await;
        }
        for ns in &self.uni_ns {
            self.check_ns(ns, &mut out, obs).await;
        }
        // discrepancies on ids without `$` first (the `$` variants are synthetic probes)
        let (clean, dollar): (Vec<Disc>, Vec<Disc>) = out.into_iter().partition(|d| !subject_parts(&d.subject).iter().any(|p| p.contains('$')));
        clean.into_iter().chain(dollar).collect()
    }
}

// ---------------------------------------------------------------------------
// judging a discrepancy

/// failure kind (= oracle clause) of a discrepancy found after `acted`
fn kind_of(acted: &Acted, accepted: bool, d: &Disc) -> &'static str {
    if d.check == Check::NestedAccepted {
        return "nested-accepted-dir-only";
    }
    if !accepted {
        return "rejected-but-changed";
    }
    match acted {
        Acted::Reopen => "reopen-changed",
        Acted::Initial => "fresh-catalog-not-empty",
        Acted::Table(ns, name, eff, _) => match (&d.subject, &d.check, eff) {
            (Subject::Table(n2, m2), c, _) if n2 == ns && m2 == name => match (c, eff) {
                (Check::Missing, Effect::Create) => "created-not-exists",
                (Check::NotDescribable, Effect::Create) => "created-not-describable",
                (Check::WrongContent, Effect::Create) => "created-wrong-content",
                (Check::Phantom, Effect::Remove) => "dropped-still-exists",
                (Check::PhantomDescribe, Effect::Remove) => "dropped-still-describable",
                _ => "other-id-affected",
            },
            (Subject::TableList(n2), Check::List { missing, extra, dup }, Effect::Create) if n2 == ns => {
                if missing.len() == 1 && &missing[0] == name && dup.is_empty() {
                    if extra.is_empty() {
                        "created-not-listed"
                    } else {
                        "listed-name-differs"
                    }
                } else if missing.is_empty() && extra.is_empty() && dup.len() == 1 && &dup[0] == name {
                    "listed-twice"
                } else {
                    "other-id-affected"
                }
            }
            (Subject::TableList(n2), Check::List { missing, extra, dup }, Effect::Remove) if n2 == ns => {
                if missing.is_empty() && dup.is_empty() && extra.len() == 1 && &extra[0] == name {
                    "dropped-still-listed"
                } else {
                    "other-id-affected"
                }
            }
            _ => "other-id-affected",
        },
        Acted::Ns(path, eff) => {
            let (parent, last) = (path[..path.len() - 1].to_vec(), &path[path.len() - 1]);
            match (&d.subject, &d.check) {
                (Subject::Ns(p2), Check::Missing) if p2 == path && *eff == Effect::Create => "ns-created-not-exists",
                (Subject::Ns(p2), Check::Phantom) if p2 == path && *eff == Effect::Remove => "ns-dropped-still-exists",
                (Subject::NsList(p2), Check::List { missing, extra, dup }) if *p2 == parent => match eff {
                    Effect::Create => {
                        if missing.len() == 1 && &missing[0] == last && dup.is_empty() {
                            if extra.is_empty() {
                                "ns-created-not-listed"
                            } else {
                                "ns-listed-name-differs"
                            }
                        } else if missing.is_empty() && extra.is_empty() && dup.len() == 1 && &dup[0] == last {
                            "ns-listed-twice"
                        } else {
                            "other-id-affected"
                        }
                    }
                    Effect::Remove => {
                        if missing.is_empty() && dup.is_empty() && extra.len() == 1 && &extra[0] == last {
                            "ns-dropped-still-listed"
                        } else {
                            "other-id-affected"
                        }
                    }
                },
                _ => "other-id-affected",
            }
        }
    }
}

/// characters that `object_store::path::Path::child` percent-encodes
fn path_encoded(s: &str) -> bool {
    s.chars().any(|c| c == '/' || c == '%' || c == '"' || !c.is_ascii())
}

fn has_hex_escape(s: &str) -> bool {
    let b = s.as_bytes();
    (0..b.len()).any(|i| b[i] == b'%' && b.get(i + 1).is_some_and(|c| c.is_ascii_hexdigit()) && b.get(i + 2).is_some_and(|c| c.is_ascii_hexdigit()))
}

fn as_table_id(p: &[String]) -> TableId {
    (p[..p.len() - 1].to_vec(), p[p.len() - 1].clone())
}

/// Which listed known finding (if any) explains this discrepancy?  The match is
/// on the structural feature that triggers the defect, never on the kind alone.
/// The flag says whether the catalog has diverged from the model (the case
/// cannot go on) or only a read answer is wrong (skipped, the case goes on).
fn explain(input: &Input, model: &Model, acted: &Acted, accepted: bool, d: &Disc) -> Option<(&'static str, bool)> {
    let manifest = input.mode.manifest();
    let a = acted_parts(acted);
    let s = subject_parts(&d.subject);
    let any = |parts: &[String], f: &dyn Fn(&str) -> bool| parts.iter().any(|p| f(p));
    let dollar = |p: &str| p.contains('$');
    let quotes = |p: &str| p.contains('\'');
    if manifest {
        // (1) manifest_contains_object / delete_from_manifest do not look at object_type
        match (&d.subject, &d.check) {
            (Subject::Table(ns, name), Check::Phantom) if model.namespaces.contains(&full_id(ns, name)) => return Some(("C36-object-type-ignored", false)),
            (Subject::Ns(p), Check::Phantom) if !p.is_empty() && model.tables.contains_key(&as_table_id(p)) => return Some(("C36-object-type-ignored", false)),
            _ => {}
        }
        if let Acted::Ns(p, Effect::Remove) = acted {
            if accepted && model.tables.contains_key(&as_table_id(p)) {
                let t = as_table_id(p);
                let about_it = match &d.subject {
                    Subject::Table(ns, name) => *ns == t.0 && *name == t.1,
                    Subject::TableList(ns) => *ns == t.0,
                    _ => false,
                };
                if about_it {
                    return Some(("C36-object-type-ignored", true));
                }
            }
        }
        // (2) object ids are the parts joined with `$`
        if any(&a, &dollar) || any(&s, &dollar) {
            return Some(("C36-dollar-alias", any(&a, &dollar)));
        }
        // (2b) starts_with(object_id, '<ns>$') is simplified to LIKE '<ns>$%' with `_` left unescaped
        if let (Subject::TableList(ns) | Subject::NsList(ns), Check::List { missing, .. }) = (&d.subject, &d.check) {
            if missing.is_empty() && ns.iter().any(|p| p.contains('_')) {
                return Some(("C36-underscore-wildcard", false));
            }
        }
        // (3) names are pasted into SQL string literals
        if any(&a, &quotes) || any(&s, &quotes) {
            return Some(("C36-quote-in-filter", true));
        }
        // (1b) create_empty_table only looks for a *table* with this id, so a namespace of the same id
        // passes the check, the marker file is written, the manifest insert fails, nothing is rolled back
        if let Acted::Table(ns, name, _, How::CreateEmpty) = acted {
            if !accepted && input.mode == Mode::Dual && ns.is_empty() && model.namespaces.contains(&vec![name.clone()]) {
                return Some(("C36-object-type-ignored", true));
            }
        }
        // (3c) drop_table deletes the manifest row first and then reports a missing directory as an error
        if let Acted::Table(ns, name, _, How::Drop) = acted {
            if !accepted && model.tables.get(&(ns.clone(), name.clone())).is_some_and(|t| t.dir_missing) {
                return Some(("C36-drop-missing-dir", true));
            }
        }
        if let Acted::Table(ns, name, _, how) = acted {
            // (4) Url::join on a URL root without trailing slash: tables live next to the root
            if input.file_url && *how == How::Drop && !accepted {
                return Some(("C36-url-root-join", true));
            }
            // (5) Url::join reads the raw name as a URL reference: %XX is decoded, leading blanks are dropped
            // (dual root table: directory `<name>.lance`; otherwise `<hash>_<object id>`)
            let url_mangled = |p: &str| has_hex_escape(p) || p.starts_with(' ') || p.ends_with(' ');
            let _ = (ns, name);
            if matches!(how, How::CreateData | How::Drop) && any(&a, &url_mangled) {
                return Some(("C36-uri-percent-decoding", true));
            }
            // (6) Path::child(dir name) percent-encodes, the URI does not
            if any(&a, &path_encoded) {
                return Some(("C36-manifest-path-encoding", true));
            }
        }
    } else if any(&a, &path_encoded) {
        return Some(("C36-dir-path-encoding", true));
    }
    None
}

fn acted_parts(acted: &Acted) -> Vec<String> {
    match acted {
        Acted::Table(ns, name, _, _) => full_id(ns, name),
        Acted::Ns(p, _) => p.clone(),
        _ => vec![],
    }
}

fn subject_parts(s: &Subject) -> Vec<String> {
    match s {
        Subject::Table(ns, name) => full_id(ns, name),
        Subject::Ns(p) | Subject::TableList(p) | Subject::NsList(p) => p.clone(),
    }
}

fn note_known(obs: &mut Obs, id: &str, detail: String) {
    if !obs.known_hits.iter().any(|(i, _)| i == id) {
        obs.known_hit(id, detail);
        obs.label(format!("known:{id}"));
    }
}

/// Ok(true) = continue, Ok(false) = a listed known finding made the catalog
/// diverge from the model, the case ends here.
#[allow(clippy::too_many_arguments)]
fn judge(input: &Input, model: &Model, env: &Env, obs: &mut Obs, step: &str, acted: &Acted, accepted: bool, discs: &[Disc]) -> Result<bool, Failure> {
    let mut diverged = false;
    if std::env::var("C36_TRACE").is_ok() {
        // diagnostics only: show every new discrepancy of this step and go on
        eprintln!("[trace] {step} -> {}", if accepted { "accepted" } else { "rejected" });
        thread_local! { static SEEN: std::cell::RefCell<BTreeSet<String>> = const { std::cell::RefCell::new(BTreeSet::new()) }; }
        for d in discs {
            if SEEN.with(|s| s.borrow_mut().insert(d.detail.clone())) {
                eprintln!("[trace]     {} {:?} :: {}", kind_of(acted, accepted, d), explain(input, model, acted, accepted, d), d.detail);
            }
        }
        return Ok(true);
    }
    for d in discs {
        let kind = kind_of(acted, accepted, d);
        let detail = format!("[{} inline_opt={} file_url={}] after {step} ({}): {}", input.mode.name(), input.inline_opt, input.file_url, if accepted { "accepted" } else { "rejected" }, d.detail);
        match explain(input, model, acted, accepted, d) {
            Some((id, diverges)) if env.known(id) => {
                note_known(obs, id, format!("{kind}: {detail}"));
                diverged |= diverges;
            }
            _ => return Err(Failure::new(kind, detail)),
        }
    }
    Ok(!diverged)
}

// ---------------------------------------------------------------------------
// universe

fn add_table(u: &mut BTreeSet<TableId>, ns: &NsPath, name: &str) {
    u.insert((ns.clone(), name.to_string()));
}

fn variants(parts: &[String]) -> Vec<Vec<String>> {
    // the same `$`-joined string read with other delimiter positions
    let joined = parts.join("$");
    let mut out = vec![vec![joined.clone()]];
    let split: Vec<String> = joined.split('$').map(|s| s.to_string()).collect();
    out.push(split);
    out.retain(|v| v != parts && v.len() <= 3);
    out
}

fn build_universe(ctx: &Ctx) -> (Vec<TableId>, Vec<NsPath>) {
    let mut ts: BTreeSet<TableId> = BTreeSet::new();
    let mut nss: BTreeSet<NsPath> = BTreeSet::new();
    nss.insert(vec![]);
    for op in &ctx.input.ops {
        match op {
            Op::CreateNs { ns } | Op::DropNs { ns } | Op::DescribeNs { ns } | Op::NsExists { ns } | Op::ListNs { ns, .. } | Op::ListTables { ns, .. } => {
                let p = ctx.path(ns);
                for i in 0..=p.len() {
                    nss.insert(p[..i].to_vec());
                }
            }
            Op::CreateTable { ns, name }
            | Op::CreateEmpty { ns, name }
            | Op::Register { ns, name, .. }
            | Op::Deregister { ns, name }
            | Op::DropTable { ns, name }
            | Op::DescribeTable { ns, name }
            | Op::TableExists { ns, name } => {
                let p = ctx.path(ns);
                for i in 0..=p.len() {
                    nss.insert(p[..i].to_vec());
                }
                add_table(&mut ts, &p, &ctx.name(*name));
            }
            Op::CreateDerived { ns, pick, .. } => {
                let p = ctx.path(ns);
                for i in 0..=p.len() {
                    nss.insert(p[..i].to_vec());
                }
                add_table(&mut ts, &p, &ctx.name(ctx.derived_name(*pick)));
            }
            Op::Reopen | Op::DropSome { .. } | Op::DropSomeNs { .. } | Op::ListBusiest { .. } => {}
        }
    }
    // the same `$`-joined string read with other delimiter positions
    let base_t: Vec<TableId> = ts.iter().cloned().collect();
    let base_n: Vec<NsPath> = nss.iter().cloned().collect();
    for (ns, name) in &base_t {
        for v in variants(&full_id(ns, name)) {
            add_table(&mut ts, &v[..v.len() - 1].to_vec(), &v[v.len() - 1]);
        }
    }
    for p in &base_n {
        if p.is_empty() {
            continue;
        }
        for v in variants(p) {
            if v.len() <= 2 {
                nss.insert(v);
            }
        }
    }
    (ts.into_iter().collect(), nss.into_iter().collect())
}

// ---------------------------------------------------------------------------
// the run

/// relative location (last path segment) of a created table, if it is safe to re-register
fn rel_location(uri: &str) -> Option<String> {
    let seg = uri.trim_end_matches('/').rsplit('/').next()?;
    if !seg.is_empty() && seg.chars().all(|c| c.is_ascii_alphanumeric() || "_-.$".contains(c)) {
        Some(seg.to_string())
    } else {
        None
    }
}

async fn run(input: &Input, root: String, case_dir: std::path::PathBuf, obs: &mut Obs, env: &Env) -> CheckResult {
    let ns = open_ns(input, &root).await?;
    let mut ctx = Ctx { input, root, ns, model: Model::default(), phys: vec![], uni_tables: vec![], uni_ns: vec![], created: vec![], paged_small: None, case_dir, strays_seen: false, panics: Default::default() };
    let (ut, un) = build_universe(&ctx);
    ctx.uni_tables = ut;
    ctx.uni_ns = un;
    obs.label(format!("mode-{}", input.mode.name()));

    // a fresh catalog is empty
    let d0 = ctx.audit(obs).await;
    if !check_panics(&ctx, env, obs, "open")? {
        return Ok(());
    }
    if !judge(input, &ctx.model, env, obs, "open", &Acted::Initial, true, &d0)? {
        return Ok(());
    }

    for (i, op) in input.ops.iter().enumerate() {
        let Some(op) = ctx.concretize(op) else {
            obs.label("state-relative-op-without-target");
            continue;
        };
        let op = &op;
        let step = format!("op#{i} {}", render_op(&ctx, op));
        let res = step_op(&mut ctx, i, op, &step, obs, env).await;
        // a panic inside lance makes every other answer of the step meaningless: look at it first
        if !check_panics(&ctx, env, obs, &step)? {
            obs.label("ended-at-known-finding");
            break;
        }
        if !res? {
            obs.label("ended-at-known-finding");
            break;
        }
    }

    // non-trivial?
    let mut key: Option<String> = None;
    'outer: for (i, a) in ctx.created.iter().enumerate() {
        for b in &ctx.created[i + 1..] {
            if a != b && canon(a) == canon(b) {
                let mut sp: BTreeSet<char> = specials(a);
                sp.extend(specials(b));
                key = Some(format!("{}|confusable|{}x{}|{:?}", input.mode.name(), a.len(), b.len(), sp));
                obs.label("nt-confusable-pair");
                break 'outer;
            }
        }
    }
    if let Some(p) = &ctx.paged_small {
        obs.label("nt-paged");
        key = Some(match key {
            Some(k) => format!("{k}|{p}"),
            None => format!("{}|{p}", input.mode.name()),
        });
    }
    if let Some(k) = key {
        obs.label("nontrivial");
        obs.nontrivial(k);
    }
    Ok(())
}

/// Ok(true) = no panic happened
fn check_panics(ctx: &Ctx, env: &Env, obs: &mut Obs, step: &str) -> Result<bool, Failure> {
    let ps: Vec<(Vec<String>, String)> = ctx.panics.borrow_mut().drain(..).collect();
    if ps.is_empty() {
        return Ok(true);
    }
    for (parts, msg) in &ps {
        let detail = format!("[{} inline_opt={}] {step}: a call with id {parts:?} panicked inside lance: {msg}", ctx.input.mode.name(), ctx.input.inline_opt);
        // unescaped quote (C36-quote-in-filter) followed by `$x`, which sqlparser reads as a placeholder
        let trigger = ctx.input.mode.manifest() && parts.iter().any(|p| p.contains('\'')) && parts.join("$").contains('$');
        if trigger && env.known("C36-planner-placeholder-panic") {
            note_known(obs, "C36-planner-placeholder-panic", format!("panic: {detail}"));
        } else {
            return Err(Failure::new("panic", detail));
        }
    }
    Ok(false)
}

fn render_op(ctx: &Ctx, op: &Op) -> String {
    match op {
        Op::CreateNs { ns } => format!("create_namespace({:?})", ctx.path(ns)),
        Op::DropNs { ns } => format!("drop_namespace({:?})", ctx.path(ns)),
        Op::DescribeNs { ns } => format!("describe_namespace({:?})", ctx.path(ns)),
        Op::NsExists { ns } => format!("namespace_exists({:?})", ctx.path(ns)),
        Op::ListNs { ns, limit } => format!("list_namespaces({:?}, limit={limit})", ctx.path(ns)),
        Op::CreateTable { ns, name } => format!("create_table({})", show_id(&ctx.path(ns), &ctx.name(*name))),
        Op::CreateEmpty { ns, name } => format!("create_empty_table({})", show_id(&ctx.path(ns), &ctx.name(*name))),
        Op::Register { ns, name, .. } => format!("register_table({})", show_id(&ctx.path(ns), &ctx.name(*name))),
        Op::Deregister { ns, name } => format!("deregister_table({})", show_id(&ctx.path(ns), &ctx.name(*name))),
        Op::DropTable { ns, name } => format!("drop_table({})", show_id(&ctx.path(ns), &ctx.name(*name))),
        Op::DescribeTable { ns, name } => format!("describe_table({})", show_id(&ctx.path(ns), &ctx.name(*name))),
        Op::TableExists { ns, name } => format!("table_exists({})", show_id(&ctx.path(ns), &ctx.name(*name))),
        Op::ListTables { ns, limit } => format!("list_tables({:?}, limit={limit})", ctx.path(ns)),
        Op::Reopen => "reopen".to_string(),
        other => format!("{other:?}"),
    }
}

/// a create of a fresh, fully plain id under an existing parent must be accepted
fn plain_create_must_succeed(ctx: &Ctx, parts: &[String], is_ns: bool) -> bool {
    if !parts.iter().all(|p| is_plain(p)) {
        return false;
    }
    let parent = parts[..parts.len() - 1].to_vec();
    match ctx.input.mode {
        Mode::DirOnly => {
            if is_ns || !parent.is_empty() {
                return false;
            }
        }
        _ => {}
    }
    if !parent.is_empty() && !ctx.model.namespaces.contains(&parent) {
        return false;
    }
    // nothing of either type has this id
    let as_table = (parent.clone(), parts[parts.len() - 1].clone());
    !ctx.model.tables.contains_key(&as_table) && !ctx.model.namespaces.contains(&parts.to_vec())
}

async fn step_op(ctx: &mut Ctx<'_>, i: usize, op: &Op, step: &str, obs: &mut Obs, env: &Env) -> Result<bool, Failure> {
    let input = ctx.input;
    let dir_only = input.mode == Mode::DirOnly;
    // (acted, accepted) for mutating ops
    let mut mutated: Option<(Acted, bool)> = None;
    match op {
        Op::CreateNs { ns } if ns.is_empty() => {}
        Op::DropNs { ns } if ns.is_empty() => {}
        Op::CreateNs { ns } => {
            let p = ctx.path(ns);
            let must = plain_create_must_succeed(ctx, &p, true);
            let mut r = CreateNamespaceRequest::new();
            r.id = Some(p.clone());
            let res = ctx.g(&p, ctx.ns.create_namespace(r)).await;
            obs.label(if res.is_ok() { "create_ns-ok" } else { "create_ns-rejected" });
            match res {
                Ok(_) => {
                    if dir_only {
                        fail!("nested-accepted-dir-only", "{step}: accepted in directory-only mode");
                    }
                    if ctx.model.namespaces.contains(&p) {
                        obs.label("create-existing-ns-accepted");
                    } else {
                        ctx.created.push(p.clone());
                    }
                    if p.len() > 1 && !ctx.model.namespaces.contains(&p[..p.len() - 1].to_vec()) {
                        obs.label("ns-created-under-missing-parent");
                    }
                    ctx.model.namespaces.insert(p.clone());
                    mutated = Some((Acted::Ns(p, Effect::Create), true));
                }
                Err(e) => {
                    obs.rejected += 1;
                    ensure!(!must, "plain-create-rejected", "{step}: a fresh plain namespace id under an existing parent was rejected: {e}");
                    mutated = Some((Acted::Ns(p, Effect::Create), false));
                }
            }
        }
        Op::DropNs { ns } => {
            let p = ctx.path(ns);
            let mut r = DropNamespaceRequest::new();
            r.id = Some(p.clone());
            let res = ctx.g(&p, ctx.ns.drop_namespace(r)).await;
            obs.label(if res.is_ok() { "drop_ns-ok" } else { "drop_ns-rejected" });
            match res {
                Ok(_) => {
                    if dir_only {
                        fail!("nested-accepted-dir-only", "{step}: accepted in directory-only mode");
                    }
                    if !ctx.model.namespaces.remove(&p) {
                        obs.label("drop-absent-ns-accepted");
                    }
                    mutated = Some((Acted::Ns(p, Effect::Remove), true));
                }
                Err(_) => {
                    obs.rejected += 1;
                    mutated = Some((Acted::Ns(p, Effect::Remove), false));
                }
            }
        }
        Op::DescribeNs { ns } => {
            let p = ctx.path(ns);
            let mut r = DescribeNamespaceRequest::new();
            r.id = Some(p.clone());
            let res = ctx.g(&p, ctx.ns.describe_namespace(r)).await;
            obs.inner += 1;
            let want = p.is_empty() || ctx.model.namespaces.contains(&p);
            if dir_only && !p.is_empty() {
                ensure!(res.is_err(), "nested-accepted-dir-only", "{step}: accepted in directory-only mode");
            } else if want != res.is_ok() {
                let d = Disc {
                    subject: Subject::Ns(p.clone()),
                    check: if want { Check::NotDescribable } else { Check::PhantomDescribe },
                    detail: format!("describe_namespace({p:?}) = {:?} but the model says exists={want}", res.as_ref().map(|r| r.properties.clone())),
                };
                return judge_read(input, &ctx.model, env, obs, step, "ns-describe-mismatch", &d);
            }
        }
        Op::NsExists { ns } => {
            let p = ctx.path(ns);
            let mut out = vec![];
            obs.inner += 1;
            let ex = ctx.ns_exists(&p).await;
            let want = p.is_empty() || ctx.model.namespaces.contains(&p);
            if dir_only && !p.is_empty() {
                ensure!(ex.is_err(), "nested-accepted-dir-only", "{step}: accepted in directory-only mode");
            } else if want != ex.is_ok() {
                out.push(Disc { subject: Subject::Ns(p.clone()), check: if want { Check::Missing } else { Check::Phantom }, detail: format!("namespace_exists({p:?}) = {ex:?} but the model says {want}") });
                return judge_read(input, &ctx.model, env, obs, step, "read-unstable", &out[0]);
            }
        }
        Op::ListNs { ns, limit } => {
            let p = ctx.path(ns);
            if dir_only && !p.is_empty() {
                let r = ctx.list_namespaces(&p, None, None).await;
                ensure!(r.is_err(), "nested-accepted-dir-only", "{step}: accepted in directory-only mode");
            } else {
                let want = ctx.model.children_of(&p);
                paged_listing(ctx, false, &p, *limit, want, step, obs, env).await?;
            }
        }
        Op::ListTables { ns, limit } => {
            let p = ctx.path(ns);
            if dir_only && !p.is_empty() {
                let r = ctx.list_tables(&p, None, None).await;
                ensure!(r.is_err(), "nested-accepted-dir-only", "{step}: accepted in directory-only mode");
            } else {
                let want = ctx.model.tables_in(&p);
                paged_listing(ctx, true, &p, *limit, want, step, obs, env).await?;
            }
        }
        Op::CreateTable { ns, name } | Op::CreateEmpty { ns, name } => {
            let p = ctx.path(ns);
            let n = ctx.name(*name);
            let with_data = matches!(op, Op::CreateTable { .. });
            let how = if with_data { How::CreateData } else { How::CreateEmpty };
            // safety of the test machine: in dual mode a root-level name with a leading '/' makes
            // Url::join produce an absolute URI, the dataset would be written to the file system root
            if with_data && input.mode == Mode::Dual && p.is_empty() && n.starts_with('/') {
                obs.label("skipped-unsafe-absolute-name");
                return Ok(true);
            }
            let must = plain_create_must_succeed(ctx, &full_id(&p, &n), false);
            let col = format!("c{i}");
            let res: Result<Option<String>, String> = if with_data {
                let mut r = CreateTableRequest::new();
                r.id = Some(full_id(&p, &n));
                ctx.g(&full_id(&p, &n), ctx.ns.create_table(r, ipc_bytes(&col))).await.map(|r| r.location)
            } else {
                let mut r = CreateEmptyTableRequest::new();
                r.id = Some(full_id(&p, &n));
                ctx.g(&full_id(&p, &n), ctx.ns.create_empty_table(r)).await.map(|r| r.location)
            };
            let opname = if with_data { "create_table" } else { "create_empty" };
            obs.label(format!("{opname}-{}", if res.is_ok() { "ok" } else { "rejected" }));
            match res {
                Ok(loc) => {
                    if dir_only && !p.is_empty() {
                        fail!("nested-accepted-dir-only", "{step}: accepted in directory-only mode");
                    }
                    let key = (p.clone(), n.clone());
                    let phys = loc.as_deref().and_then(rel_location).filter(|_| full_id(&p, &n).iter().all(|c| is_plain(c))).map(|rel| {
                        ctx.phys.push(Phys { rel, col: if with_data { Some(col.clone()) } else { None }, alive: true });
                        ctx.phys.len() - 1
                    });
                    if ctx.model.tables.contains_key(&key) {
                        obs.label("create-over-existing-accepted");
                        ctx.model.tables.insert(key, TInfo { content: Content::Unknown, phys: None, dir_missing: false });
                    } else {
                        if !p.is_empty() && !ctx.model.namespaces.contains(&p) {
                            obs.label("table-created-under-missing-namespace");
                        }
                        ctx.created.push(full_id(&p, &n));
                        let content = if with_data { Content::Data { col } } else { Content::NoDataset };
                        ctx.model.tables.insert(key, TInfo { content, phys, dir_missing: false });
                    }
                    // nothing may appear next to the namespace root
                    if !ctx.strays_seen {
                        let mut strays: Vec<String> = std::fs::read_dir(&ctx.case_dir)
                            .map(|rd| rd.filter_map(|e| e.ok()).map(|e| e.file_name().to_string_lossy().to_string()).filter(|f| f != "r").collect())
                            .unwrap_or_default();
                        // manifest-mode directory names start with a random 8-digit hash: keep the run reproducible
                        for f in strays.iter_mut() {
                            if f.len() > 9 && f.as_bytes()[8] == b'_' && f[..8].chars().all(|c| c.is_ascii_hexdigit()) {
                                *f = format!("<hash>{}", &f[8..]);
                            }
                        }
                        strays.sort();
                        if !strays.is_empty() {
                            ctx.strays_seen = true;
                            let id = if input.file_url && input.mode.manifest() {
                                "C36-url-root-join"
                            } else if full_id(&p, &n).iter().any(|c| c.contains("..")) {
                                "C36-name-path-traversal"
                            } else {
                                ""
                            };
                            let detail = format!("[{} file_url={}] {step}: accepted and created {strays:?} next to the namespace root directory", input.mode.name(), input.file_url);
                            if env.known(id) {
                                note_known(obs, id, format!("wrote-outside-root: {detail}"));
                            } else {
                                fail!("wrote-outside-root", "{detail}");
                            }
                        }
                    }
                    mutated = Some((Acted::Table(p, n, Effect::Create, how), true));
                }
                Err(e) => {
                    obs.rejected += 1;
                    ensure!(!must, "plain-create-rejected", "{step}: a fresh plain table id under an existing namespace was rejected: {e}");
                    mutated = Some((Acted::Table(p, n, Effect::Create, how), false));
                }
            }
        }
        Op::Register { ns, name, target } => {
            let p = ctx.path(ns);
            let n = ctx.name(*name);
            // candidate locations: physical tables no live model entry points to, plus a made-up one
            let live: BTreeSet<usize> = ctx.model.tables.values().filter_map(|t| t.phys).collect();
            let mut cands: Vec<Option<usize>> = (0..ctx.phys.len()).filter(|k| !live.contains(k)).map(Some).collect();
            cands.push(None);
            let pick = cands[idx(*target, cands.len())];
            let (loc, content) = match pick {
                Some(k) => {
                    let ph = &ctx.phys[k];
                    let content = match (&ph.col, ph.alive) {
                        (Some(c), true) => Content::Data { col: c.clone() },
                        _ => Content::NoDataset,
                    };
                    (ph.rel.clone(), content)
                }
                None => (format!("ext{i}"), Content::NoDataset),
            };
            let dir_missing = pick.map(|k| !ctx.phys[k].alive).unwrap_or(true);
            let mut r = RegisterTableRequest::new(loc.clone());
            r.id = Some(full_id(&p, &n));
            let res = ctx.g(&full_id(&p, &n), ctx.ns.register_table(r)).await;
            obs.label(if res.is_ok() { "register-ok" } else { "register-rejected" });
            match res {
                Ok(_) => {
                    if dir_only {
                        fail!("register-accepted-dir-only", "{step}: register_table accepted without a manifest");
                    }
                    let key = (p.clone(), n.clone());
                    if ctx.model.tables.contains_key(&key) {
                        obs.label("create-over-existing-accepted");
                        ctx.model.tables.insert(key, TInfo { content: Content::Unknown, phys: None, dir_missing: false });
                    } else {
                        ctx.created.push(full_id(&p, &n));
                        // a registered location is only looked at through the manifest; in dual mode a
                        // root-level directory `x.lance` stays visible as `x` as well, so only
                        // deregistered *nested*/hashed locations are offered there (see Deregister)
                        ctx.model.tables.insert(key, TInfo { content, phys: pick, dir_missing });
                    }
                    mutated = Some((Acted::Table(p, n, Effect::Create, How::Register), true));
                }
                Err(_) => {
                    obs.rejected += 1;
                    mutated = Some((Acted::Table(p, n, Effect::Create, How::Register), false));
                }
            }
        }
        Op::Deregister { ns, name } => {
            let p = ctx.path(ns);
            let n = ctx.name(*name);
            let key = (p.clone(), n.clone());
            // dual mode: a root table lives in `<name>.lance`, which the documented directory
            // fallback keeps listing after the manifest row is gone -> not generated
            if input.mode == Mode::Dual && p.is_empty() && ctx.model.tables.contains_key(&key) {
                obs.label("skipped-dual-deregister-root");
                return Ok(true);
            }
            let mut r = DeregisterTableRequest::new();
            r.id = Some(full_id(&p, &n));
            let res = ctx.g(&full_id(&p, &n), ctx.ns.deregister_table(r)).await;
            obs.label(if res.is_ok() { "deregister-ok" } else { "deregister-rejected" });
            match res {
                Ok(_) => {
                    if dir_only {
                        fail!("register-accepted-dir-only", "{step}: deregister_table accepted without a manifest");
                    }
                    if ctx.model.tables.remove(&key).is_none() {
                        obs.label("drop-absent-table-accepted");
                    }
                    mutated = Some((Acted::Table(p, n, Effect::Remove, How::Deregister), true));
                }
                Err(_) => {
                    obs.rejected += 1;
                    mutated = Some((Acted::Table(p, n, Effect::Remove, How::Deregister), false));
                }
            }
        }
        Op::DropTable { ns, name } => {
            let p = ctx.path(ns);
            let n = ctx.name(*name);
            let key = (p.clone(), n.clone());
            let mut r = DropTableRequest::new();
            r.id = Some(full_id(&p, &n));
            let res = ctx.g(&full_id(&p, &n), ctx.ns.drop_table(r)).await;
            obs.label(if res.is_ok() { "drop_table-ok" } else { "drop_table-rejected" });
            match res {
                Ok(_) => {
                    if dir_only && !p.is_empty() {
                        fail!("nested-accepted-dir-only", "{step}: accepted in directory-only mode");
                    }
                    match ctx.model.tables.remove(&key) {
                        Some(t) => {
                            if let Some(k) = t.phys {
                                ctx.phys[k].alive = false;
                            }
                        }
                        None => obs.label("drop-absent-table-accepted"),
                    }
                    mutated = Some((Acted::Table(p, n, Effect::Remove, How::Drop), true));
                }
                Err(_) => {
                    obs.rejected += 1;
                    mutated = Some((Acted::Table(p, n, Effect::Remove, How::Drop), false));
                }
            }
        }
        Op::DescribeTable { ns, name } | Op::TableExists { ns, name } => {
            let p = ctx.path(ns);
            let n = ctx.name(*name);
            let mut out = vec![];
            ctx.check_table(&p, &n, &mut out, obs).await;
            if let Some(d) = out.first() {
                if d.check == Check::NestedAccepted {
                    fail!("nested-accepted-dir-only", "{step}: {}", d.detail);
                }
                return judge_read(input, &ctx.model, env, obs, step, "read-unstable", d);
            }
        }
        Op::CreateDerived { .. } | Op::DropSome { .. } | Op::DropSomeNs { .. } | Op::ListBusiest { .. } => {}
        Op::Reopen => {
            ctx.ns = open_ns(input, &ctx.root).await?;
            obs.label("reopen");
            mutated = Some((Acted::Reopen, true));
        }
    }
    if let Some((acted, accepted)) = mutated {
        let discs = ctx.audit(obs).await;
        return judge(input, &ctx.model, env, obs, step, &acted, accepted, &discs);
    }
    Ok(true)
}

/// an explicit read disagrees with the model (although the audit after the previous step agreed)
fn judge_read(input: &Input, model: &Model, env: &Env, obs: &mut Obs, step: &str, kind: &'static str, d: &Disc) -> Result<bool, Failure> {
    let detail = format!("[{} inline_opt={} file_url={}] {step}: {}", input.mode.name(), input.inline_opt, input.file_url, d.detail);
    match explain(input, model, &Acted::Initial, true, d) {
        Some((id, diverges)) if env.known(id) => {
            note_known(obs, id, format!("{kind}: {detail}"));
            Ok(!diverges)
        }
        _ => Err(Failure::new(kind, detail)),
    }
}

/// Page through a listing the documented way (follow the response's page token
/// until it is absent) and, separately, the start-after way that
/// `DirectoryNamespace::apply_pagination` documents.
#[allow(clippy::too_many_arguments)]
async fn paged_listing(ctx: &mut Ctx<'_>, tables: bool, ns: &NsPath, limit: u8, want: Vec<String>, step: &str, obs: &mut Obs, env: &Env) -> Result<(), Failure> {
    let input = ctx.input;
    let what = if tables { "list_tables" } else { "list_namespaces" };
    let tag = format!("[{} inline_opt={}] {step}", input.mode.name(), input.inline_opt);
    let lim = if limit == 0 { None } else { Some(limit as i32) };
    let mut want_sorted = want.clone();
    want_sorted.sort();
    if limit > 0 && (limit as usize) < want.len() {
        ctx.paged_small = Some(format!("{what}|limit{limit}of{}", want.len()));
    }
    obs.label(format!("{what}-{}", if limit == 0 { "unpaged" } else if (limit as usize) < want.len() { "paged-multi" } else { "paged-single" }));

    async fn page(ctx: &Ctx<'_>, tables: bool, ns: &NsPath, token: Option<String>, lim: Option<i32>) -> Result<(Vec<String>, Option<String>), String> {
        if tables {
            ctx.list_tables(ns, token, lim).await
        } else {
            ctx.list_namespaces(ns, token, lim).await
        }
    }

    // 1. documented protocol
    let mut acc: Vec<String> = vec![];
    let mut token: Option<String> = None;
    let mut pages = 0;
    let mut exceeded = false;
    loop {
        obs.inner += 1;
        pages += 1;
        let (names, next) = match page(ctx, tables, ns, token.clone(), lim).await {
            Ok(r) => r,
            Err(e) => {
                if want.is_empty() {
                    obs.rejected += 1;
                    return Ok(());
                }
                fail!("list-error", "{tag}: {what}({ns:?}) failed although the model has {want:?}: {e}");
            }
        };
        if let Some(l) = lim {
            if names.len() > l as usize {
                let d = format!("{tag}: {what}({ns:?}, limit={l}) returned {} entries {names:?}", names.len());
                if env.known("C36-manifest-list-ignores-limit") && manifest_listing(input.mode, ns, tables) {
                    obs.known_hit("C36-manifest-list-ignores-limit", d);
                    exceeded = true;
                } else {
                    fail!("page-exceeds-limit", "{d}");
                }
            }
        }
        acc.extend(names);
        match next {
            Some(t) if !t.is_empty() => token = Some(t),
            _ => break,
        }
        ensure!(pages <= 64, "paging-endless", "{tag}: {what}({ns:?}) still returns a page token after 64 pages");
    }
    let mut acc_sorted = acc.clone();
    acc_sorted.sort();
    if acc_sorted != want_sorted {
        // entries lost although the caller followed the protocol?
        let is_prefix = lim.is_some() && acc.len() < want_sorted.len() && acc[..] == want_sorted[..acc.len()] && !exceeded;
        let d = format!("{tag}: following the page tokens of {what}({ns:?}, limit={lim:?}) ended after {pages} page(s) with {acc:?}; the model has {want_sorted:?}");
        if is_prefix {
            if env.known("C36-no-page-token") && !manifest_listing(input.mode, ns, tables) {
                obs.known_hit("C36-no-page-token", d);
            } else {
                fail!("paging-incomplete", "{d}");
            }
        } else {
            let check = list_diff(&acc, &want).unwrap_or(Check::ListError);
            let disc = Disc { subject: if tables { Subject::TableList(ns.clone()) } else { Subject::NsList(ns.clone()) }, check, detail: d.clone() };
            match explain(input, &ctx.model, &Acted::Initial, true, &disc) {
                Some((id, false)) if env.known(id) => {
                    note_known(obs, id, format!("read-unstable: {d}"));
                    return Ok(());
                }
                _ => fail!("read-unstable", "{d}"),
            }
        }
    }
    // documented for the directory listing: sorted
    if !manifest_listing(input.mode, ns, tables) {
        ensure!(acc.windows(2).all(|w| w[0] < w[1]), "paging-order", "{tag}: {what}({ns:?}) = {acc:?} is not strictly sorted");
    }

    // 2. start-after paging (the page token is the last name of the previous page)
    if let Some(l) = lim {
        if !manifest_listing(input.mode, ns, tables) {
            let mut acc2: Vec<String> = vec![];
            let mut token: Option<String> = None;
            for _ in 0..(want.len() + 2) {
                obs.inner += 1;
                let (names, _) = match page(ctx, tables, ns, token.clone(), lim).await {
                    Ok(r) => r,
                    Err(e) => fail!("list-error", "{tag}: {what}({ns:?}, token={token:?}) failed: {e}"),
                };
                ensure!(names.len() <= l as usize, "page-exceeds-limit", "{tag}: {what}({ns:?}, token={token:?}, limit={l}) returned {names:?}");
                if names.is_empty() {
                    break;
                }
                token = names.last().cloned();
                acc2.extend(names);
            }
            ensure!(acc2 == want_sorted, "paging-start-after", "{tag}: start-after paging of {what}({ns:?}) with limit {l} visited {acc2:?}; the model has {want_sorted:?}");
        }
    }
    Ok(())
}

/// is the listing of `ns` answered by ManifestNamespace::list_* alone?
fn manifest_listing(mode: Mode, ns: &NsPath, tables: bool) -> bool {
    match mode {
        Mode::DirOnly => false,
        Mode::ManifestOnly => true,
        Mode::Dual => !tables || !ns.is_empty(),
    }
}

impl Property for C36 {
    type Input = Input;
    fn id(&self) -> &'static str {
        "C36"
    }
    fn rule(&self) -> String {
        "Names: a pool [x, y, 2-4 confusable combinations x<sep>y, 0-2 free names, rarely the empty string] with x,y plain atoms from {a,B,1,_,-}, sep from {$ ' '' \" / % space . é _ - empty %2} and free names of length 1-4 over {a,B,1,_,-,.,$,',\",/,%,space,é}. A case works in the root and at most two namespace paths (depth 1-2, first component preferably x so that [x,y] meets x$y). 70 % of the sequences start with two creations out of the confusable family; then up to 10 (otherwise 1-12) calls: create/drop/describe/exists/list namespace, create_table (1-row Arrow IPC stream, column name unique per step), create_empty_table, register (at the directory of a deregistered table or a made-up location), deregister, drop, describe, exists, list tables with limit 1..5 or none, re-open; drop/deregister/list also in state-relative form (an existing table / namespace, the namespace holding most tables). Configurations: directory-only, manifest-only, dual; inline optimisation on/off; root as plain path or file:// URL (20 %). Oracle: BTreeMap/BTreeSet model; after every mutating call (accepted or rejected) every id the case mentions and its $-joined/split variants are re-queried (table_exists, describe_table incl. the column name, namespace_exists, list_tables, list_namespaces) and compared with the model; listings are paged by the documented page-token protocol and, for the directory listing, by start-after tokens; nothing may be written next to the root directory. Non-trivial = two accepted creations with different ids but the same alphanumeric skeleton (they differ by a special character or by the delimiter position), or a listing with a limit smaller than the number of entries; distinct by (mode, id depths, special characters involved, limit/entries).".into()
    }
    fn assumptions(&self) -> Vec<String> {
        vec![
            "names with a leading '/' are not used for create_table of a root-level table in dual mode (the dataset would be written to the file system root of the test machine; probed once by hand)".into(),
            "a call that returns Err is a rejection and must leave every observable answer unchanged; Ok means the map operation happened".into(),
            "directory-only mode: only the root namespace and single-level table ids (Appendix A row 22); register/deregister are NotSupported".into(),
            "dual mode: deregister_table of a root-level table is not generated (its <name>.lance directory stays visible through the documented directory-listing fallback)".into(),
            "register_table targets only locations that no live model entry refers to (a deregistered table's directory or a made-up one)".into(),
            "an accepted create over an existing id, and a table created under a non-existent namespace, are labelled, not failed (the statement does not say they must be rejected)".into(),
            "the manifest listing promises no order; the directory listing documents alphabetical order".into(),
            "paging protocol as documented in ListTablesRequest/Response: follow the response page_token until it is absent; additionally the start-after protocol documented at DirectoryNamespace::apply_pagination".into(),
        ]
    }
    fn cases(&self, tier: Tier) -> u32 {
        tier.pick(600, 15_000)
    }
    fn strategy(&self, _tier: Tier) -> BoxedStrategy<Input> {
        prop_oneof![3 => Just(Mode::DirOnly), 4 => Just(Mode::ManifestOnly), 4 => Just(Mode::Dual)]
            .prop_flat_map(|mode| (Just(mode), paths_strategy(mode)))
            .prop_flat_map(|(mode, paths)| {
                // 70 %: the sequence starts with two creations out of the confusable family, mostly in the root
                let fam = {
                    let near = prop_oneof![3 => Just(vec![]), 1 => ns_ref(mode, &paths, true)];
                    (near, any::<u16>(), any::<bool>()).prop_map(|(ns, pick, empty)| Op::CreateDerived { ns, pick, empty })
                };
                let ops = prop_oneof![
                    7 => (fam.clone(), fam, prop::collection::vec(op_strategy(mode, paths.clone()), 0..=10)).prop_map(|(a, b, mut rest)| {
                        let mut v = vec![a, b];
                        v.append(&mut rest);
                        v
                    }),
                    3 => prop::collection::vec(op_strategy(mode, paths), 1..=12),
                ];
                (Just(mode), prop::bool::weighted(0.7), prop::bool::weighted(0.2), names_strategy(), ops)
            })
            .prop_map(|(mode, inline_opt, file_url, (names, derived), ops)| Input { mode, inline_opt, file_url, names, derived, ops })
            .boxed()
    }
    fn max_shrink_iters(&self) -> u32 {
        300
    }
    fn check(&self, input: &Input, obs: &mut Obs, env: &Env) -> CheckResult {
        if input.names.is_empty() {
            return Ok(());
        }
        let dir = env.fresh_dir();
        // the root is a sub-directory so that a table written next to the root (C36-url-root-join)
        // still stays inside this case's scratch directory
        let rootdir = dir.join("r");
        std::fs::create_dir_all(&rootdir).unwrap();
        let p = rootdir.display().to_string();
        let root = if input.file_url { format!("file://{p}") } else { p };
        let r = env.block_on(run(input, root, dir.clone(), obs, env));
        let _ = std::fs::remove_dir_all(&dir);
        r
    }
}
