//! C37 — Feature flags and version strings gate compatibility correctly.
//!
//! Parts (one input enum):
//!  * `Variant` / `Pair` / `Str`: `LanceFileVersion` conversions against the documented table
//!    (docs/src/format/file/versioning.md + the alias comments in version.rs).
//!  * `Word`: `can_read_dataset` / `can_write_dataset` on flag words; the oracle is
//!    "accept iff no bit outside {1,2,4,8,16,32} is set".
//!  * `Inject`: a real table on the controlled store whose latest manifest is re-written with only
//!    the reader / writer flag word changed (protobuf level); opening must fail iff an unknown
//!    reader bit is set; with an unknown writer bit every write entry point must fail and leave the
//!    table unchanged.
//!  * `Hist`: generated small histories; after every commit the flag words of the new manifest are
//!    re-computed from the manifest's contents and every data file must carry the table's storage
//!    version (manifest metadata and the physical file footer).

use crate::engine::*;
use crate::store::{self, VStore};
use crate::world::{handler_of, new_session};
use crate::{ensure, fail};
use arrow_array::{Int64Array, RecordBatch, RecordBatchIterator};
use arrow_schema::{DataType, Field, Schema};
use bytes::Bytes;
use lance::dataset::builder::DatasetBuilder;
use lance::dataset::optimize::{compact_files, CompactionOptions};
use lance::dataset::transaction::{Operation, Transaction, UpdateMap, UpdateMapEntry};
use lance::dataset::{ColumnAlteration, CommitBuilder, InsertBuilder, MergeInsertBuilder, NewColumnTransform, UpdateBuilder, WhenMatched, WhenNotMatched, WriteMode, WriteParams};
use lance::session::Session;
use lance::Dataset;
use lance_encoding::version::LanceFileVersion;
use lance_index::scalar::ScalarIndexParams;
use lance_index::{DatasetIndexExt, IndexType};
use lance_table::feature_flags::{can_read_dataset, can_write_dataset};
use lance_table::format::{pb, DataStorageFormat, Manifest};
use lance_table::io::commit::CommitHandler;
use object_store::path::Path;
use proptest::prelude::*;
use prost::Message;
use serde::{Deserialize, Serialize};
use std::collections::{BTreeSet, HashMap};
use std::str::FromStr;
use std::sync::Arc;

pub struct C37;

pub const KNOWN_BITS: u64 = 1 | 2 | 4 | 8 | 16 | 32;

#[derive(Clone, Debug, Serialize, Deserialize, PartialEq)]
pub struct TableSetup {
    pub stable_row_ids: bool,
    /// 1 = 2.0, 2 = 2.1, 3 = 2.2, 0 = legacy 0.1
    pub storage: u8,
    pub v2_manifest: bool,
    pub handler: u8,
    /// create the table without rows (histories only)
    #[serde(default)]
    pub empty: bool,
}

#[derive(Clone, Debug, Serialize, Deserialize, PartialEq)]
pub enum HOp {
    /// append `n` rows; `storage` / `stable` are *requests* in the write params that differ from the table's
    Append { n: u8, storage: Option<u8>, stable: Option<bool> },
    /// delete where uid % modulus = rem
    Delete { modulus: u8, rem: u8 },
    /// delete where uid < fraction of the uid range (removes whole fragments)
    DeleteBelow { frac: u16 },
    Update { modulus: u8, rem: u8 },
    Config { key: u8, val: Option<u8> },
    Compact { materialize: bool },
    Overwrite { n: u8, storage: Option<u8>, stable: Option<bool> },
    Restore { v: u16 },
    ShallowClone,
}

impl HOp {
    fn kind(&self) -> &'static str {
        match self {
            HOp::Append { storage: None, stable: None, .. } => "append",
            HOp::Append { .. } => "append-other-params",
            HOp::Delete { .. } => "delete",
            HOp::DeleteBelow { .. } => "delete-below",
            HOp::Update { .. } => "update",
            HOp::Config { val: Some(_), .. } => "config-set",
            HOp::Config { val: None, .. } => "config-del",
            HOp::Compact { materialize: true } => "compact-mat",
            HOp::Compact { .. } => "compact",
            HOp::Overwrite { .. } => "overwrite",
            HOp::Restore { .. } => "restore",
            HOp::ShallowClone => "clone",
        }
    }
}

#[derive(Clone, Debug, Serialize, Deserialize, PartialEq)]
pub enum Input {
    /// index into the six `LanceFileVersion` variants
    Variant(u8),
    Pair(u32, u32),
    Str(String),
    Word(u64),
    Inject {
        setup: TableSetup,
        /// true: the reader flag word is replaced; false: the writer flag word
        reader_side: bool,
        flags: u64,
        /// write entry points to run (writer side), see `EP_NAMES`
        entry: Vec<u8>,
    },
    Hist { setup: TableSetup, ops: Vec<HOp> },
}

// ---------------------------------------------------------------------------
// (a) version strings

const VARIANTS: [LanceFileVersion; 6] = [LanceFileVersion::Legacy, LanceFileVersion::V2_0, LanceFileVersion::Stable, LanceFileVersion::V2_1, LanceFileVersion::Next, LanceFileVersion::V2_2];

/// documented strings -> (variant it names, concrete version it stands for, numbers of that version)
fn documented(s: &str) -> Option<(LanceFileVersion, LanceFileVersion)> {
    use LanceFileVersion::*;
    Some(match s {
        "0.1" => (Legacy, Legacy),
        "legacy" => (Legacy, Legacy), // "Alias for 0.1"
        "2.0" => (V2_0, V2_0),
        "0.3" => (V2_0, V2_0), // "Version 0.3 is an alias of 2.0"
        "2.1" => (V2_1, V2_1),
        "2.2" => (V2_2, V2_2),
        "stable" => (Stable, V2_0), // "Alias for the latest stable version (currently 2.0)"
        "next" => (Next, V2_1),     // "Alias for the latest unstable version (currently 2.1)"
        _ => return None,
    })
}

/// documented (major, minor) pairs: legacy files are 0.0-0.2, 0.3 is the alias of 2.0
fn documented_pair(major: u32, minor: u32) -> Option<LanceFileVersion> {
    use LanceFileVersion::*;
    match (major, minor) {
        (0, 0) | (0, 1) | (0, 2) => Some(Legacy),
        (0, 3) | (2, 0) => Some(V2_0),
        (2, 1) => Some(V2_1),
        (2, 2) => Some(V2_2),
        _ => None,
    }
}

fn check_variant(i: u8, obs: &mut Obs) -> CheckResult {
    let v = VARIANTS[i as usize % VARIANTS.len()];
    obs.label(format!("variant:{v:?}"));
    let s = v.to_string();
    let back = LanceFileVersion::from_str(&s);
    ensure!(matches!(back, Ok(b) if b == v), "version-string-roundtrip", "from_str(to_string({v:?}) = {s:?}) = {back:?}");
    let (name_of, concrete) = documented(&s).ok_or_else(|| Failure::new("version-string-undocumented", format!("to_string({v:?}) = {s:?} is not a documented version string")))?;
    ensure!(name_of == v, "version-string-roundtrip", "{s:?} is documented to name {name_of:?}, but is the display form of {v:?}");
    ensure!(v.resolve() == concrete, "alias-resolve", "{v:?}.resolve() = {:?}, documented concrete version is {concrete:?}", v.resolve());
    ensure!(v.resolve().resolve() == v.resolve(), "alias-resolve", "resolve is not idempotent on {v:?}");
    let (ma, mi) = v.to_numbers();
    let from_nums = LanceFileVersion::try_from_major_minor(ma, mi);
    ensure!(matches!(from_nums, Ok(b) if b == v.resolve()), "numbers-roundtrip", "try_from_major_minor(to_numbers({v:?}) = ({ma},{mi})) = {from_nums:?}, expected {:?}", v.resolve());
    ensure!(documented_pair(ma, mi) == Some(concrete), "numbers-documented", "to_numbers({v:?}) = ({ma},{mi}) which is documented as {:?}, expected {concrete:?}", documented_pair(ma, mi));
    // the display form of a concrete version is "major.minor" and converts back through the numbers
    if v.resolve() == v {
        let parts: Vec<&str> = s.split('.').collect();
        ensure!(parts.len() == 2, "version-string-shape", "display form {s:?} of the concrete version {v:?} is not major.minor");
        let (pma, pmi): (u32, u32) = (parts[0].parse().map_err(|_| Failure::new("version-string-shape", s.clone()))?, parts[1].parse().map_err(|_| Failure::new("version-string-shape", s.clone()))?);
        let r = LanceFileVersion::try_from_major_minor(pma, pmi);
        ensure!(matches!(r, Ok(b) if b == v), "string-numbers-consistent", "{v:?} displays as {s:?} but try_from_major_minor({pma},{pmi}) = {r:?}");
    }
    // what a manifest stores
    let dsf = DataStorageFormat::new(v);
    ensure!(dsf.version == concrete.to_string(), "storage-format-string", "DataStorageFormat::new({v:?}).version = {:?}, expected {:?}", dsf.version, concrete.to_string());
    let r = dsf.lance_file_version();
    ensure!(matches!(r, Ok(b) if b == concrete), "storage-format-roundtrip", "DataStorageFormat::new({v:?}).lance_file_version() = {r:?}, expected {concrete:?}");
    obs.nontrivial(format!("variant:{v:?}"));
    Ok(())
}

fn check_pair(major: u32, minor: u32, obs: &mut Obs) -> CheckResult {
    let r = LanceFileVersion::try_from_major_minor(major, minor);
    match (documented_pair(major, minor), r) {
        (Some(want), Ok(got)) => {
            ensure!(got == want, "pair-resolves-wrong", "try_from_major_minor({major},{minor}) = {got:?}, documented {want:?}");
            ensure!(got.resolve() == got, "pair-resolves-wrong", "try_from_major_minor({major},{minor}) = {got:?} is an alias");
            obs.label("pair-known");
            obs.nontrivial(format!("pair:{major}.{minor}"));
        }
        (Some(want), Err(e)) => fail!("pair-known-rejected", "try_from_major_minor({major},{minor}) failed ({e}), documented {want:?}"),
        (None, Ok(got)) => fail!("pair-unknown-accepted", "try_from_major_minor({major},{minor}) = {got:?} but no such version is documented"),
        (None, Err(_)) => {
            obs.label("pair-unknown-rejected");
            if major <= 4 && minor <= 4 {
                obs.nontrivial(format!("pair:{major}.{minor}"));
            }
        }
    }
    Ok(())
}

fn check_str(s: &str, obs: &mut Obs) -> CheckResult {
    let r = LanceFileVersion::from_str(s);
    let key = if s.is_ascii() { documented(&s.to_ascii_lowercase()) } else { None };
    match (key, r) {
        (Some((want, concrete)), Ok(got)) => {
            ensure!(got == want, "string-resolves-wrong", "from_str({s:?}) = {got:?}, documented {want:?}");
            ensure!(got.resolve() == concrete, "alias-resolve", "from_str({s:?}).resolve() = {:?}, documented {concrete:?}", got.resolve());
            obs.label(if s.chars().any(|c| c.is_ascii_uppercase()) { "string-known-mixed-case" } else { "string-known" });
            obs.nontrivial(format!("str:{s}"));
        }
        (Some((want, _)), Err(e)) => fail!("string-known-rejected", "from_str({s:?}) failed ({e}), documented {want:?}"),
        (None, Ok(got)) => fail!("string-unknown-accepted", "from_str({s:?}) = {got:?} but the string is not a documented version or alias"),
        (None, Err(_)) => obs.label("string-unknown-rejected"),
    }
    Ok(())
}

// ---------------------------------------------------------------------------
// (b) flag words

fn has_unknown(flags: u64) -> bool {
    flags & !KNOWN_BITS != 0
}

fn check_word(w: u64, obs: &mut Obs) -> CheckResult {
    let want = !has_unknown(w);
    ensure!(can_read_dataset(w) == want, "can-read-word", "can_read_dataset({w:#x}) = {}, unknown bits {:#x}", can_read_dataset(w), w & !KNOWN_BITS);
    ensure!(can_write_dataset(w) == want, "can-write-word", "can_write_dataset({w:#x}) = {}, unknown bits {:#x}", can_write_dataset(w), w & !KNOWN_BITS);
    obs.label(if want { "word-known-only" } else { "word-with-unknown" });
    if !want {
        obs.nontrivial(format!("word:{w:#x}"));
    }
    Ok(())
}

// ---------------------------------------------------------------------------
// tables

fn schema2() -> Arc<Schema> {
    Arc::new(Schema::new(vec![Field::new("uid", DataType::Int64, false), Field::new("val", DataType::Int64, true)]))
}

fn batch(start: i64, n: usize) -> RecordBatch {
    let uid = Int64Array::from_iter_values(start..start + n as i64);
    let val = Int64Array::from_iter((start..start + n as i64).map(|x| if x % 5 == 4 { None } else { Some(x * 10) }));
    RecordBatch::try_new(schema2(), vec![Arc::new(uid), Arc::new(val)]).unwrap()
}

fn reader(start: i64, n: usize) -> RecordBatchIterator<std::vec::IntoIter<Result<RecordBatch, arrow_schema::ArrowError>>> {
    RecordBatchIterator::new(vec![Ok(batch(start, n))].into_iter(), schema2())
}

fn storage_version(s: u8) -> LanceFileVersion {
    match s % 4 {
        0 => LanceFileVersion::Legacy,
        1 => LanceFileVersion::V2_0,
        2 => LanceFileVersion::V2_1,
        _ => LanceFileVersion::V2_2,
    }
}

fn storage_string(s: u8) -> &'static str {
    match s % 4 {
        0 => "0.1",
        1 => "2.0",
        2 => "2.1",
        _ => "2.2",
    }
}

struct Tbl {
    store: VStore,
    setup: TableSetup,
    handler: Arc<dyn CommitHandler>,
    uri: String,
    name: String,
}

impl Tbl {
    fn params(&self, session: &Arc<Session>, mode: WriteMode, storage: u8, stable: bool) -> WriteParams {
        WriteParams {
            mode,
            max_rows_per_file: 1000,
            max_rows_per_group: 1000,
            commit_handler: Some(self.handler.clone()),
            data_storage_version: Some(storage_version(storage)),
            enable_stable_row_ids: stable,
            enable_v2_manifest_paths: self.setup.v2_manifest,
            session: Some(session.clone()),
            auto_cleanup: None,
            ..Default::default()
        }
    }
    async fn open(&self, version: Option<u64>) -> Result<Dataset, lance::Error> {
        let session = new_session(&self.store);
        let mut b = DatasetBuilder::from_uri(&self.uri).with_session(session).with_commit_handler(self.handler.clone());
        if let Some(v) = version {
            b = b.with_version(v);
        }
        b.load().await
    }
    fn versions_dir(&self) -> String {
        format!("{}/_versions/", self.name)
    }
    /// path of the manifest with the highest attached version (read off the store, both naming schemes)
    fn latest_manifest_path(&self) -> Option<(u64, String)> {
        let dir = self.versions_dir();
        self.store
            .paths()
            .into_iter()
            .filter_map(|p| {
                let n = p.strip_prefix(&dir)?.strip_suffix(".manifest")?.to_string();
                let num: u64 = n.parse().ok()?;
                let v = if n.len() == 20 { u64::MAX - num } else { num };
                Some((v, p))
            })
            .max()
    }
}

/// Replace the flag words inside a manifest file; everything else stays byte-identical
/// (sections before the manifest message keep their offsets).
fn patch_flags(bytes: &[u8], reader: Option<u64>, writer: Option<u64>) -> Result<(Vec<u8>, pb::Manifest), String> {
    let n = bytes.len();
    if n < 20 || &bytes[n - 4..] != b"LANC" {
        return Err(format!("not a manifest file ({n} bytes)"));
    }
    let pos = i64::from_le_bytes(bytes[n - 16..n - 8].try_into().unwrap()) as usize;
    if pos + 4 > n - 16 {
        return Err(format!("manifest position {pos} out of range"));
    }
    let len = u32::from_le_bytes(bytes[pos..pos + 4].try_into().unwrap()) as usize;
    if pos + 4 + len != n - 16 {
        return Err(format!("manifest message {pos}+4+{len} does not end at the footer {}", n - 16));
    }
    let mut m = pb::Manifest::decode(&bytes[pos + 4..pos + 4 + len]).map_err(|e| format!("decode: {e}"))?;
    let orig = m.clone();
    if let Some(r) = reader {
        m.reader_feature_flags = r;
    }
    if let Some(w) = writer {
        m.writer_feature_flags = w;
    }
    let enc = m.encode_to_vec();
    let mut out = Vec::with_capacity(n + 16);
    out.extend_from_slice(&bytes[..pos]);
    out.extend_from_slice(&(enc.len() as u32).to_le_bytes());
    out.extend_from_slice(&enc);
    out.extend_from_slice(&(pos as i64).to_le_bytes());
    out.extend_from_slice(&bytes[n - 8..]);
    Ok((out, orig))
}

async fn create_table(store: &VStore, name: &str, setup: &TableSetup, obs: &mut Obs) -> Result<Option<(Tbl, Dataset)>, Failure> {
    let t = Tbl { store: store.clone(), setup: setup.clone(), handler: handler_of(setup.handler), uri: store::uri(name), name: name.to_string() };
    let session = new_session(store);
    let p = t.params(&session, WriteMode::Create, setup.storage, setup.stable_row_ids);
    match Dataset::write(reader(0, if setup.empty { 0 } else { 6 }), &t.uri, Some(p)).await {
        Ok(ds) => Ok(Some((t, ds))),
        Err(e) => {
            obs.rejected += 1;
            obs.label(format!("create-rejected:{}", truncate_str(&format!("{e}"), 60)));
            Ok(None)
        }
    }
}

// ---------------------------------------------------------------------------
// (c) injection

pub const EP_NAMES: [&str; 14] = ["append", "delete", "update", "merge_insert", "compact", "create_index", "add_columns", "alter_columns", "drop_columns", "update_config", "restore", "overwrite", "commit_transaction", "merge"];

/// read entry points (reader side of `Inject`)
pub const READ_NAMES: [&str; 4] = ["open", "open-version", "checkout-version", "checkout-latest"];

/// known-finding family of an entry point
fn family(ep: usize) -> &'static str {
    match EP_NAMES[ep] {
        "append" | "overwrite" => "insert",
        "delete" => "delete",
        "update" => "update",
        "merge_insert" => "merge-insert",
        "compact" => "compact",
        "create_index" => "create-index",
        "add_columns" | "alter_columns" | "drop_columns" | "merge" => "schema",
        "update_config" => "config",
        "restore" => "restore",
        _ => "commit",
    }
}

async fn run_entry_point(t: &Tbl, ep: usize) -> Result<(), lance::Error> {
    let session = new_session(&t.store);
    let mut ds = {
        let b = DatasetBuilder::from_uri(&t.uri).with_session(session.clone()).with_commit_handler(t.handler.clone());
        b.load().await?
    };
    match EP_NAMES[ep] {
        "append" => {
            let p = t.params(&session, WriteMode::Append, t.setup.storage, t.setup.stable_row_ids);
            ds.append(reader(100, 3), Some(p)).await
        }
        "overwrite" => {
            let p = t.params(&session, WriteMode::Overwrite, t.setup.storage, t.setup.stable_row_ids);
            InsertBuilder::new(Arc::new(ds.clone())).with_params(&p).execute_stream(reader(200, 3)).await.map(|_| ())
        }
        "delete" => ds.delete("uid = 1").await,
        "update" => {
            let job = UpdateBuilder::new(Arc::new(ds.clone())).update_where("uid = 2")?.set("val", "7")?.build()?;
            job.execute().await.map(|_| ())
        }
        "merge_insert" => {
            let mut b = MergeInsertBuilder::try_new(Arc::new(ds.clone()), vec!["uid".to_string()])?;
            b.when_matched(WhenMatched::UpdateAll).when_not_matched(WhenNotMatched::InsertAll);
            let job = b.try_build()?;
            job.execute_reader(reader(4, 4)).await.map(|_| ())
        }
        "compact" => {
            let opts = CompactionOptions { target_rows_per_fragment: 1000, num_threads: Some(1), ..Default::default() };
            let m = compact_files(&mut ds, opts, None).await?;
            if m.fragments_removed == 0 {
                return Err(lance::Error::invalid_input("harness: compaction had nothing to do", snafu::location!()));
            }
            Ok(())
        }
        "create_index" => {
            let params = ScalarIndexParams::for_builtin(lance_index::scalar::BuiltinIndexType::BTree);
            ds.create_index(&["uid"], IndexType::BTree, Some("uid_idx".into()), &params, false).await
        }
        "add_columns" => ds.add_columns(NewColumnTransform::SqlExpressions(vec![("extra".into(), "uid + 1".into())]), None, None).await,
        "alter_columns" => ds.alter_columns(&[ColumnAlteration::new("val".into()).rename("val2".into())]).await,
        "drop_columns" => ds.drop_columns(&["val"]).await,
        "update_config" => ds.update_config([("verif.k", Some("v"))]).await.map(|_| ()),
        "restore" => {
            let mut old = ds.checkout_version(1).await?;
            old.restore().await
        }
        "commit_transaction" => {
            let op = Operation::UpdateConfig {
                config_updates: Some(UpdateMap { update_entries: vec![UpdateMapEntry { key: "verif.tx".into(), value: Some("1".into()) }], replace: false }),
                table_metadata_updates: None,
                schema_metadata_updates: None,
                field_metadata_updates: HashMap::new(),
            };
            let tx = Transaction::new(ds.version().version, op, None);
            CommitBuilder::new(Arc::new(ds.clone())).execute(tx).await.map(|_| ())
        }
        "merge" => {
            let schema = Arc::new(Schema::new(vec![Field::new("uid", DataType::Int64, false), Field::new("m", DataType::Int64, true)]));
            let b = RecordBatch::try_new(schema.clone(), vec![Arc::new(Int64Array::from_iter_values(0..12)), Arc::new(Int64Array::from_iter_values(100..112))]).unwrap();
            let r = RecordBatchIterator::new(vec![Ok(b)].into_iter(), schema);
            ds.merge(r, "uid", "uid").await
        }
        other => unreachable!("{other}"),
    }
}

fn is_not_supported(e: &lance::Error) -> bool {
    matches!(e, lance::Error::NotSupported { .. })
}

async fn check_inject(setup: &TableSetup, reader_side: bool, flags: u64, entry: &[u8], obs: &mut Obs, env: &Env) -> CheckResult {
    let store = VStore::new();
    let setup = &TableSetup { empty: false, ..setup.clone() };
    let Some((t, mut ds)) = create_table(&store, "t", setup, obs).await? else { return Ok(()) };
    // version 2: a second fragment; version 3: a deletion (so the table has a deletion file)
    let session = new_session(&store);
    let herr = |what: &str, e: lance::Error| Failure::new("setup-error", format!("{what}: {e}"));
    ds.append(reader(6, 6), Some(t.params(&session, WriteMode::Append, setup.storage, setup.stable_row_ids))).await.map_err(|e| herr("append", e))?;
    ds.delete("uid = 7").await.map_err(|e| herr("delete", e))?;
    let latest = ds.version().version;
    ensure!(latest == 3, "setup-error", "setup produced version {latest}");
    let (v, mpath) = t.latest_manifest_path().ok_or_else(|| Failure::new("setup-error", "no manifest in the store".to_string()))?;
    ensure!(v == latest, "setup-error", "latest manifest in the store is {v} ({mpath}), dataset says {latest}");
    let mpath = Path::from(mpath);
    let bytes = store.read(&mpath).unwrap();
    let (patched, orig) = patch_flags(&bytes, if reader_side { Some(flags) } else { None }, if reader_side { None } else { Some(flags) }).map_err(|m| Failure::new("setup-error", m))?;
    let table_has_row_ids = orig.fragments.iter().all(|f| f.row_id_sequence.is_some());
    let orig_flags = (orig.reader_feature_flags, orig.writer_feature_flags);
    store.write_raw(&mpath, Bytes::from(patched));
    // lance's own reader sees exactly the injected word
    {
        let os = lance_io::object_store::ObjectStore::new(Arc::new(store.clone()), url::Url::parse("vs:///").unwrap(), None, None, false, true, 8, 0, None);
        match lance_table::io::manifest::read_manifest(&os, &mpath, None).await {
            Ok(m) => {
                let got = if reader_side { m.reader_feature_flags } else { m.writer_feature_flags };
                ensure!(got == flags, "setup-error", "injected {flags:#x} but read_manifest sees {got:#x}");
                let other = if reader_side { m.writer_feature_flags } else { m.reader_feature_flags };
                ensure!(other == if reader_side { orig_flags.1 } else { orig_flags.0 }, "setup-error", "the other flag word changed");
                ensure!(m.fragments.len() == orig.fragments.len() && m.version == orig.version, "setup-error", "patched manifest differs in more than the flags");
            }
            Err(_) if reader_side && flags & 2 != 0 && !table_has_row_ids => {}
            Err(e) => fail!("setup-error", "read_manifest on the patched file: {e}"),
        }
    }
    let unknown = has_unknown(flags);
    obs.label(if reader_side { "inject-reader" } else { "inject-writer" });
    obs.label(if unknown { "inject-unknown-bit" } else { "inject-known-only" });
    if unknown {
        obs.nontrivial(format!("{}|{:#x}|rowids={}", if reader_side { "reader" } else { "writer" }, flags, setup.stable_row_ids));
    }

    if reader_side {
        // a reader flag that contradicts the contents (stable row ids without row id sequences) is an invalid table
        let inconsistent = flags & 2 != 0 && !table_has_row_ids;
        let selected: Vec<usize> = if entry.is_empty() { (0..READ_NAMES.len()).collect() } else { entry.iter().map(|e| *e as usize % READ_NAMES.len()).collect() };
        for a in selected {
            let what = READ_NAMES[a];
            let r: Result<u64, lance::Error> = match what {
                "open" => t.open(None).await.map(|d| d.version().version),
                "open-version" => t.open(Some(latest)).await.map(|d| d.version().version),
                "checkout-version" => match t.open(Some(1)).await {
                    Ok(old) => old.checkout_version(latest).await.map(|d| d.version().version),
                    Err(e) => Err(e),
                },
                _ => match t.open(Some(1)).await {
                    Ok(mut old) => old.checkout_latest().await.map(|_| old.version().version),
                    Err(e) => Err(e),
                },
            };
            obs.inner += 1;
            match (unknown, r) {
                (true, Ok(v)) => {
                    let detail = format!("{what}: reader flags {flags:#x} (unknown bits {:#x}) but version {v} was opened", flags & !KNOWN_BITS);
                    let id = format!("C37-rflag-{what}");
                    if env.known(&id) {
                        obs.known_hit(&id, detail);
                        continue;
                    }
                    fail!(format!("unknown-reader-flag-accepted:{what}"), "{detail}");
                }
                (true, Err(e)) => {
                    if !is_not_supported(&e) {
                        if inconsistent {
                            obs.label("reader-refused-other-error(inconsistent-table)");
                        } else {
                            fail!("unknown-reader-flag-error-kind", "{what}: reader flags {flags:#x} refused, but not with an 'unsupported' error: {e}");
                        }
                    } else {
                        obs.label(format!("reader-refused-unsupported:{what}"));
                    }
                }
                (false, Ok(v)) => ensure!(v == latest, "inject-open-version", "{what}: opened version {v}, expected {latest}"),
                (false, Err(e)) if inconsistent => {
                    obs.rejected += 1;
                    obs.label("known-reader-flags-inconsistent-with-contents:rejected");
                    let _ = e;
                }
                (false, Err(e)) => fail!("known-reader-flags-refused", "{what}: reader flags {flags:#x} contain only known bits but opening failed: {e}"),
            }
        }
        return Ok(());
    }

    // writer side: the table opens, every write entry point must refuse
    let d = t.open(None).await.map_err(|e| Failure::new("writer-flags-block-read", format!("writer flags {flags:#x} must not prevent reading: {e}")))?;
    ensure!(d.version().version == latest, "inject-open-version", "opened version {}, expected {latest}", d.version().version);
    let n = d.count_rows(None).await.map_err(|e| Failure::new("writer-flags-block-read", format!("count_rows with writer flags {flags:#x}: {e}")))?;
    ensure!(n == 11, "inject-open-version", "count_rows = {n}, expected 11");
    drop(d);
    let snap = store.snapshot();
    let before = store.dump();
    let vdir = t.versions_dir();
    for e in entry {
        let ep = *e as usize % EP_NAMES.len();
        let name = EP_NAMES[ep];
        store.restore(&snap);
        obs.inner += 1;
        let r = run_entry_point(&t, ep).await;
        let after = store.dump();
        let changed: Vec<String> = before.iter().filter(|(k, v)| after.get(*k) != Some(*v)).map(|(k, _)| k.clone()).collect();
        let new_manifests: Vec<&String> = after.keys().filter(|k| k.starts_with(&vdir) && !before.contains_key(*k) && k.ends_with(".manifest")).collect();
        if unknown {
            match r {
                Ok(()) => {
                    let detail = format!("{name}: writer flags {flags:#x} (unknown bits {:#x}) but the write succeeded; new manifests {new_manifests:?}", flags & !KNOWN_BITS);
                    let id = format!("C37-wflag-{}", family(ep));
                    if env.known(&id) {
                        obs.known_hit(&id, detail);
                        continue;
                    }
                    fail!(format!("writer-flag-ignored:{}", family(ep)), "{detail}");
                }
                Err(e) => {
                    ensure!(changed.is_empty() && new_manifests.is_empty(), "refused-write-changed-table", "{name} was refused ({e}) but files changed {changed:?} / new manifests {new_manifests:?}");
                    let lv = t.latest_manifest_path().map(|x| x.0);
                    ensure!(lv == Some(latest), "refused-write-changed-table", "{name} was refused but the latest version moved {latest} -> {lv:?}");
                    if is_not_supported(&e) {
                        obs.label(format!("refused-unsupported:{name}"));
                    } else {
                        // refused for a reason that has nothing to do with the flags: says nothing about the gate
                        obs.label(format!("refused-other:{name}:{}", truncate_str(&format!("{e}"), 50)));
                        obs.rejected += 1;
                    }
                }
            }
        } else {
            match r {
                Ok(()) => {
                    ensure!(!new_manifests.is_empty(), "write-without-version", "{name} returned Ok but no manifest was published");
                    obs.label(format!("write-ok:{name}"));
                }
                Err(e) if is_not_supported(&e) && format!("{e}").contains("cannot be written") => fail!("known-writer-flags-refused", "{name}: writer flags {flags:#x} contain only known bits but the write was refused: {e}"),
                Err(e) => {
                    obs.rejected += 1;
                    obs.label(format!("write-rejected:{name}:{}", truncate_str(&format!("{e}"), 50)));
                }
            }
        }
    }
    Ok(())
}

// ---------------------------------------------------------------------------
// (d) histories

/// the documented function from manifest contents to flag words
fn expected_flags(m: &Manifest) -> (u64, u64) {
    let mut r = 0u64;
    let mut w = 0u64;
    if m.fragments.iter().any(|f| f.deletion_file.is_some()) {
        r |= 1;
        w |= 1;
    }
    if m.fragments.iter().any(|f| f.row_id_meta.is_some()) {
        r |= 2;
        w |= 2;
    }
    if !m.config.is_empty() {
        w |= 8;
    }
    if !m.base_paths.is_empty() {
        r |= 16;
        w |= 16;
    }
    (r, w)
}

fn pairs_of(version: &str) -> &'static [(u32, u32)] {
    match version {
        "0.1" => &[(0, 0), (0, 1), (0, 2)],
        "2.0" => &[(0, 3), (2, 0)],
        "2.1" => &[(2, 1)],
        "2.2" => &[(2, 2)],
        _ => &[],
    }
}

struct HState {
    /// expected storage version string of the table
    storage: &'static str,
    /// Some(x): no overwrite happened, the table was created with stable row ids = x
    stable: Option<bool>,
    overwritten: bool,
}

fn check_manifest(t: &Tbl, ds: &Dataset, st: &mut HState, what: &str, obs: &mut Obs, env: &Env) -> Result<(u64, u64), Failure> {
    let m = ds.manifest();
    let (er, ew) = expected_flags(m);
    let frag_with_ids = m.fragments.iter().filter(|f| f.row_id_meta.is_some()).count();
    // stable row ids: all fragments or none
    ensure!(frag_with_ids == 0 || frag_with_ids == m.fragments.len(), "row-ids-partial", "{what}: {frag_with_ids} of {} fragments carry row id sequences", m.fragments.len());
    let (gr, gw) = (m.reader_feature_flags, m.writer_feature_flags);
    // bit 2 on an empty table is decided by the table's setting, not by contents
    let mask = if m.fragments.is_empty() { !2u64 } else { !0u64 };
    ensure!(gr & mask == er & mask, "reader-flags-vs-contents", "{what} (v{}): reader flags {gr:#x} but the contents imply {er:#x} (deletion files {}, row id fragments {frag_with_ids}/{}, base paths {})", m.version, m.fragments.iter().filter(|f| f.deletion_file.is_some()).count(), m.fragments.len(), m.base_paths.len());
    ensure!(gw & mask == ew & mask, "writer-flags-vs-contents", "{what} (v{}): writer flags {gw:#x} but the contents imply {ew:#x} (config {:?}, deletion files {}, row id fragments {frag_with_ids}/{}, base paths {})", m.version, m.config, m.fragments.iter().filter(|f| f.deletion_file.is_some()).count(), m.fragments.len(), m.base_paths.len());
    ensure!(gr & 2 == gw & 2, "row-id-flag-reader-writer", "{what}: stable row id flag differs between reader ({gr:#x}) and writer ({gw:#x}) words");
    if let Some(s) = st.stable {
        if (gr & 2 != 0) != s {
            let detail = format!("{what} (v{}): table created with stable_row_ids={s} but reader flags are {gr:#x} ({} fragments)", m.version, m.fragments.len());
            // Known finding: commits that go through apply_commit(.., &Default::default(), ..) (config, index,
            // schema, restore, compaction) derive the flag from the fragments only; an empty table loses it.
            if s && m.fragments.is_empty() && what.contains("(clone)") {
                // The clone commit is built by this check itself (Dataset::shallow_clone cannot be used with the
                // custom store scheme), so the flag of an EMPTY clone says nothing about lance: not asserted.
                obs.label("empty-clone-flag-not-asserted");
                st.stable = None;
            } else if s && m.fragments.is_empty() && env.known("C37-rowid-flag-lost-empty") {
                obs.known_hit("C37-rowid-flag-lost-empty", detail);
                st.stable = None;
            } else {
                fail!("row-id-flag-lost", "{detail}");
            }
        }
    }
    ensure!(!has_unknown(gr) && !has_unknown(gw), "unknown-flag-written", "{what}: written flags {gr:#x}/{gw:#x} contain unknown bits");
    // storage version
    let ver = m.data_storage_format.version.as_str();
    ensure!(ver == st.storage, "storage-version-changed", "{what} (v{}): manifest says storage version {ver:?}, expected {:?}", m.version, st.storage);
    let ok_pairs = pairs_of(ver);
    for f in m.fragments.iter() {
        for df in &f.files {
            let p = (df.file_major_version, df.file_minor_version);
            ensure!(ok_pairs.contains(&p), "mixed-file-versions", "{what} (v{}): table storage version {ver} but data file {} of fragment {} is recorded as {}.{}", m.version, df.path, f.id, p.0, p.1);
            // the physical file
            let root = match df.base_id {
                None => t.name.clone(),
                Some(id) => match m.base_paths.get(&id) {
                    Some(bp) => match bp.path.strip_prefix("vs:///") {
                        Some(r) => r.trim_end_matches('/').to_string(),
                        None => {
                            obs.label(format!("base-path-not-vs:{}", truncate_str(&bp.path, 30)));
                            continue;
                        }
                    },
                    None => fail!("base-id-dangling", "{what}: data file {} names base {id} which is not in base_paths", df.path),
                },
            };
            let path = Path::from(format!("{root}/data/{}", df.path));
            let Some(bytes) = t.store.read(&path) else { fail!("data-file-missing", "{what} (v{}): data file {path} does not exist", m.version) };
            let n = bytes.len();
            ensure!(n >= 8 && &bytes[n - 4..] == b"LANC", "data-file-footer", "{what}: {path} does not end with the lance magic");
            let fp = (u16::from_le_bytes([bytes[n - 8], bytes[n - 7]]) as u32, u16::from_le_bytes([bytes[n - 6], bytes[n - 5]]) as u32);
            ensure!(ok_pairs.contains(&fp), "file-footer-version", "{what} (v{}): table storage version {ver} but the footer of {path} says {}.{}", m.version, fp.0, fp.1);
            obs.inner += 1;
        }
    }
    Ok((gr, gw))
}

async fn check_hist(setup: &TableSetup, ops: &[HOp], obs: &mut Obs, env: &Env) -> CheckResult {
    let store = VStore::new();
    let Some((mut t, ds0)) = create_table(&store, "t", setup, obs).await? else { return Ok(()) };
    drop(ds0);
    let mut st = HState { storage: storage_string(setup.storage), stable: Some(setup.stable_row_ids), overwritten: false };
    let mut next_uid: i64 = if setup.empty { 0 } else { 6 };
    let mut clones = 0;
    let mut words: Vec<(u64, u64)> = vec![];
    let mut kinds: Vec<&'static str> = vec![];
    let ds = t.open(None).await.map_err(|e| Failure::new("open-error", format!("after create: {e}")))?;
    words.push(check_manifest(&t, &ds, &mut st, "after create", obs, env)?);
    for (i, op) in ops.iter().enumerate() {
        let session = new_session(&store);
        let mut ds = t.open(None).await.map_err(|e| Failure::new("open-error", format!("before step {i}: {e}")))?;
        let before_v = ds.version().version;
        let r: Result<(), lance::Error> = match op {
            HOp::Append { n, storage, stable } => {
                let n = (*n as usize).clamp(1, 12);
                let req_storage = storage.map(|s| s % 4).unwrap_or(setup.storage);
                let cur_stable = ds.manifest().reader_feature_flags & 2 != 0;
                let p = t.params(&session, WriteMode::Append, req_storage, stable.unwrap_or(cur_stable));
                if storage_string(req_storage) != st.storage {
                    obs.label("append-with-other-storage-version");
                }
                let r = ds.append(reader(next_uid, n), Some(p)).await;
                next_uid += n as i64;
                r
            }
            HOp::Delete { modulus, rem } => {
                let m = (*modulus % 5) as i64 + 2;
                ds.delete(&format!("uid % {m} = {}", *rem as i64 % m)).await
            }
            HOp::DeleteBelow { frac } => {
                let k = idx(*frac, next_uid as usize + 1);
                ds.delete(&format!("uid < {k}")).await
            }
            HOp::Update { modulus, rem } => {
                let m = (*modulus % 5) as i64 + 2;
                async {
                    let job = UpdateBuilder::new(Arc::new(ds.clone())).update_where(&format!("uid % {m} = {}", *rem as i64 % m))?.set("val", "val + 1")?.build()?;
                    job.execute().await.map(|_| ())
                }
                .await
            }
            HOp::Config { key, val } => {
                let k = format!("verif.k{}", key % 2);
                let v = val.map(|v| format!("v{v}"));
                ds.update_config([(k.as_str(), v.as_deref())]).await.map(|_| ())
            }
            HOp::Compact { materialize } => {
                let opts = CompactionOptions { target_rows_per_fragment: 1000, materialize_deletions: *materialize, materialize_deletions_threshold: 0.0, num_threads: Some(1), ..Default::default() };
                compact_files(&mut ds, opts, None).await.map(|_| ())
            }
            HOp::Overwrite { n, storage, stable } => {
                let n = (*n as usize).clamp(1, 12);
                let cur_stable = ds.manifest().reader_feature_flags & 2 != 0;
                let mut p = t.params(&session, WriteMode::Overwrite, storage.map(|s| s % 4).unwrap_or(setup.storage), stable.unwrap_or(cur_stable));
                if storage.is_none() {
                    p.data_storage_version = None;
                }
                let r = InsertBuilder::new(Arc::new(ds.clone())).with_params(&p).execute_stream(reader(next_uid, n)).await.map(|_| ());
                if r.is_ok() {
                    if let Some(s) = storage {
                        st.storage = storage_string(*s % 4);
                    }
                    st.stable = None;
                    st.overwritten = true;
                }
                next_uid += n as i64;
                r
            }
            HOp::Restore { v } => {
                // only versions of the current storage lineage: restoring across an overwrite changes the storage version legitimately
                let target = 1 + idx(*v, before_v as usize) as u64;
                match ds.checkout_version(target).await {
                    Ok(mut old) => {
                        let old_storage = old.manifest().data_storage_format.version.clone();
                        let r = old.restore().await;
                        if r.is_ok() {
                            st.storage = match old_storage.as_str() {
                                "0.1" => "0.1",
                                "2.0" => "2.0",
                                "2.1" => "2.1",
                                "2.2" => "2.2",
                                _ => "?",
                            };
                            if st.overwritten {
                                st.stable = None;
                            }
                        }
                        r
                    }
                    Err(e) => Err(e),
                }
            }
            HOp::ShallowClone => {
                if clones >= 2 {
                    continue;
                }
                clones += 1;
                let name = format!("clone{clones}");
                let target = store::uri(&name);
                let v = ds.version().version;
                // Dataset::shallow_clone commits through the *default* session, which cannot resolve the
                // controlled store's URI scheme; the same transaction is committed with the table's session.
                let clone_op = Operation::Clone { is_shallow: true, ref_name: None, ref_version: v, ref_path: ds.uri().to_string(), branch_name: None };
                let tx = Transaction::new(v, clone_op, None);
                let r = CommitBuilder::new(lance::dataset::WriteDestination::Uri(&target))
                    .with_session(session.clone())
                    .with_commit_handler(t.handler.clone())
                    .enable_v2_manifest_paths(setup.v2_manifest)
                    .with_storage_format(storage_version(match st.storage { "0.1" => 0, "2.0" => 1, "2.1" => 2, _ => 3 }))
                    .execute(tx)
                    .await;
                match r {
                    Ok(_c) => {
                        t = Tbl { store: store.clone(), setup: setup.clone(), handler: t.handler.clone(), uri: target, name };
                        Ok(())
                    }
                    Err(e) => Err(e),
                }
            }
        };
        match r {
            Ok(()) => {
                obs.inner += 1;
                kinds.push(op.kind());
                let what = format!("after step {i} ({})", op.kind());
                let fresh = t.open(None).await.map_err(|e| Failure::new("open-error", format!("{what}: {e}")))?;
                let w = check_manifest(&t, &fresh, &mut st, &what, obs, env)?;
                // intermediate versions published by the op (compaction reservations) are checked too
                if !matches!(op, HOp::ShallowClone) {
                    for v in (before_v + 1)..fresh.version().version {
                        if let Ok(mid) = fresh.checkout_version(v).await {
                            check_manifest(&t, &mid, &mut st, &format!("{what}, intermediate version {v}"), obs, env)?;
                        }
                    }
                }
                words.push(w);
            }
            Err(e) => {
                obs.rejected += 1;
                obs.label(format!("rejected:{}:{}", op.kind(), truncate_str(&format!("{e}"), 40)));
            }
        }
    }
    // classification: which bits were on and later off
    let mut turned_off = BTreeSet::new();
    let mut seen_on = 0u64;
    for (r, w) in &words {
        let cur = r | w;
        let off = seen_on & !cur;
        for b in [1u64, 2, 8, 16] {
            if off & b != 0 {
                turned_off.insert(b);
            }
        }
        seen_on |= cur;
    }
    for b in [1u64, 2, 8, 16] {
        if seen_on & b != 0 {
            obs.label(format!("flag-{b}-on"));
        }
    }
    for b in &turned_off {
        obs.label(format!("flag-{b}-on-then-off"));
    }
    if !turned_off.is_empty() {
        obs.nontrivial(format!("hist|{}|off={:?}|rowids={}|{}", kinds.join(","), turned_off, setup.stable_row_ids, st.storage));
    }
    Ok(())
}

// ---------------------------------------------------------------------------
// strategies

fn setup_strategy() -> impl Strategy<Value = TableSetup> {
    (any::<bool>(), prop_oneof![4 => 1u8..4, 1 => Just(0u8)], any::<bool>(), 0u8..2, prop::bool::weighted(0.15)).prop_map(|(stable_row_ids, storage, v2_manifest, handler, empty)| TableSetup { stable_row_ids, storage, v2_manifest, handler, empty })
}

fn flag_word() -> impl Strategy<Value = u64> {
    let unknown = prop_oneof![
        3 => Just(0u64),
        2 => Just(64u64),
        1 => Just(128u64),
        1 => Just(1u64 << 63),
        2 => (6u32..64).prop_map(|b| 1u64 << b),
        1 => any::<u64>().prop_map(|w| w & !KNOWN_BITS),
    ];
    (0u64..64, unknown).prop_map(|(k, u)| k | u)
}

fn version_string() -> impl Strategy<Value = String> {
    let known = prop::sample::select(vec!["0.1", "2.0", "2.1", "2.2", "0.3", "stable", "legacy", "next"]);
    prop_oneof![
        // documented strings in mixed case
        4 => (known.clone(), any::<u32>()).prop_map(|(s, mask)| s.chars().enumerate().map(|(i, c)| if mask >> (i % 32) & 1 == 1 { c.to_ascii_uppercase() } else { c }).collect::<String>()),
        // near misses
        2 => (known, 0u8..6).prop_map(|(s, k)| match k {
            0 => format!(" {s}"),
            1 => format!("{s} "),
            2 => format!("v{s}"),
            3 => format!("{s}.0"),
            4 => s[..s.len() - 1].to_string(),
            _ => format!("{s}\u{0}"),
        }),
        2 => (0u32..5, 0u32..12).prop_map(|(a, b)| format!("{a}.{b}")),
        1 => "[0-3a-zA-Z. ſKİ]{0,7}",
        1 => Just(String::new()),
    ]
}

fn hop() -> impl Strategy<Value = HOp> {
    prop_oneof![
        4 => (1u8..8, prop::option::weighted(0.4, 0u8..4), prop::option::weighted(0.3, any::<bool>())).prop_map(|(n, storage, stable)| HOp::Append { n, storage, stable }),
        4 => (any::<u8>(), any::<u8>()).prop_map(|(modulus, rem)| HOp::Delete { modulus, rem }),
        2 => prop_oneof![2 => any::<u16>(), 1 => Just(65535u16)].prop_map(|frac| HOp::DeleteBelow { frac }),
        2 => (any::<u8>(), any::<u8>()).prop_map(|(modulus, rem)| HOp::Update { modulus, rem }),
        4 => (prop_oneof![3 => Just(0u8), 1 => Just(1u8)], prop::option::weighted(0.5, 0u8..3)).prop_map(|(key, val)| HOp::Config { key, val }),
        4 => prop::bool::weighted(0.8).prop_map(|materialize| HOp::Compact { materialize }),
        2 => (1u8..8, prop::option::weighted(0.5, 0u8..4), prop::option::weighted(0.5, any::<bool>())).prop_map(|(n, storage, stable)| HOp::Overwrite { n, storage, stable }),
        2 => any::<u16>().prop_map(|v| HOp::Restore { v }),
        1 => Just(HOp::ShallowClone),
    ]
}

fn all_entry_points() -> Vec<u8> {
    (0..EP_NAMES.len() as u8).collect()
}

impl Property for C37 {
    type Input = Input;
    fn id(&self) -> &'static str {
        "C37"
    }
    fn rule(&self) -> String {
        "Enumerated: the 6 LanceFileVersion variants; all (major,minor) in [0,4]^2; the 8 documented strings in lower, upper and alternating case plus near misses; all 2^6 words over the known bits {1,2,4,8,16,32} x unknown part {0,64,128,2^63} (thorough: all 8 subsets) through can_read_dataset/can_write_dataset; the same words injected as reader flags (open / open version / checkout from an old handle / checkout_latest must fail iff an unknown bit is set) and as writer flags (quick: every known word with unknown part 64 on one setup plus a sample of the others; thorough: all; all 14 write entry points: append, delete, update, merge_insert, compact, create_index, add/alter/drop columns, update_config, restore, overwrite, commit of a hand-built transaction, merge; each from a restored snapshot) into the latest manifest of a 3-version table (2 fragments, one deletion file), with and without stable row ids. Random: version strings (mixed case, near misses, random), pairs (any u32), flag words with random unknown bits, injections with random setups (storage 0.1/2.0/2.1/2.2, V1/V2 manifest names, both commit handlers), and histories of 1-10 ops (append incl. requests for another storage version / stable-row-id setting, delete by residue class, delete-below (whole fragments), update, config set/delete, compaction with/without materialising deletions, overwrite with another storage version, restore, shallow clone) where after every commit (and for intermediate versions) the flag words are recomputed from the manifest contents and every data file's recorded version and physical footer are compared with the table's storage version. Non-trivial: version/pair/string cases that resolve or lie in [0,4]^2; words / injections with >=1 unknown bit (distinct by word and side); histories in which a flag bit was on and later off (distinct by op-kind sequence, bits, setup).".into()
    }
    fn assumptions(&self) -> Vec<String> {
        vec![
            "known flag bits are those of feature_flags.rs (1,2,4,8,16,32); docs/src/format/table/versioning.md still lists 32 as unknown (stale doc)".into(),
            "a reader flag word that claims stable row ids on a table without row id sequences is an invalid table: refusing it is allowed".into(),
            "injection rewrites only the latest manifest; the handle used for a write is opened after the injection".into(),
            "appends keep the table's storage version and stable-row-id setting whatever the write params ask for (write.rs / insert.rs comments); overwrite may change both".into(),
            "histories never set disable_transaction_file (not reachable through the public write API), so bits 4 and 32 are expected to be 0 in written manifests".into(),
        ]
    }
    fn cases(&self, tier: Tier) -> u32 {
        tier.pick(1_200, 30_000)
    }
    fn max_shrink_iters(&self) -> u32 {
        200
    }
    fn strategy(&self, _tier: Tier) -> BoxedStrategy<Input> {
        prop_oneof![
            10 => version_string().prop_map(Input::Str),
            5 => (prop_oneof![0u32..6, any::<u32>()], prop_oneof![0u32..6, any::<u32>()]).prop_map(|(a, b)| Input::Pair(a, b)),
            10 => prop_oneof![flag_word(), any::<u64>()].prop_map(Input::Word),
            10 => (setup_strategy(), flag_word()).prop_map(|(setup, flags)| Input::Inject { setup, reader_side: true, flags, entry: vec![] }),
            10 => (setup_strategy(), flag_word(), prop::collection::vec(0u8..EP_NAMES.len() as u8, 1..5)).prop_map(|(setup, flags, entry)| Input::Inject { setup, reader_side: false, flags, entry }),
            55 => (setup_strategy(), prop::collection::vec(hop(), 1..11)).prop_map(|(setup, ops)| Input::Hist { setup, ops }),
        ]
        .boxed()
    }
    fn enumerate(&self, tier: Tier) -> Vec<Input> {
        let mut out = vec![];
        for i in 0..6 {
            out.push(Input::Variant(i));
        }
        for a in 0..=4 {
            for b in 0..=4 {
                out.push(Input::Pair(a, b));
            }
        }
        for s in ["0.1", "2.0", "2.1", "2.2", "0.3", "stable", "legacy", "next"] {
            out.push(Input::Str(s.to_string()));
            out.push(Input::Str(s.to_uppercase()));
            out.push(Input::Str(s.chars().enumerate().map(|(i, c)| if i % 2 == 0 { c.to_ascii_uppercase() } else { c }).collect()));
            out.push(Input::Str(format!("{s} ")));
            out.push(Input::Str(format!("v{s}")));
        }
        for s in ["", "0.2", "0.0", "1.0", "2", "2.3", "3.0", "2.10", "02.0", "latest", "default", "unstable", "2.0.0"] {
            out.push(Input::Str(s.to_string()));
        }
        let unknowns: Vec<u64> = match tier {
            Tier::Quick => vec![0, 64, 128, 1 << 63],
            Tier::Thorough => (0..8u64).map(|m| (if m & 1 != 0 { 64 } else { 0 }) | (if m & 2 != 0 { 128 } else { 0 }) | (if m & 4 != 0 { 1 << 63 } else { 0 })).collect(),
        };
        for k in 0..64u64 {
            for u in &unknowns {
                out.push(Input::Word(k | u));
            }
        }
        let setups = [
            TableSetup { stable_row_ids: false, storage: 1, v2_manifest: true, handler: 0, empty: false },
            TableSetup { stable_row_ids: true, storage: 2, v2_manifest: false, handler: 1, empty: false },
        ];
        for (si, setup) in setups.iter().enumerate() {
            for k in 0..64u64 {
                for u in &unknowns {
                    out.push(Input::Inject { setup: setup.clone(), reader_side: true, flags: k | u, entry: vec![] });
                    // writer side: every entry point for the words with an unknown bit, and for known-only words
                    // in the quick tier only for a sample of the known words
                    let sample = k % 9 == 0 || k == 63;
                    let first = si == 0 && *u == 64;
                    if tier == Tier::Thorough || sample || first {
                        out.push(Input::Inject { setup: setup.clone(), reader_side: false, flags: k | u, entry: all_entry_points() });
                    }
                }
            }
        }
        out
    }
    fn check(&self, input: &Input, obs: &mut Obs, env: &Env) -> CheckResult {
        match input {
            Input::Variant(i) => check_variant(*i, obs),
            Input::Pair(a, b) => {
                obs.label("pair");
                check_pair(*a, *b, obs)
            }
            Input::Str(s) => {
                obs.label("string");
                check_str(s, obs)
            }
            Input::Word(w) => {
                obs.label("word");
                check_word(*w, obs)
            }
            Input::Inject { setup, reader_side, flags, entry } => env.block_on(check_inject(setup, *reader_side, *flags, entry, obs, env)),
            Input::Hist { setup, ops } => {
                obs.label("hist");
                env.block_on(check_hist(setup, ops, obs, env))
            }
        }
    }
}

