//! C38 — Caching is transparent.
//!
//! Histories on 1-3 tables (controlled in-memory store) that share ONE `Session` whose index and
//! metadata cache capacities are drawn from {0, 1 KiB, default}.  Steps are ordinary history-engine
//! ops on one of the tables, or "drop and re-create": every object under the table's URI is deleted
//! and a DIFFERENT table (same or different schema, other rows) is created at the same URI, either
//! through the shared session or by "another process" (a separate session), so that the same version
//! numbers exist again.
//!
//! Oracle (differential): after every step a panel of observations (schema, scan, count, load_indices,
//! read_transaction, a filtered scan per column, take_rows of every row id) is made at every version of
//! the touched table through the shared session and through a brand-new session with both caches at
//! capacity 0; the two panels must be equal, and the cold one must equal the model.

use crate::engine::*;
use crate::model::*;
use crate::store::{self, VStore};
use crate::world::*;
use arrow_array::{Array, Int64Array, RecordBatch, RecordBatchIterator, UInt64Array};
use futures::TryStreamExt;
use lance::dataset::builder::DatasetBuilder;
use lance::dataset::{ProjectionRequest, WriteMode, DEFAULT_INDEX_CACHE_SIZE, DEFAULT_METADATA_CACHE_SIZE};
use lance::session::Session;
use lance::Dataset;
use lance_index::DatasetIndexExt;
use proptest::prelude::*;
use serde::{Deserialize, Serialize};
use std::collections::{BTreeMap, BTreeSet};
use std::sync::Arc;

pub struct C38;

#[derive(Clone, Debug, PartialEq, Eq, Serialize, Deserialize)]
pub struct TableSpec {
    pub cfg: TableCfg,
    pub initial: Vec<RowSeed>,
    pub init_file_rows: u16,
}

#[derive(Clone, Debug, PartialEq, Eq, Serialize, Deserialize)]
pub enum CStep {
    /// a history op on table `t`, committed through the shared session
    Op { t: u8, op: Op },
    /// delete every object under the URI of table `t` and create another table there.
    /// `same_schema`: keep the old columns (other rows); `by_shared`: the new table (and the `replay` ops that
    /// follow) are written through the shared session, otherwise by a separate session ("another process").
    Recreate { t: u8, spec: TableSpec, same_schema: bool, by_shared: bool, replay: Vec<Op> },
}

#[derive(Clone, Debug, PartialEq, Eq, Serialize, Deserialize)]
pub struct Input {
    /// 0 = capacity 0, 1 = 1 KiB (constant eviction), 2 = default
    pub index_cache: u8,
    pub meta_cache: u8,
    pub tables: Vec<TableSpec>,
    pub steps: Vec<CStep>,
    /// literal seeds for the filtered scans
    pub lits: Vec<u16>,
}

fn capacity(sel: u8, default: usize) -> usize {
    match sel % 3 {
        0 => 0,
        1 => 1024,
        _ => default,
    }
}

// ---------------------------------------------------------------------------
// observations

#[derive(Clone, Debug)]
struct Panel {
    version: u64,
    schema: Vec<(String, String)>,
    rows: Result<Vec<Row>, String>,
    count: Result<usize, String>,
    /// (name, uuid, field ids, dataset_version)
    indices: Result<Vec<(String, String, Vec<i32>, u64)>, String>,
    /// (uuid, read_version, operation name)
    txn: Result<Option<(String, u64, String)>, String>,
    filtered: Vec<(String, Result<Vec<i64>, String>)>,
    /// uids returned by take_rows(ids of the cold scan)
    take: Result<Vec<i64>, String>,
}

/// equal Ok values, or both errors (messages are not compared)
fn same<T: PartialEq>(a: &Result<T, String>, b: &Result<T, String>) -> bool {
    match (a, b) {
        (Ok(x), Ok(y)) => x == y,
        (Err(_), Err(_)) => true,
        _ => false,
    }
}

fn show<T: std::fmt::Debug>(r: &Result<T, String>) -> String {
    match r {
        Ok(v) => truncate_str(&format!("{v:?}"), 500),
        Err(e) => format!("Err({})", truncate_str(e, 300)),
    }
}

fn es(e: lance::Error) -> String {
    format!("{e}")
}

async fn scan_all(ds: &Dataset) -> Result<(Vec<Row>, Vec<(i64, u64)>), String> {
    let names: Vec<String> = ds.schema().fields.iter().map(|f| f.name.clone()).filter(|n| n != UID).collect();
    let mut sc = ds.scan();
    sc.with_row_id();
    let batches: Vec<RecordBatch> = sc.try_into_stream().await.map_err(es)?.try_collect().await.map_err(es)?;
    let rows = batches_to_rows(&batches, &names)?;
    let mut ids = vec![];
    for b in &batches {
        let u = b.column_by_name(UID).and_then(|c| c.as_any().downcast_ref::<Int64Array>().cloned()).ok_or("no uid column")?;
        let r = b.column_by_name("_rowid").and_then(|c| c.as_any().downcast_ref::<UInt64Array>().cloned()).ok_or("no _rowid column")?;
        for i in 0..b.num_rows() {
            ids.push((u.value(i), r.value(i)));
        }
    }
    Ok((sorted(rows), ids))
}

/// run an observation; with `guard` a panic becomes an `Err("PANIC: ..")` observation (used for the shared session only:
/// a stale cache entry can make lance panic, which is then classified like any other discrepancy)
async fn guarded<T>(guard: bool, fut: impl std::future::Future<Output = Result<T, String>>) -> Result<T, String> {
    use futures::FutureExt;
    if !guard {
        return fut.await;
    }
    match std::panic::AssertUnwindSafe(fut).catch_unwind().await {
        Ok(r) => r,
        Err(p) => {
            let m = p.downcast_ref::<&str>().map(|s| s.to_string()).or_else(|| p.downcast_ref::<String>().cloned()).unwrap_or_else(|| "<non-string panic>".into());
            Err(format!("PANIC: {m}"))
        }
    }
}

/// `ids`: the row ids reported by the cold scan (in scan order); `preds`: SQL filters
async fn panel(ds: &Dataset, ids: &[u64], preds: &[String], guard: bool) -> Panel {
    let mut p = Panel { version: ds.version().version, schema: vec![], rows: Ok(vec![]), count: Ok(0), indices: Ok(vec![]), txn: Ok(None), filtered: vec![], take: Ok(vec![]) };
    let arrow: arrow_schema::Schema = ds.schema().into();
    p.schema = arrow.fields().iter().map(|f| (f.name().clone(), format!("{:?}/{}", f.data_type(), f.is_nullable()))).collect();
    p.rows = guarded(guard, async { scan_all(ds).await.map(|(r, _)| r) }).await;
    p.count = guarded(guard, async { ds.count_rows(None).await.map_err(es) }).await;
    p.indices = guarded(guard, async {
        ds.load_indices().await.map_err(es).map(|v| {
            let mut out: Vec<(String, String, Vec<i32>, u64)> = v.iter().map(|i| (i.name.clone(), i.uuid.to_string(), i.fields.clone(), i.dataset_version)).collect();
            out.sort();
            out
        })
    })
    .await;
    p.txn = guarded(guard, async { ds.read_transaction().await.map_err(es).map(|t| t.map(|t| (t.uuid.clone(), t.read_version, t.operation.name().to_string()))) }).await;
    for sql in preds {
        p.filtered.push((sql.clone(), guarded(guard, filtered_uids(ds, sql, true)).await));
    }
    p.take = if ids.is_empty() {
        Ok(vec![])
    } else {
        guarded(guard, async {
            match ds.take_rows(ids, ProjectionRequest::from_columns([UID], ds.schema())).await {
                Ok(b) => b.column_by_name(UID).and_then(|c| c.as_any().downcast_ref::<Int64Array>().map(|a| a.values().to_vec())).ok_or_else(|| "take_rows result lacks uid".to_string()),
                Err(e) => Err(es(e)),
            }
        })
        .await
    };
    p
}

// ---------------------------------------------------------------------------
// tables

struct Tbl {
    w: World,
    name: String,
    incarnation: u32,
    recreated_by_shared: bool,
    /// warm panels of the previous incarnations at this URI, by version number (latest incarnation wins)
    ghosts: BTreeMap<u64, Panel>,
    /// warm panels of the current incarnation (become ghosts on re-creation)
    seen: BTreeMap<u64, Panel>,
    /// uuids of the indices of the previous incarnations / of this one (as read without caches)
    old_index_uuids: BTreeSet<String>,
    cur_index_uuids: BTreeSet<String>,
    /// the same for transaction uuids
    old_txn_uuids: BTreeSet<String>,
    cur_txn_uuids: BTreeSet<String>,
    /// version numbers at which a previous incarnation with stable row ids was read through the shared session
    old_stable_versions: BTreeSet<u64>,
    /// a listed known finding has written stale cache contents into this table's storage: no longer used
    corrupt: bool,
    /// id of the listed known finding that was observed at the HEAD version: every later write through the shared
    /// session reads that stale state, so later damage to this table is attributed to the same finding
    tainted: Option<String>,
}

async fn create_world(store: &VStore, session: &Arc<Session>, name: &str, spec: &TableSpec, uid_base: i64) -> Result<World, String> {
    let handler = handler_of(spec.cfg.handler);
    let schema = World::schema_of_cfg(&spec.cfg);
    let rows: Vec<Row> = spec.initial.iter().enumerate().map(|(i, s)| row_from_seed(&schema, uid_base + i as i64, s)).collect();
    let uri = store::uri(name);
    let arrow = Arc::new(schema.arrow());
    let reader = RecordBatchIterator::new(batches_of(&schema, &rows, &[]).into_iter().map(Ok), arrow);
    let params = mk_write_params(&handler, &spec.cfg, session, WriteMode::Create, spec.init_file_rows as usize);
    let ds = Dataset::write(reader, &uri, Some(params)).await.map_err(es)?;
    let v = ds.version().version;
    let mut w = World {
        store: store.clone(),
        session: session.clone(),
        handler,
        uri,
        cfg: spec.cfg.clone(),
        ds,
        versions: BTreeMap::new(),
        latest: v,
        next_uid: uid_base + rows.len() as i64,
        tags: BTreeMap::new(),
        col_counter: spec.cfg.cols.len() as u32 + 1,
        history: vec!["create".into()],
        rebased_commits: 0,
        index_nullable_cols: false,
        allow_nonnull_add_race: false,
        merge_null_keys: false,
        known: crate::engine::ACTIVE_KNOWN.with(|k| k.borrow().clone()),
        merge_on_uid_only: false,
        last_effect: None,
        dropped_names: vec![],
        stale_indexed_cols: BTreeSet::new(),
        deferred_remap_pending: false,
        last_cast: BTreeMap::new(),
    };
    w.versions.insert(v, VersionState { schema, rows, ordered: true, config: BTreeMap::new(), indices: BTreeMap::new() });
    Ok(w)
}

fn cold_session(store: &VStore) -> Arc<Session> {
    Arc::new(Session::new(0, 0, store::registry_for(store, true)))
}

async fn open_with(w: &World, session: Arc<Session>, v: u64) -> Result<Dataset, String> {
    DatasetBuilder::from_uri(&w.uri).with_session(session).with_commit_handler(w.handler.clone()).with_version(v).load().await.map_err(es)
}

fn preds_for(st: &VersionState, lits: &[u16]) -> Vec<String> {
    let mut out = vec![];
    for (ci, c) in st.schema.cols.iter().enumerate() {
        if c.ty.is_float() || c.ty == ColType::Bool {
            continue;
        }
        for (k, l) in lits.iter().enumerate() {
            let lit = lit_from_seed(c.ty, l.wrapping_add(ci as u16));
            let op = if k % 2 == 0 { CmpOp::Eq } else { CmpOp::Ge };
            out.push(BExpr::Cmp { col: c.name.clone(), ty: c.ty, op, lit }.sql());
        }
    }
    out
}

const ID_INDEX: &str = "C38-stale-index-metadata-after-recreate";
const ID_ROWID: &str = "C38-stale-row-id-index-after-recreate";

/// Which listed finding explains damage to table `t`?  Only for a table that was re-created at its URI while the
/// shared session (with a non-zero cache) still holds per-version entries of a previous table there: writes through
/// that session read the stale row-id index (stable row ids) or the stale index list and put the result on storage.
fn attribute(t: &Tbl, caching: bool) -> Option<String> {
    if !caching || t.incarnation == 0 {
        return None;
    }
    if let Some(id) = &t.tainted {
        return Some(id.clone());
    }
    if t.w.cfg.stable_row_ids && !t.old_stable_versions.is_empty() {
        Some(ID_ROWID.to_string())
    } else if !t.old_index_uuids.is_empty() {
        Some(ID_INDEX.to_string())
    } else {
        None
    }
}

/// damage found on table `t`: a known hit (the table is abandoned) or the failure `f`
fn damage(t: &mut Tbl, caching: bool, env: &Env, obs: &mut Obs, f: Failure) -> CheckResult {
    match attribute(t, caching).filter(|id| env.known(id)) {
        Some(id) => {
            obs.known_hit(&id, format!("{} (after writes through the shared session, which holds cache entries of a previous table at this URI)", f.msg));
            obs.label("damage-after-write-through-stale-session");
            t.corrupt = true;
            Ok(())
        }
        None => Err(f),
    }
}

fn panic_msg(p: &Box<dyn std::any::Any + Send>) -> String {
    p.downcast_ref::<&str>().map(|s| s.to_string()).or_else(|| p.downcast_ref::<String>().cloned()).unwrap_or_else(|| "<non-string panic>".into())
}

struct Ctx<'a> {
    store: &'a VStore,
    shared: &'a Arc<Session>,
    caching: bool,
    lits: &'a [u16],
    env: &'a Env,
    step: usize,
}

/// observe version `v` of table `t` warm and cold, compare, classify
async fn observe(t: &mut Tbl, v: u64, cx: &Ctx<'_>, obs: &mut Obs, what: &str) -> CheckResult {
    let st = t.w.versions[&v].clone();
    let what = format!("{what}: table {} (incarnation {}) version {v}", t.name, t.incarnation);
    // cold first: its scan provides the row ids
    let preds = preds_for(&st, cx.lits);
    let cold_res = {
        use futures::FutureExt;
        let w = &t.w;
        let preds = &preds;
        std::panic::AssertUnwindSafe(async move {
            let cold_ds = open_with(w, cold_session(cx.store), v).await.map_err(|m| Failure::new("cold-open-error", format!("{m}")))?;
            let (_, ids) = scan_all(&cold_ds).await.map_err(|m| Failure::new("cold-scan-error", format!("{m}")))?;
            let rowids: Vec<u64> = ids.iter().map(|(_, r)| *r).collect();
            let cold = panel(&cold_ds, &rowids, preds, false).await;
            Ok::<_, Failure>((ids, rowids, cold))
        })
        .catch_unwind()
        .await
    };
    let (ids, rowids, cold) = match cold_res {
        Ok(Ok(x)) => x,
        // the table itself (as read without any cache) is broken: only explicable by what was written into it
        Ok(Err(f)) => return damage(t, cx.caching, cx.env, obs, Failure::new(f.kind, format!("{what}: {}", f.msg))),
        Err(p) if attribute(t, cx.caching).is_some() => return damage(t, cx.caching, cx.env, obs, Failure::new("panic", format!("{what}: the uncached read panicked: {}", panic_msg(&p)))),
        Err(p) => std::panic::resume_unwind(p),
    };
    // warm: through the shared session; alternate a fresh handle and a checkout from the long-lived handle
    let warm_ds = if (cx.step + v as usize) % 2 == 0 { open_with(&t.w, cx.shared.clone(), v).await } else { t.w.ds.checkout_version(v).await.map_err(es) };
    let warm = match warm_ds {
        Ok(d) => panel(&d, &rowids, &preds, true).await,
        Err(m) => return Err(Failure::new("warm-open-error", format!("{what}: the shared session cannot open the version: {m}"))),
    };
    obs.inner += 1;

    // ---- the cold panel against the model ----
    let want = sorted(st.rows.clone());
    let want_take: Vec<i64> = ids.iter().map(|(u, _)| *u).collect();
    let model_bad: Option<(&'static str, String)> = match &cold.rows {
        Ok(r) if *r == want => {
            if cold.count != Ok(want.len()) {
                Some(("cold-vs-model:count", format!("{what}: uncached count_rows {:?}, model {}", cold.count, want.len())))
            } else if cold.take != Ok(want_take.clone()) {
                Some(("cold-vs-model:take-rows", format!("{what}: uncached take_rows(scan's row ids) = {}, scan says {want_take:?}", show(&cold.take))))
            } else {
                None
            }
        }
        other => Some(("cold-vs-model:rows", format!("{what}: uncached scan {} but the model has {} rows", show(other), want.len()))),
    };
    if let Some((kind, msg)) = model_bad {
        return damage(t, cx.caching, cx.env, obs, Failure::new(kind, msg));
    }
    let mut want_idx: Vec<String> = st.indices.keys().cloned().collect();
    want_idx.sort();
    let got_idx: Result<Vec<String>, String> = cold.indices.clone().map(|v| v.into_iter().map(|i| i.0).collect());
    if got_idx != Ok(want_idx.clone()) {
        // a commit made through the shared session copies the index list of the version it read into the new manifest;
        // if that list came from the cache of a previous table at this URI, the dead table's indices are now on storage
        let foreign: Vec<&(String, String, Vec<i32>, u64)> = cold.indices.as_ref().map(|v| v.iter().filter(|i| t.old_index_uuids.contains(&i.1)).collect()).unwrap_or_default();
        if !foreign.is_empty() && cx.caching && t.incarnation > 0 {
            let detail = format!("{what}: the manifest now lists {foreign:?}: indices of a table that was deleted from this URI (a commit through the shared session persisted the stale cached index list)");
            if cx.env.known("C38-stale-index-metadata-after-recreate") {
                obs.known_hit("C38-stale-index-metadata-after-recreate", detail);
                obs.label("stale-index-list-persisted-by-commit");
                t.corrupt = true;
                return Ok(());
            }
            fail!("stale-index-list-persisted", "{detail}");
        }
        fail!("cold-vs-model:indices", "{what}: uncached load_indices {:?}, model {want_idx:?}", got_idx);
    }
    if let Ok(v) = &cold.indices {
        t.cur_index_uuids.extend(v.iter().map(|i| i.1.clone()));
    }
    if let Ok(Some(x)) = &cold.txn {
        t.cur_txn_uuids.insert(x.0.clone());
    }

    // ---- warm against cold ----
    let ghost = t.ghosts.get(&v).cloned();
    let recreated = t.incarnation > 0;
    let mut bad: Vec<(&'static str, String)> = vec![];
    if warm.version != cold.version || warm.schema != cold.schema {
        bad.push(("schema", format!("schema/version through the shared session {:?} v{}, uncached {:?} v{}", warm.schema, warm.version, cold.schema, cold.version)));
    }
    if !same(&warm.rows, &cold.rows) {
        bad.push(("scan", format!("scan through the shared session {}, uncached {}", show(&warm.rows), show(&cold.rows))));
    }
    if !same(&warm.count, &cold.count) {
        bad.push(("count", format!("count_rows through the shared session {}, uncached {}", show(&warm.count), show(&cold.count))));
    }
    if !same(&warm.indices, &cold.indices) {
        bad.push(("indices", format!("load_indices through the shared session {}, uncached {}", show(&warm.indices), show(&cold.indices))));
    }
    if !same(&warm.txn, &cold.txn) {
        bad.push(("transaction", format!("read_transaction through the shared session {}, uncached {}", show(&warm.txn), show(&cold.txn))));
    }
    for ((sql, a), (_, b)) in warm.filtered.iter().zip(cold.filtered.iter()) {
        if !same(a, b) {
            bad.push(("filtered-scan", format!("filter {sql:?} through the shared session {}, uncached {}", show(a), show(b))));
            break;
        }
    }
    if !same(&warm.take, &cold.take) {
        bad.push(("take-rows", format!("take_rows through the shared session {}, uncached {}", show(&warm.take), show(&cold.take))));
    }
    // the filtered scans against the model (cold)
    for (sql, r) in &cold.filtered {
        if r.is_err() {
            obs.rejected += 1;
        }
        let _ = sql;
    }

    t.seen.insert(v, warm.clone());
    if bad.is_empty() {
        return Ok(());
    }
    ensure!(cx.caching, "cache-capacity-zero-not-transparent", "{what}: both caches have capacity 0, yet {}", bad[0].1);

    // ---- classification: which cache key family served the previous incarnation's value? ----
    if !recreated {
        fail!(format!("cache:{}", bad[0].0), "{what}: no table was re-created at this URI, yet {}", bad[0].1);
    }
    let g = ghost;
    let _ = g;
    // the value served through the shared session belongs to a table that no longer exists
    let stale_indices = !same(&warm.indices, &cold.indices) && warm.indices.as_ref().map(|v| v.iter().any(|i| t.old_index_uuids.contains(&i.1))).unwrap_or(false);
    let stale_txn = !same(&warm.txn, &cold.txn) && matches!(&warm.txn, Ok(Some(x)) if t.old_txn_uuids.contains(&x.0));
    let stale_rowids = t.w.cfg.stable_row_ids && t.old_stable_versions.contains(&v);
    for (what_obs, detail) in &bad {
        let (id, kind): (&str, &str) = match *what_obs {
            "indices" if stale_indices => ("C38-stale-index-metadata-after-recreate", "stale-index-metadata-after-recreate"),
            // a filtered scan plans with the (stale) index list
            "filtered-scan" if stale_indices => ("C38-stale-index-metadata-after-recreate", "stale-index-metadata-after-recreate"),
            "transaction" if stale_txn => ("C38-stale-transaction-after-recreate", "stale-transaction-after-recreate"),
            // take_rows resolves stable row ids through the row-id index cached per version number
            "take-rows" if stale_rowids => ("C38-stale-row-id-index-after-recreate", "stale-row-id-index-after-recreate"),
            // an indexed filter returns stable row ids, which are resolved through the same per-version row-id index
            "filtered-scan" if stale_rowids => ("C38-stale-row-id-index-after-recreate", "stale-row-id-index-after-recreate"),
            other => {
                fail!(format!("cache:{other}"), "{what}: after drop-and-recreate: {detail}");
            }
        };
        let detail = format!("{what} (re-created {}; the previous table at this URI also had a version {v}): {detail}", if t.recreated_by_shared { "through the shared session" } else { "by another session" });
        if cx.env.known(id) {
            obs.known_hit(id, detail);
            if v == t.w.latest && t.tainted.is_none() {
                t.tainted = Some(id.to_string());
            }
        } else {
            return Err(Failure::new(kind, detail));
        }
    }
    Ok(())
}

async fn run(input: &Input, obs: &mut Obs, env: &Env) -> CheckResult {
    let store = VStore::new();
    let ic = capacity(input.index_cache, DEFAULT_INDEX_CACHE_SIZE);
    let mc = capacity(input.meta_cache, DEFAULT_METADATA_CACHE_SIZE);
    let shared = Arc::new(Session::new(ic, mc, store::registry_for(&store, true)));
    let caching = ic > 0 || mc > 0;
    obs.label(format!("caches:index-{}:meta-{}", ["0", "1KiB", "default"][input.index_cache as usize % 3], ["0", "1KiB", "default"][input.meta_cache as usize % 3]));
    let mut tables: Vec<Tbl> = vec![];
    for (i, spec) in input.tables.iter().enumerate() {
        let name = format!("t{i}");
        let w = match create_world(&store, &shared, &name, spec, 0).await {
            Ok(w) => w,
            Err(_) => {
                obs.rejected += 1;
                return Ok(());
            }
        };
        tables.push(Tbl { w, name, incarnation: 0, recreated_by_shared: true, ghosts: BTreeMap::new(), seen: BTreeMap::new(), old_index_uuids: BTreeSet::new(), cur_index_uuids: BTreeSet::new(), old_txn_uuids: BTreeSet::new(), cur_txn_uuids: BTreeSet::new(), old_stable_versions: BTreeSet::new(), corrupt: false, tainted: None });
    }
    obs.label(format!("tables-{}", tables.len()));
    let mut kinds: Vec<String> = vec![];
    let mut recreated_and_queried_old_version = false;

    // initial observation
    for t in tables.iter_mut() {
        let cx = Ctx { store: &store, shared: &shared, caching, lits: &input.lits, env, step: 0 };
        let v = t.w.latest;
        observe(t, v, &cx, obs, "after create").await?;
    }

    for (i, step) in input.steps.iter().enumerate() {
        let cx = Ctx { store: &store, shared: &shared, caching, lits: &input.lits, env, step: i + 1 };
        let ti = match step {
            CStep::Op { t, .. } | CStep::Recreate { t, .. } => *t as usize % tables.len(),
        };
        let what;
        match step {
            CStep::Op { op, .. } => {
                what = format!("step {i} ({})", op.kind());
                obs.label(format!("op:{}", op.kind()));
                let t = &mut tables[ti];
                if t.corrupt {
                    obs.label("skipped:op-on-corrupted-table");
                    continue;
                }
                let r = {
                    use futures::FutureExt;
                    std::panic::AssertUnwindSafe(t.w.apply(&Step { op: op.clone(), stale: None }, obs)).catch_unwind().await
                };
                let r = match r {
                    Ok(r) => r.map_err(|f| Failure::new(format!("history:{}", f.kind), format!("{what}: {}", f.msg))),
                    Err(p) => match attribute(t, caching) {
                        Some(_) => Err(Failure::new("panic", format!("{what}: the op panicked: {}", panic_msg(&p)))),
                        None => std::panic::resume_unwind(p),
                    },
                };
                let out = match r {
                    Ok(o) => o,
                    Err(f) => {
                        damage(t, caching, env, obs, f)?;
                        continue;
                    }
                };
                kinds.push(match out {
                    StepOutcome::Committed { .. } => op.kind().to_string(),
                    StepOutcome::Rejected(_) => format!("{}!", op.kind()),
                    StepOutcome::NoOp => format!("{}-", op.kind()),
                });
            }
            CStep::Recreate { spec, same_schema, by_shared, replay, .. } => {
                what = format!("step {i} (recreate{}{})", if *same_schema { ":same-schema" } else { ":other-schema" }, if *by_shared { ":by-shared" } else { ":by-other" });
                let t = &mut tables[ti];
                let mut spec = spec.clone();
                if *same_schema {
                    spec.cfg.cols = t.w.cfg.cols.clone();
                }
                // what exists at the URI right now (read from the store itself, independent of what was observed):
                // index uuids and version numbers of the table that is about to disappear
                let prefix = format!("{}/", t.name);
                let old_stable = t.w.cfg.stable_row_ids;
                for p in store.paths() {
                    let Some(rest) = p.strip_prefix(&prefix) else { continue };
                    if let Some(r) = rest.strip_prefix("_indices/") {
                        if let Some(uuid) = r.split('/').next() {
                            t.old_index_uuids.insert(uuid.to_string());
                        }
                    }
                    if let Some(r) = rest.strip_prefix("_versions/") {
                        if let Some(n) = r.strip_suffix(".manifest").and_then(|n| n.parse::<u64>().ok()) {
                            // V2 names are u64::MAX - version, zero padded
                            let v = if r.len() >= 20 + ".manifest".len() { u64::MAX - n } else { n };
                            if old_stable {
                                t.old_stable_versions.insert(v);
                            }
                        }
                    }
                }
                // drop: every object under the URI disappears
                store.delete_prefix(&prefix);
                let writer = if *by_shared { shared.clone() } else { new_session(&store) };
                let inc = t.incarnation + 1;
                let mut w = match create_world(&store, &writer, &t.name, &spec, 1000 * inc as i64).await {
                    Ok(w) => w,
                    Err(m) => fail!("recreate-error", "{what}: creating a table at the emptied URI failed: {m}"),
                };
                // bookkeeping of what the shared session may still hold about the tables that lived here before
                if t.w.cfg.stable_row_ids {
                    let vs: Vec<u64> = t.w.versions.keys().copied().collect();
                    t.old_stable_versions.extend(vs);
                }
                let mut ghosts = std::mem::take(&mut t.ghosts);
                ghosts.extend(std::mem::take(&mut t.seen));
                t.ghosts = ghosts;
                let cur = std::mem::take(&mut t.cur_index_uuids);
                t.old_index_uuids.extend(cur);
                let cur = std::mem::take(&mut t.cur_txn_uuids);
                t.old_txn_uuids.extend(cur);
                t.corrupt = false;
                t.tainted = None;
                t.incarnation = inc;
                t.recreated_by_shared = *by_shared;
                t.w.cfg = spec.cfg.clone();
                obs.label(format!("recreate:{}:{}", if *same_schema { "same-schema" } else { "other-schema" }, if *by_shared { "by-shared" } else { "by-other" }));
                kinds.push(format!("recreate{}{}", if *same_schema { "=" } else { "~" }, if *by_shared { "s" } else { "o" }));
                let mut replay_damage: Option<Failure> = None;
                for op in replay {
                    let r = {
                        use futures::FutureExt;
                        std::panic::AssertUnwindSafe(w.apply(&Step { op: op.clone(), stale: None }, obs)).catch_unwind().await
                    };
                    match r {
                        Ok(Ok(_)) => {}
                        Ok(Err(f)) => {
                            replay_damage = Some(Failure::new(format!("history:{}", f.kind), format!("{what}: replay {}: {}", op.kind(), f.msg)));
                            break;
                        }
                        Err(p) if *by_shared && attribute(t, caching).is_some() => {
                            replay_damage = Some(Failure::new("panic", format!("{what}: replay {} panicked: {}", op.kind(), panic_msg(&p))));
                            break;
                        }
                        Err(p) => std::panic::resume_unwind(p),
                    }
                }
                if let Some(f) = replay_damage {
                    if !*by_shared {
                        return Err(f);
                    }
                    t.w = w;
                    damage(t, caching, env, obs, f)?;
                    continue;
                }
                if !*by_shared {
                    // from now on the shared session reads (and writes) the table
                    w.session = shared.clone();
                    w.ds = w.open_warm(None).await.map_err(|m| Failure::new("warm-open-error", format!("{what}: the shared session cannot open the re-created table: {m}")))?;
                }
                t.w = w;
            }
        }
        // observe: every version of the touched table (the newest 8 and the first), the head of the others
        for (k, t) in tables.iter_mut().enumerate() {
            if t.corrupt {
                continue;
            }
            let vs: Vec<u64> = t.w.versions.keys().copied().collect();
            let pick: Vec<u64> = if k == ti { vs.iter().copied().filter(|v| *v == vs[0] || vs.len() <= 9 || *v >= vs[vs.len() - 8]).collect() } else { vec![t.w.latest] };
            for v in pick {
                if t.incarnation > 0 && t.ghosts.contains_key(&v) && caching {
                    recreated_and_queried_old_version = true;
                }
                observe(t, v, &cx, obs, &what).await?;
                if t.corrupt {
                    break;
                }
            }
        }
    }
    if recreated_and_queried_old_version {
        obs.nontrivial(format!("i{}m{}:{}", input.index_cache % 3, input.meta_cache % 3, kinds.join(",")));
    }
    Ok(())
}

// ---------------------------------------------------------------------------
// strategies

fn cfg_strategy() -> impl Strategy<Value = TableCfg> {
    // non-nullable integer / string columns (no float specials, no NULL handling: those are other properties' business)
    (prop::collection::vec(prop::sample::select(&[2u8, 3, 0, 10][..]), 1..4), any::<bool>(), prop::sample::select(&[1u8, 2, 3][..]), any::<bool>(), 0u8..2)
        .prop_map(|(cols, stable_row_ids, storage, v2_manifest, handler)| TableCfg { cols: cols.into_iter().map(|t| (t, false)).collect(), stable_row_ids, storage, v2_manifest, handler })
}

fn spec_strategy() -> impl Strategy<Value = TableSpec> {
    (cfg_strategy(), prop::collection::vec(row_seed(), 1..10), prop_oneof![Just(3u16), Just(1000)]).prop_map(|(cfg, initial, init_file_rows)| TableSpec { cfg, initial, init_file_rows })
}

fn op_strategy() -> BoxedStrategy<Op> {
    prop_oneof![
        5 => op_append(),
        3 => op_delete(),
        2 => op_update(),
        // no deferred index remap, no task-wise compaction: their known defects are C13's
        2 => (prop_oneof![Just(4u16), Just(50), Just(1000)], any::<bool>(), 0u8..100).prop_map(|(target_rows, materialize, threshold_pct)| Op::Compact { target_rows, materialize, threshold_pct, defer_remap: false, max_rows_per_group: 1024 }),
        4 => op_create_index(),
        1 => op_overwrite(),
        1 => any::<u8>().prop_map(|which| Op::DropIndex { which }),
    ]
    .boxed()
}

fn step_strategy() -> BoxedStrategy<CStep> {
    prop_oneof![
        6 => (0u8..3, op_strategy()).prop_map(|(t, op)| CStep::Op { t, op }),
        2 => recreate_strategy(),
    ]
    .boxed()
}

fn recreate_strategy() -> BoxedStrategy<CStep> {
    (0u8..3, spec_strategy(), prop::bool::weighted(0.6), any::<bool>(), prop::collection::vec(op_strategy(), 0..4)).prop_map(|(t, spec, same_schema, by_shared, replay)| CStep::Recreate { t, spec, same_schema, by_shared, replay }).boxed()
}

fn input_strategy() -> BoxedStrategy<Input> {
    (
        prop_oneof![1 => Just(0u8), 1 => Just(1u8), 3 => Just(2u8)],
        prop_oneof![1 => Just(0u8), 1 => Just(1u8), 3 => Just(2u8)],
        prop::collection::vec(spec_strategy(), 1..4),
        prop::collection::vec(step_strategy(), 1..6),
        recreate_strategy(),
        prop::collection::vec(step_strategy(), 0..5),
        prop::collection::vec(0u16..40, 2..4),
    )
        .prop_map(|(index_cache, meta_cache, tables, mut pre, rec, post, lits)| {
            pre.push(rec);
            pre.extend(post);
            Input { index_cache, meta_cache, tables, steps: pre, lits }
        })
        .boxed()
}

impl Property for C38 {
    type Input = Input;
    fn id(&self) -> &'static str {
        "C38"
    }
    fn rule(&self) -> String {
        "1-3 tables (1-3 non-nullable int/string columns, storage 2.0-2.2, stable row ids or not, both manifest naming schemes and commit handlers) on the controlled in-memory store share ONE Session whose index / metadata cache capacities are drawn independently from {0, 1 KiB, default}. 2-11 steps: history ops on one table (append, delete, update, compaction, scalar index create/drop, overwrite) committed through the shared session, and at least one drop-and-recreate (every object under the URI deleted, a different table with the same or another schema created there, by the shared session or by a separate one, followed by 0-3 ops so that old version numbers exist again). After every step, at every version of the touched table (and the head of the others): schema, scan, count_rows, load_indices, read_transaction, one = and one >= filter per column with scalar indices enabled, take_rows of every row id - through the shared session (fresh handle / checkout from the long-lived handle, alternating) and through a brand-new session with capacity-0 caches; the panels must be equal and the cold one must equal the model. Non-trivial = a re-created table is observed at a version number that its predecessor also had, with a non-zero cache; distinct by cache sizes + step-kind sequence.".into()
    }
    fn assumptions(&self) -> Vec<String> {
        vec![
            "Errors are compared as 'both fail' (messages are not compared).".into(),
            "FTS / vector queries (the RowIdMaskKey cache) are not generated; see the report.".into(),
            "Columns are non-nullable and no stale handles, deferred index remaps, restores or merges are generated, so that known defects of other properties stay out of the histories.".into(),
            "A capacity-0 session is taken as 'caching disabled'.".into(),
        ]
    }
    fn cases(&self, tier: Tier) -> u32 {
        tier.pick(120, 1200)
    }
    fn max_shrink_iters(&self) -> u32 {
        100
    }
    fn strategy(&self, _tier: Tier) -> BoxedStrategy<Input> {
        input_strategy()
    }
    fn check(&self, input: &Input, obs: &mut Obs, env: &Env) -> CheckResult {
        env.block_on(run(input, obs, env))
    }
}
