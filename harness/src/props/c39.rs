//! C39 — The MemWAL index follows its state machine under concurrency.
//!
//! Concurrency is produced deterministically through stale handles: every writer owns a
//! `Dataset` handle that it refreshes only when the generated step says so.  An attempt made on
//! a handle at version `r` while the table is at `l > r` is concurrent with every commit in
//! `(r, l]`: neither side saw the other.  The order of the steps is the commit order.
//!
//! The oracle never goes through lance's `MemWalIndex` map (which silently de-duplicates): it
//! decodes the raw protobuf list of the `__lance_mem_wal` index entry of a *fresh* checkout of
//! the latest version and checks the invariants of the property statement between consecutive
//! versions, plus the pairwise exclusion of concurrent changes over the whole run.

use crate::engine::*;
use crate::model::*;
use crate::store::VStore;
use crate::world::*;
use arrow_array::RecordBatchIterator;
use lance::dataset::{MergeInsertBuilder, WhenMatched, WhenNotMatched};
use lance::index::mem_wal::{
    advance_mem_wal_generation, append_mem_wal_entry, mark_mem_wal_as_flushed, mark_mem_wal_as_merged, mark_mem_wal_as_sealed, trim_mem_wal_index, update_mem_wal_owner,
};
use lance::Dataset;
use lance_index::mem_wal::{MemWalId, MEM_WAL_INDEX_NAME};
use lance_index::DatasetIndexExt;
use lance_table::format::pb;
use lance_table::rowids::segment::U64Segment;
use prost::Message;
use proptest::prelude::*;
use serde::{Deserialize, Serialize};
use std::collections::{BTreeMap, BTreeSet};
use std::sync::Arc;

pub struct C39;

pub const KNOWN_OWNER_VS_TRIM: &str = "C39-owner-change-vs-trim";
pub const KNOWN_STALE_AFTER_MERGE_INSERT: &str = "C39-stale-update-after-merge-insert";
pub const KNOWN_DOUBLE_MERGE_INSERT: &str = "C39-two-merge-inserts-same-generation";
pub const KNOWN_RESTART_AT_ZERO: &str = "C39-trim-all-restarts-at-generation-0";

// ---------------------------------------------------------------------------
// input

#[derive(Clone, Debug, PartialEq, Eq, Serialize, Deserialize)]
pub enum GenSel {
    /// the generation for which the op is legal in the writer's view (see `natural`)
    Natural,
    /// the n-th retained generation of the region in the writer's view
    Nth(u16),
    /// a generation that does not exist in the writer's view (illegal)
    Missing,
}

#[derive(Clone, Debug, PartialEq, Eq, Serialize, Deserialize)]
pub enum OpIn {
    /// bad: 0 legal, 1 wrong expected owner, 2 expected owner None<->Some flipped, 3 same WAL location, 4 same MemTable location
    Advance { region: u8, bad: u8 },
    /// entry id = highest + 1 + skip; bad: 1 wrong owner, 2 entry id not above the highest
    Append { region: u8, gen: GenSel, skip: u8, bad: u8 },
    /// bad: 1 wrong owner
    Seal { region: u8, gen: GenSel, bad: u8 },
    Flush { region: u8, gen: GenSel, bad: u8 },
    Merge { region: u8, gen: GenSel, bad: u8 },
    /// bad: 1 same owner id, 2 same MemTable location; new_loc: also move the MemTable
    Owner { region: u8, gen: GenSel, new_loc: bool, bad: u8 },
    Trim,
    /// merge_insert(...).mark_mem_wal_as_merged(...); `update_existing`: the source row matches the
    /// existing row uid 0 (row-level conflicts between two of them), otherwise it inserts a fresh uid
    MergeInsert { region: u8, gen: GenSel, update_existing: bool, retries: bool, bad: u8 },
    /// the next life-cycle step of the oldest generation of the region that is not merged in the
    /// writer's view: open -> advance, sealed -> flush, flushed -> merge (through merge_insert if
    /// `via_mi`); no such generation -> advance
    Progress { region: u8, via_mi: bool },
}

impl OpIn {
    fn kind(&self) -> &'static str {
        match self {
            OpIn::Advance { .. } => "adv",
            OpIn::Append { .. } => "app",
            OpIn::Seal { .. } => "seal",
            OpIn::Flush { .. } => "flush",
            OpIn::Merge { .. } => "merge",
            OpIn::Owner { .. } => "owner",
            OpIn::Trim => "trim",
            OpIn::MergeInsert { .. } => "mi",
            OpIn::Progress { .. } => "progress",
        }
    }
}

#[derive(Clone, Debug, PartialEq, Eq, Serialize, Deserialize)]
pub struct StepIn {
    pub writer: u8,
    pub op: OpIn,
    /// the writer refreshes its handle to the latest version after the attempt
    pub refresh: bool,
}

#[derive(Clone, Debug, PartialEq, Eq, Serialize, Deserialize)]
pub struct RegionSetup {
    /// target state of generation i after the sequential set-up (0 open, 1 sealed, 2 flushed, 3 merged);
    /// clamped to what the API allows (only the last may stay open; merged only in generation order)
    pub gens: Vec<u8>,
    /// WAL entries appended to every generation while it is open
    pub entries: u8,
}

#[derive(Clone, Debug, PartialEq, Eq, Serialize, Deserialize)]
pub struct Input {
    /// 0 conditional put, 1 rename-if-not-exists
    pub handler: u8,
    pub v2_manifest: bool,
    pub writers: u8,
    /// one entry per region (1-2)
    pub setup: Vec<RegionSetup>,
    /// run trim_mem_wal_index once at the end of the set-up
    pub setup_trim: bool,
    pub steps: Vec<StepIn>,
}

// ---------------------------------------------------------------------------
// strategy

fn gen_sel() -> impl Strategy<Value = GenSel> {
    prop_oneof![24 => Just(GenSel::Natural), 3 => any::<u16>().prop_map(GenSel::Nth), 1 => Just(GenSel::Missing)]
}

/// an owner change is legal on every generation
fn gen_sel_owner() -> impl Strategy<Value = GenSel> {
    prop_oneof![5 => Just(GenSel::Natural), 14 => any::<u16>().prop_map(GenSel::Nth), 1 => Just(GenSel::Missing)]
}

fn bad(max: u8) -> impl Strategy<Value = u8> {
    prop_oneof![12 => Just(0u8), 1 => 1u8..=max]
}

fn region_sel() -> impl Strategy<Value = u8> {
    // 9 = a region that never exists (illegal for everything but advance, which then uses region 0)
    prop_oneof![20 => 0u8..2, 1 => Just(9u8)]
}

fn op_in() -> impl Strategy<Value = OpIn> {
    prop_oneof![
        4 => (region_sel(), bad(4)).prop_map(|(region, bad)| OpIn::Advance { region, bad }),
        3 => (region_sel(), gen_sel(), 0u8..3, bad(2)).prop_map(|(region, gen, skip, bad)| OpIn::Append { region, gen, skip, bad }),
        3 => (region_sel(), gen_sel(), bad(1)).prop_map(|(region, gen, bad)| OpIn::Seal { region, gen, bad }),
        4 => (region_sel(), gen_sel(), bad(1)).prop_map(|(region, gen, bad)| OpIn::Flush { region, gen, bad }),
        4 => (region_sel(), gen_sel(), bad(1)).prop_map(|(region, gen, bad)| OpIn::Merge { region, gen, bad }),
        5 => (region_sel(), gen_sel_owner(), any::<bool>(), bad(2)).prop_map(|(region, gen, new_loc, bad)| OpIn::Owner { region, gen, new_loc, bad }),
        4 => Just(OpIn::Trim),
        9 => (0u8..2, any::<bool>()).prop_map(|(region, via_mi)| OpIn::Progress { region, via_mi }),
        4 => (region_sel(), gen_sel(), any::<bool>(), prop::bool::weighted(0.3), bad(1)).prop_map(|(region, gen, update_existing, retries, bad)| OpIn::MergeInsert { region, gen, update_existing, retries, bad }),
    ]
}

fn step_in() -> impl Strategy<Value = StepIn> {
    (0u8..3, op_in(), prop::bool::weighted(0.35)).prop_map(|(writer, op, refresh)| StepIn { writer, op, refresh })
}

fn region_setup() -> impl Strategy<Value = RegionSetup> {
    (prop_oneof![1 => Just(0usize), 9 => 1usize..5].prop_flat_map(|n| prop::collection::vec(prop_oneof![1 => Just(0u8), 2 => Just(1u8), 3 => Just(2u8), 4 => Just(3u8)], n..=n)), 0u8..3).prop_map(|(gens, entries)| RegionSetup { gens, entries })
}

fn input_strategy(max_steps: usize) -> BoxedStrategy<Input> {
    (0u8..2, any::<bool>(), 2u8..4, prop::collection::vec(region_setup(), 1..3), prop::bool::weighted(0.25), prop::collection::vec(step_in(), 2..max_steps))
        .prop_map(|(handler, v2_manifest, writers, setup, setup_trim, steps)| Input { handler, v2_manifest, writers, setup, setup_trim, steps })
        .boxed()
}

// ---------------------------------------------------------------------------
// observed index

const OPEN: u8 = 0;
const SEALED: u8 = 1;
const FLUSHED: u8 = 2;
const MERGED: u8 = 3;

fn state_name(s: u8) -> &'static str {
    ["Open", "Sealed", "Flushed", "Merged"].get(s as usize).copied().unwrap_or("?")
}

#[derive(Clone, Debug, PartialEq, Eq)]
struct Gen {
    region: String,
    gen: u64,
    state: u8,
    owner: String,
    mem_table: String,
    wal: String,
    entries: BTreeSet<u64>,
}

impl Gen {
    fn id(&self) -> Gid {
        (self.region.clone(), self.gen)
    }
    fn short(&self) -> String {
        format!("{}#{}:{}:{}:{:?}", self.region, self.gen, state_name(self.state), self.owner, self.entries)
    }
}

type Gid = (String, u64);

/// `None`: the table has no MemWAL index.  The list is in stored order and may (if lance is
/// wrong) contain an id twice.
#[derive(Clone, Debug, PartialEq, Eq, Default)]
struct Snap {
    present: bool,
    list: Vec<Gen>,
}

impl Snap {
    fn region(&self, r: &str) -> Vec<&Gen> {
        let mut v: Vec<&Gen> = self.list.iter().filter(|g| g.region == r).collect();
        v.sort_by_key(|g| g.gen);
        v
    }
    fn get(&self, id: &Gid) -> Option<&Gen> {
        self.list.iter().find(|g| g.region == id.0 && g.gen == id.1)
    }
    fn short(&self) -> String {
        if !self.present {
            return "<no MemWAL index>".into();
        }
        format!("[{}]", self.list.iter().map(|g| g.short()).collect::<Vec<_>>().join(", "))
    }
}

async fn read_snap(ds: &Dataset) -> Result<Snap, Failure> {
    let v = ds.version().version;
    let indices = ds.load_indices().await.map_err(|e| Failure::new("load-indices-error", format!("v{v}: {e}")))?;
    let metas: Vec<_> = indices.iter().filter(|i| i.name == MEM_WAL_INDEX_NAME).collect();
    if metas.is_empty() {
        return Ok(Snap::default());
    }
    ensure!(metas.len() == 1, "memwal-index-listed-twice", "v{v}: {} index entries are named {MEM_WAL_INDEX_NAME}", metas.len());
    let Some(any) = metas[0].index_details.as_ref() else { fail!("memwal-index-without-details", "v{v}: the MemWAL index entry has no details") };
    let details: pb::MemWalIndexDetails = any.to_msg().map_err(|e| Failure::new("memwal-details-decode", format!("v{v}: {e}")))?;
    let mut list = vec![];
    for m in details.mem_wal_list {
        let Some(id) = m.id else { fail!("memwal-details-decode", "v{v}: MemWal without id") };
        ensure!((0..=3).contains(&m.state), "memwal-details-decode", "v{v}: MemWal {}#{} has state {}", id.region, id.generation, m.state);
        let seg = pb::U64Segment::decode(m.wal_entries.as_slice()).map_err(|e| Failure::new("memwal-details-decode", format!("v{v}: wal_entries of {}#{}: {e}", id.region, id.generation)))?;
        let seg = U64Segment::try_from(seg).map_err(|e| Failure::new("memwal-details-decode", format!("v{v}: wal_entries of {}#{}: {e}", id.region, id.generation)))?;
        ensure!(seg.len() <= 10_000, "memwal-details-decode", "v{v}: {}#{} lists {} WAL entries", id.region, id.generation, seg.len());
        list.push(Gen { region: id.region, gen: id.generation, state: m.state as u8, owner: m.owner_id, mem_table: m.mem_table_location, wal: m.wal_location, entries: seg.iter().collect() });
    }
    Ok(Snap { present: true, list })
}

// ---------------------------------------------------------------------------
// resolved calls

#[derive(Clone, Debug)]
enum Call {
    Advance { region: String, mem_table: String, wal: String, expected: Option<String>, new_owner: String },
    Append { region: String, gen: u64, entry: u64, owner: String },
    Seal { region: String, gen: u64, owner: String },
    Flush { region: String, gen: u64, owner: String },
    Merge { region: String, gen: u64, owner: String },
    Owner { region: String, gen: u64, new_owner: String, new_loc: Option<String> },
    Trim,
    MergeInsert { region: String, gen: u64, owner: String, update_existing: bool, retries: bool },
}

#[derive(Clone, Debug)]
struct Resolved {
    call: Call,
    kind: &'static str,
    /// every documented precondition holds in the writer's view
    legal: bool,
    /// generations the attempt sets out to change (a trim: the merged generations of the view)
    touched: Vec<Gid>,
}

fn region_name(r: u8, nregions: usize) -> String {
    if r == 9 {
        "nowhere".into()
    } else {
        format!("r{}", r as usize % nregions)
    }
}

/// the generation an op is meant for, in `view`
fn natural(kind: &str, gens: &[&Gen]) -> Option<u64> {
    let last = gens.last()?;
    let g = match kind {
        // the open (last) generation
        "app" | "seal" | "owner" => last.gen,
        "flush" => gens.iter().find(|g| g.state == SEALED).map(|g| g.gen).unwrap_or(last.gen),
        // the oldest generation that is not merged yet (flushed memtables are merged oldest first)
        _ => gens.iter().find(|g| g.state != MERGED).map(|g| g.gen).unwrap_or(last.gen),
    };
    Some(g)
}

fn pick_gen(sel: &GenSel, kind: &str, gens: &[&Gen]) -> u64 {
    match sel {
        GenSel::Natural => natural(kind, gens).unwrap_or(0),
        GenSel::Nth(f) => {
            if gens.is_empty() {
                0
            } else {
                gens[idx(*f, gens.len())].gen
            }
        }
        GenSel::Missing => gens.last().map(|g| g.gen + 2).unwrap_or(5),
    }
}

/// Resolve a generated op against the writer's view.  `tag` makes owner ids and locations unique.
/// Returns None when the op would merge a flushed generation before an older one (a use the
/// generator excludes, see the report: the in-tree callers merge oldest first).
fn resolve(op: &OpIn, view: &Snap, nregions: usize, tag: &str) -> Option<Resolved> {
    if let OpIn::Progress { region, via_mi } = op {
        let r = region_name(*region, nregions);
        let gens = view.region(&r);
        let step = match gens.iter().find(|g| g.state != MERGED).map(|g| g.state) {
            Some(SEALED) => OpIn::Flush { region: *region, gen: GenSel::Natural, bad: 0 },
            Some(FLUSHED) if *via_mi => OpIn::MergeInsert { region: *region, gen: GenSel::Natural, update_existing: false, retries: false, bad: 0 },
            Some(FLUSHED) => OpIn::Merge { region: *region, gen: GenSel::Natural, bad: 0 },
            _ => OpIn::Advance { region: *region, bad: 0 },
        };
        return resolve(&step, view, nregions, tag);
    }
    // `Natural` without a generation in the required state: take the region's next life-cycle step instead
    let (sel_region, required) = match op {
        OpIn::Append { region, gen: GenSel::Natural, .. } | OpIn::Seal { region, gen: GenSel::Natural, .. } => (*region, Some(OPEN)),
        OpIn::Flush { region, gen: GenSel::Natural, .. } => (*region, Some(SEALED)),
        OpIn::Merge { region, gen: GenSel::Natural, .. } | OpIn::MergeInsert { region, gen: GenSel::Natural, .. } => (*region, Some(FLUSHED)),
        _ => (0, None),
    };
    if let Some(st) = required {
        if sel_region != 9 {
            let r = region_name(sel_region, nregions);
            let gens = view.region(&r);
            let target = natural(op.kind(), &gens).and_then(|g| gens.iter().find(|x| x.gen == g).map(|x| x.state));
            if target != Some(st) {
                return resolve(&OpIn::Progress { region: sel_region, via_mi: matches!(op, OpIn::MergeInsert { .. }) }, view, nregions, tag);
            }
        }
    }
    let kind = op.kind();
    let mutate = |region: u8, sel: &GenSel| -> (String, u64, Option<Gen>, Vec<Gen>) {
        let r = region_name(region, nregions);
        let gens = view.region(&r);
        let g = pick_gen(sel, kind, &gens);
        let cur = gens.iter().find(|x| x.gen == g).map(|x| (*x).clone());
        (r, g, cur, gens.into_iter().cloned().collect())
    };
    let owner_arg = |cur: &Option<Gen>, bad: u8| -> String {
        match cur {
            Some(c) if bad != 1 => c.owner.clone(),
            _ => "somebody-else".into(),
        }
    };
    let out_of_order_merge = |cur: &Option<Gen>, gens: &[Gen]| -> bool {
        match cur {
            Some(c) if c.state == FLUSHED => gens.iter().any(|o| o.gen < c.gen && o.state != MERGED),
            _ => false,
        }
    };
    Some(match op {
        OpIn::Advance { region, bad } => {
            let r = region_name(if *region == 9 { 0 } else { *region }, nregions);
            let gens = view.region(&r);
            let latest = gens.last().cloned();
            let mut expected = latest.map(|l| l.owner.clone());
            let mut mem_table = format!("mt-{tag}");
            let mut wal = format!("wal-{tag}");
            match bad {
                1 => expected = Some("somebody-else".into()),
                2 => expected = if expected.is_some() { None } else { Some("somebody-else".into()) },
                3 => {
                    if let Some(l) = latest {
                        wal = l.wal.clone()
                    }
                }
                4 => {
                    if let Some(l) = latest {
                        mem_table = l.mem_table.clone()
                    }
                }
                _ => {}
            }
            let legal = match latest {
                Some(l) => expected.as_deref() == Some(l.owner.as_str()) && wal != l.wal && mem_table != l.mem_table,
                None => expected.is_none(),
            };
            let mut touched = vec![];
            match latest {
                Some(l) => {
                    if l.state == OPEN {
                        touched.push(l.id());
                    }
                    touched.push((r.clone(), l.gen + 1));
                }
                None => touched.push((r.clone(), 0)),
            }
            Resolved { call: Call::Advance { region: r, mem_table, wal, expected, new_owner: format!("own-{tag}") }, kind, legal, touched }
        }
        OpIn::Append { region, gen, skip, bad } => {
            let (r, g, cur, _) = mutate(*region, gen);
            let owner = owner_arg(&cur, *bad);
            let hi = cur.as_ref().and_then(|c| c.entries.iter().next_back().copied());
            let entry = match (hi, *bad) {
                (Some(h), 2) => h,
                (Some(h), _) => h + 1 + *skip as u64,
                (None, _) => *skip as u64,
            };
            let legal = cur.as_ref().map(|c| c.state == OPEN && c.owner == owner && hi.map_or(true, |h| entry > h)).unwrap_or(false);
            Resolved { call: Call::Append { region: r.clone(), gen: g, entry, owner }, kind, legal, touched: vec![(r, g)] }
        }
        OpIn::Seal { region, gen, bad } => {
            let (r, g, cur, _) = mutate(*region, gen);
            let owner = owner_arg(&cur, *bad);
            let legal = cur.as_ref().map(|c| c.state == OPEN && c.owner == owner).unwrap_or(false);
            Resolved { call: Call::Seal { region: r.clone(), gen: g, owner }, kind, legal, touched: vec![(r, g)] }
        }
        OpIn::Flush { region, gen, bad } => {
            let (r, g, cur, _) = mutate(*region, gen);
            let owner = owner_arg(&cur, *bad);
            let legal = cur.as_ref().map(|c| c.state == SEALED && c.owner == owner).unwrap_or(false);
            Resolved { call: Call::Flush { region: r.clone(), gen: g, owner }, kind, legal, touched: vec![(r, g)] }
        }
        OpIn::Merge { region, gen, bad } => {
            let (r, g, cur, gens) = mutate(*region, gen);
            if out_of_order_merge(&cur, &gens) {
                return None;
            }
            let owner = owner_arg(&cur, *bad);
            let legal = cur.as_ref().map(|c| c.state == FLUSHED && c.owner == owner).unwrap_or(false);
            Resolved { call: Call::Merge { region: r.clone(), gen: g, owner }, kind, legal, touched: vec![(r, g)] }
        }
        OpIn::MergeInsert { region, gen, update_existing, retries, bad } => {
            let (r, g, cur, gens) = mutate(*region, gen);
            if out_of_order_merge(&cur, &gens) {
                return None;
            }
            let owner = owner_arg(&cur, *bad);
            let legal = cur.as_ref().map(|c| c.state == FLUSHED && c.owner == owner).unwrap_or(false);
            Resolved { call: Call::MergeInsert { region: r.clone(), gen: g, owner, update_existing: *update_existing, retries: *retries }, kind, legal, touched: vec![(r, g)] }
        }
        OpIn::Owner { region, gen, new_loc, bad } => {
            let (r, g, cur, _) = mutate(*region, gen);
            let new_owner = match (&cur, *bad) {
                (Some(c), 1) => c.owner.clone(),
                _ => format!("own-{tag}"),
            };
            let loc = match (&cur, *bad, *new_loc) {
                (Some(c), 2, _) => Some(c.mem_table.clone()),
                (_, _, true) => Some(format!("mt-{tag}")),
                _ => None,
            };
            let legal = cur.as_ref().map(|c| c.owner != new_owner && loc.as_deref() != Some(c.mem_table.as_str())).unwrap_or(false);
            Resolved { call: Call::Owner { region: r.clone(), gen: g, new_owner, new_loc: loc }, kind, legal, touched: vec![(r, g)] }
        }
        OpIn::Progress { .. } => unreachable!(),
        OpIn::Trim => {
            // no other index exists on the table, so every merged generation of the view is removed
            let touched = view.list.iter().filter(|g| g.state == MERGED).map(|g| g.id()).collect();
            Resolved { call: Call::Trim, kind, legal: view.present, touched }
        }
    })
}

// ---------------------------------------------------------------------------
// the run

#[derive(Clone, Debug)]
struct Commit {
    /// version of the handle the attempt was made on
    read: u64,
    /// version it produced
    version: u64,
    kind: &'static str,
    /// generations it changed (a trim: the ones it removed)
    touched: Vec<Gid>,
    desc: String,
}

struct Run {
    w: World,
    nregions: usize,
    /// observed index per version
    snaps: BTreeMap<u64, Snap>,
    latest: u64,
    commits: Vec<Commit>,
    /// generations removed so far -> version that removed them
    gone: BTreeMap<Gid, u64>,
    ctr: u32,
    next_uid: i64,
    /// set when a listed known finding was hit: the table is off the state machine, the run ends
    stop: bool,
    // classification
    conc_same_gen: u32,
    conc_with_trim: u32,
    trace: Vec<String>,
    /// kind of the last resolved call
    last_kind: &'static str,
}

#[derive(Clone, Copy, PartialEq, Eq)]
enum Outcome {
    Committed,
    Rejected,
    Skipped,
}

fn err_class(msg: &str) -> &'static str {
    if msg.contains("preempted by concurrent") || msg.contains("conflict") || msg.contains("Conflict") {
        "conflict"
    } else if msg.contains("is in state") {
        "wrong-state"
    } else if msg.contains("has owner_id") {
        "wrong-owner"
    } else if msg.contains("Cannot find MemWAL") {
        "no-such-memwal"
    } else if msg.contains("Must use a different") {
        "same-value"
    } else if msg.contains("must be higher") {
        "entry-id"
    } else if msg.contains("not enabled") {
        "no-index"
    } else if msg.contains("Expected") {
        "expected-owner-shape"
    } else if msg.contains("contention") {
        "contention"
    } else {
        "other"
    }
}

impl Run {
    async fn fresh_latest(&self) -> Result<Dataset, Failure> {
        self.w.open_fresh(None).await.map_err(|e| Failure::new("open-latest-error", e))
    }

    async fn exec(&mut self, call: &Call, h: &mut Dataset) -> Result<(), String> {
        let e = |e: lance::Error| format!("{e}");
        match call {
            Call::Advance { region, mem_table, wal, expected, new_owner } => advance_mem_wal_generation(h, region, mem_table, wal, expected.as_deref(), new_owner).await.map_err(e),
            Call::Append { region, gen, entry, owner } => append_mem_wal_entry(h, region, *gen, *entry, owner).await.map(|_| ()).map_err(e),
            Call::Seal { region, gen, owner } => mark_mem_wal_as_sealed(h, region, *gen, owner).await.map(|_| ()).map_err(e),
            Call::Flush { region, gen, owner } => mark_mem_wal_as_flushed(h, region, *gen, owner).await.map(|_| ()).map_err(e),
            Call::Merge { region, gen, owner } => mark_mem_wal_as_merged(h, region, *gen, owner).await.map(|_| ()).map_err(e),
            Call::Owner { region, gen, new_owner, new_loc } => update_mem_wal_owner(h, region, *gen, new_owner, new_loc.as_deref()).await.map(|_| ()).map_err(e),
            Call::Trim => trim_mem_wal_index(h).await.map_err(e),
            Call::MergeInsert { region, gen, owner, update_existing, retries } => {
                let schema = self.w.state().schema.clone();
                let uid = if *update_existing {
                    0
                } else {
                    self.next_uid += 1;
                    self.next_uid
                };
                let row = Row { uid, vals: schema.cols.iter().map(|_| Val::I(self.ctr as i128)).collect() };
                let batch = rows_to_batch(&schema, &[row]);
                let reader = RecordBatchIterator::new(vec![Ok(batch)], Arc::new(schema.arrow()));
                let mut b = MergeInsertBuilder::try_new(Arc::new(h.clone()), vec![UID.to_string()]).map_err(e)?;
                b.when_matched(WhenMatched::UpdateAll).when_not_matched(WhenNotMatched::InsertAll);
                // default is 10 retries; a retry re-runs the job on the latest version
                b.conflict_retries(if *retries { 3 } else { 0 });
                b.mark_mem_wal_as_merged(MemWalId::new(region, *gen), owner).await.map_err(e)?;
                let job = b.try_build().map_err(e)?;
                let (ds, _stats) = job.execute_reader(reader).await.map_err(e)?;
                *h = ds.as_ref().clone();
                Ok(())
            }
        }
    }

    /// One attempt of `op` on handle `h` (whose version is what the writer has seen).
    async fn attempt(&mut self, op: &OpIn, h: &mut Dataset, who: &str, obs: &mut Obs, env: &Env) -> Result<Outcome, Failure> {
        self.ctr += 1;
        self.last_kind = "none";
        let tag = format!("{who}{}", self.ctr);
        let read = h.version().version;
        let view = self.snaps.get(&read).cloned().ok_or_else(|| Failure::new("harness-unknown-version", format!("handle at v{read} which was never observed")))?;
        let Some(res) = resolve(op, &view, self.nregions, &tag) else {
            obs.label("skipped:merge-before-older-generation");
            return Ok(Outcome::Skipped);
        };
        self.last_kind = res.kind;
        let before = self.latest;
        let stale = read < before;
        let desc = format!("{who}:{:?}@v{read}", res.call);

        // classification: attempts concurrent with an earlier commit
        for c in self.commits.iter().filter(|c| c.version > read) {
            if c.touched.iter().any(|t| res.touched.contains(t)) {
                self.conc_same_gen += 1;
            }
            if c.kind == "trim" || res.kind == "trim" {
                self.conc_with_trim += 1;
            }
        }

        let out = self.exec(&res.call, h).await;
        obs.inner += 1;
        let latest_ds = self.fresh_latest().await?;
        let now = latest_ds.version().version;
        self.trace.push(format!("{desc}{} -> {}", if stale { format!(" (latest v{before})") } else { String::new() }, match &out {
            Ok(()) => format!("committed v{now}"),
            Err(m) => format!("Err({})", truncate_str(m, 160)),
        }));
        match out {
            Err(msg) => {
                obs.rejected += 1;
                obs.label(format!("rejected:{}:{}{}", res.kind, err_class(&msg), if stale { "*" } else { "" }));
                ensure!(now == before, "failed-attempt-changed-table", "{desc} returned Err({}) but the latest version moved v{before} -> v{now}\n{}", truncate_str(&msg, 300), self.history());
                if res.legal && !stale {
                    obs.label(format!("legal-sequential-attempt-rejected:{}", res.kind));
                }
                if !res.legal {
                    obs.label("illegal-attempt-rejected");
                }
                Ok(Outcome::Rejected)
            }
            Ok(()) => {
                ensure!(now > before, "ok-without-version", "{desc} returned Ok but no version was published (latest v{now})\n{}", self.history());
                ensure!(now == before + 1, "ok-with-several-versions", "{desc} returned Ok and published v{}..v{now}\n{}", before + 1, self.history());
                ensure!(res.legal, "illegal-attempt-accepted", "{desc} violates a documented precondition in the writer's view {} but committed v{now}\n{}", view.short(), self.history());
                let prev = self.snaps[&before].clone();
                let snap = read_snap(&latest_ds).await?;
                obs.label(format!("committed:{}{}", res.kind, if stale { "*" } else { "" }));
                self.check_version(&view, &prev, &snap, now, read, &res, &desc, obs, env)?;
                if self.stop {
                    return Ok(Outcome::Committed);
                }
                // what the commit changed
                let touched: Vec<Gid> = if res.kind == "trim" { prev.list.iter().filter(|g| snap.get(&g.id()).is_none()).map(|g| g.id()).collect() } else { res.touched.clone() };
                for g in prev.list.iter().filter(|g| snap.get(&g.id()).is_none()) {
                    self.gone.insert(g.id(), now);
                }
                let commit = Commit { read, version: now, kind: res.kind, touched, desc: desc.clone() };
                self.check_exclusion(&commit, obs, env)?;
                self.commits.push(commit);
                self.snaps.insert(now, snap);
                self.latest = now;
                Ok(Outcome::Committed)
            }
        }
    }

    fn history(&self) -> String {
        format!("history:\n  {}", self.trace.join("\n  "))
    }

    /// Listed findings whose mechanism explains a discrepancy on generation `gid` produced by the
    /// attempt `res` made at version `read` (narrow structural classes, see the report):
    /// * an UpdateMemWalState attempt (anything but merge_insert / trim) that did not see a
    ///   merge_insert commit which marked `gid` merged;
    /// * a merge_insert that did not see another merge_insert commit marking `gid` merged;
    /// * an owner change of `gid` and a trim that removed `gid`, neither having seen the other;
    /// * an advance with `expected_owner_id = None` by a writer in whose view the region has no generation
    ///   because all of them were trimmed (it creates generation 0 again).
    fn causes(&self, gid: &Gid, read: u64, kind: &str, restart: bool) -> Vec<&'static str> {
        let mut out = vec![];
        let unseen = |k: &str| self.commits.iter().any(|c| c.version > read && c.kind == k && c.touched.contains(gid));
        if kind != "mi" && kind != "trim" && unseen("mi") {
            out.push(KNOWN_STALE_AFTER_MERGE_INSERT);
        }
        if kind == "mi" && unseen("mi") {
            out.push(KNOWN_DOUBLE_MERGE_INSERT);
        }
        if kind == "owner" && unseen("trim") {
            out.push(KNOWN_OWNER_VS_TRIM);
        }
        if restart {
            out.push(KNOWN_RESTART_AT_ZERO);
        }
        out
    }

    /// A discrepancy of clause `kind`: skipped (and the run ended) if a listed, still reproducing
    /// finding explains it, a failure otherwise.
    fn discrepancy(&mut self, kind: &'static str, detail: String, causes: Vec<&'static str>, obs: &mut Obs, env: &Env) -> CheckResult {
        for id in &causes {
            if env.known(id) {
                obs.label(format!("known:{id}:{kind}"));
                obs.known_hit(id, detail);
                self.stop = true;
                return Ok(());
            }
        }
        Err(Failure::new(kind, if causes.is_empty() { detail } else { format!("[{}] {detail}", causes.join(",")) }))
    }

    /// the invariants of the statement between version `now - 1` (`prev`) and `now` (`snap`)
    #[allow(clippy::too_many_arguments)]
    fn check_version(&mut self, view: &Snap, prev: &Snap, snap: &Snap, now: u64, read: u64, res: &Resolved, desc: &str, obs: &mut Obs, env: &Env) -> CheckResult {
        let ctx = |s: &Run| format!("v{} = {}\nv{now} = {}\n{}", now - 1, prev.short(), snap.short(), s.history());
        ensure!(snap.present || !prev.present, "memwal-index-vanished", "{desc}: v{now} has no MemWAL index any more\n{}", ctx(self));
        // each (region, generation) once
        let mut seen: BTreeSet<Gid> = BTreeSet::new();
        for g in &snap.list {
            if !seen.insert(g.id()) {
                let detail = format!("{desc}: {}#{} appears twice in v{now}\n{}", g.region, g.gen, ctx(self));
                let causes = self.causes(&g.id(), read, res.kind, false);
                self.discrepancy("generation-listed-twice", detail, causes, obs, env)?;
                return Ok(());
            }
        }
        // a removed (trimmed) generation never comes back
        for g in &snap.list {
            if let Some(removed_at) = self.gone.get(&g.id()).copied() {
                let detail = format!("{desc}: generation {}#{} was removed (trimmed) by v{removed_at} and is listed again in v{now} as {}\n{}", g.region, g.gen, g.short(), ctx(self));
                let restart = matches!(&res.call, Call::Advance { region, expected: None, .. } if *region == g.region && g.gen == 0 && view.region(region).is_empty());
                let causes = self.causes(&g.id(), read, res.kind, restart);
                self.discrepancy("trimmed-generation-reappeared", detail, causes, obs, env)?;
                return Ok(());
            }
        }
        // only merged generations are removed
        for g in &prev.list {
            if snap.get(&g.id()).is_none() {
                ensure!(g.state == MERGED, "unmerged-generation-removed", "{desc}: {} is gone in v{now} but was not merged\n{}", g.short(), ctx(self));
            }
        }
        let regions: BTreeSet<&str> = snap.list.iter().map(|g| g.region.as_str()).collect();
        for r in regions {
            let gens = snap.region(r);
            // consecutive from the first retained one
            for w in gens.windows(2) {
                ensure!(w[1].gen == w[0].gen + 1, "generations-not-consecutive", "{desc}: region {r} lists generation {} after {} in v{now}\n{}", w[1].gen, w[0].gen, ctx(self));
            }
            // a new generation continues the numbering
            let prev_gens = prev.region(r);
            if let (Some(pl), Some(nl)) = (prev_gens.last(), gens.last()) {
                ensure!(nl.gen == pl.gen || nl.gen == pl.gen + 1, "generation-numbering-jumped", "{desc}: region {r} latest generation went {} -> {} in v{now}\n{}", pl.gen, nl.gen, ctx(self));
            }
            // at most the last one is open
            for g in &gens[..gens.len() - 1] {
                ensure!(g.state != OPEN, "open-generation-not-last", "{desc}: {} is open but region {r} has generation {} in v{now}\n{}", g.short(), gens.last().unwrap().gen, ctx(self));
            }
        }
        for g in &snap.list {
            if let Some(p) = prev.get(&g.id()) {
                // state only moves forward
                if g.state < p.state {
                    let detail = format!("{desc}: {}#{} went {} -> {} in v{now}\n{}", g.region, g.gen, state_name(p.state), state_name(g.state), ctx(self));
                    let causes = self.causes(&g.id(), read, res.kind, false);
                    self.discrepancy("state-moved-backwards", detail, causes, obs, env)?;
                    return Ok(());
                }
                // WAL entries only grow
                if let Some(lost) = p.entries.iter().find(|e| !g.entries.contains(e)) {
                    fail!("wal-entries-shrank", "{desc}: {}#{} lost WAL entry {lost} in v{now}: {:?} -> {:?}\n{}", g.region, g.gen, p.entries, g.entries, ctx(self));
                }
            }
        }
        Ok(())
    }

    /// two concurrent attempts that changed the same generation (or its owner) never both commit
    fn check_exclusion(&mut self, c: &Commit, obs: &mut Obs, env: &Env) -> CheckResult {
        let hit = self.commits.iter().filter(|d| d.version > c.read).find_map(|d| d.touched.iter().find(|t| c.touched.contains(t)).map(|g| (d.clone(), g.clone())));
        let Some((d, g)) = hit else { return Ok(()) };
        let detail = format!("{} (committed v{}) and {} (committed v{}) both changed {}#{} and neither saw the other\n{}", d.desc, d.version, c.desc, c.version, g.0, g.1, self.history());
        let mut causes = self.causes(&g, c.read, c.kind, false);
        if c.kind == "trim" && d.kind == "owner" {
            // the trim removed a generation whose owner was changed by a commit it did not see
            causes.push(KNOWN_OWNER_VS_TRIM);
        }
        self.discrepancy("concurrent-changes-both-committed", detail, causes, obs, env)
    }
}

#[allow(unused_assignments)]
async fn run(input: &Input, obs: &mut Obs, env: &Env) -> CheckResult {
    let store = VStore::new();
    // a tiny table: uid + one int64 column, three rows
    let cfg = TableCfg { cols: vec![(3, false)], stable_row_ids: false, storage: 2, v2_manifest: input.v2_manifest, handler: input.handler };
    let initial = vec![RowSeed(vec![1; ROW_WIDTH]), RowSeed(vec![2; ROW_WIDTH]), RowSeed(vec![3; ROW_WIDTH])];
    let w = World::create(store, "t", &cfg, &initial, 1000).await.map_err(|e| Failure::new("create-error", e))?;
    let v0 = w.latest;
    let nregions = input.setup.len().clamp(1, 2);
    let mut r = Run { w, nregions, snaps: BTreeMap::new(), latest: v0, commits: vec![], gone: BTreeMap::new(), ctr: 0, next_uid: 1000, stop: false, conc_same_gen: 0, conc_with_trim: 0, trace: vec![], last_kind: "none" };
    let first = read_snap(&r.fresh_latest().await?).await?;
    ensure!(!first.present, "new-table-has-memwal-index", "{}", first.short());
    r.snaps.insert(v0, first);

    // -- sequential set-up through the public API (also checked) -----------
    let mut sh = r.fresh_latest().await?;
    macro_rules! setup_op {
        ($op:expr) => {{
            let op: OpIn = $op;
            let out = r.attempt(&op, &mut sh, "u", obs, env).await?;
            if r.stop {
                finish(&r, input, obs);
                return Ok(());
            }
            sh = r.fresh_latest().await?;
            ensure!(matches!(out, Outcome::Committed), "setup-op-rejected", "sequential, legal {:?} was rejected\n{}", op, r.history());
        }};
    }
    let mut shape = vec![];
    for (ri, rs) in input.setup.iter().take(2).enumerate() {
        let ri = ri as u8;
        let n = rs.gens.len();
        // clamp the targets
        let mut targets: Vec<u8> = vec![];
        for (i, t) in rs.gens.iter().enumerate() {
            let mut t = (*t).min(MERGED);
            if i + 1 < n {
                t = t.max(SEALED);
            }
            if t == MERGED && targets.iter().any(|p| *p != MERGED) {
                t = FLUSHED;
            }
            targets.push(t);
        }
        for i in 0..n {
            setup_op!(OpIn::Advance { region: ri, bad: 0 });
            for _ in 0..rs.entries {
                setup_op!(OpIn::Append { region: ri, gen: GenSel::Natural, skip: 0, bad: 0 });
            }
            if i + 1 == n && targets[i] >= SEALED {
                setup_op!(OpIn::Seal { region: ri, gen: GenSel::Natural, bad: 0 });
            }
        }
        for (i, t) in targets.iter().enumerate() {
            if *t >= FLUSHED {
                setup_op!(OpIn::Flush { region: ri, gen: GenSel::Nth(nth(i, n)), bad: 0 });
            }
            if *t >= MERGED {
                setup_op!(OpIn::Merge { region: ri, gen: GenSel::Nth(nth(i, n)), bad: 0 });
            }
        }
        shape.push(targets.iter().map(|t| state_name(*t).chars().next().unwrap()).collect::<String>());
    }
    if input.setup_trim && r.snaps[&r.latest].present {
        setup_op!(OpIn::Trim);
        shape.push("T".into());
    }
    obs.label(format!("setup-generations:{}", r.snaps[&r.latest].list.len().min(6)));

    // -- the concurrent part -------------------------------------------------
    let nw = input.writers.clamp(2, 3) as usize;
    let mut handles: Vec<Dataset> = vec![];
    for _ in 0..nw {
        handles.push(r.fresh_latest().await?);
    }
    let mut keys = vec![];
    for st in &input.steps {
        let wi = st.writer as usize % nw;
        let mut h = handles[wi].clone();
        let stale = h.version().version < r.latest;
        let out = r.attempt(&st.op, &mut h, &format!("w{wi}s"), obs, env).await?;
        keys.push(format!(
            "{}{}{}",
            r.last_kind,
            if stale { "*" } else { "" },
            match out {
                Outcome::Committed => "",
                Outcome::Rejected => "!",
                Outcome::Skipped => "-",
            }
        ));
        if r.stop {
            break;
        }
        if st.refresh {
            h = r.fresh_latest().await?;
        } else if matches!(out, Outcome::Committed) && h.version().version != r.latest {
            // the attempt's read version is whatever the handle is at; only classify
            obs.label("handle-not-at-its-committed-version");
        }
        handles[wi] = h;
    }
    obs.label(format!("regions:{}", r.nregions));
    finish(&r, input, obs);
    if r.conc_same_gen >= 1 || r.conc_with_trim >= 1 {
        obs.nontrivial(format!("{}|{}", shape.join("/"), keys.join(",")));
    }
    Ok(())
}

fn nth(i: usize, n: usize) -> u16 {
    // inverse of engine::idx for position i of n: the middle of the i-th cell
    (((i as u32 * 65536 + 32768) / n as u32).min(65535)) as u16
}

fn finish(r: &Run, _input: &Input, obs: &mut Obs) {
    if r.conc_same_gen >= 2 {
        obs.label("concurrent-attempts-on-one-generation:2+");
    } else if r.conc_same_gen == 1 {
        obs.label("concurrent-attempts-on-one-generation:1");
    }
    if r.conc_with_trim >= 1 {
        obs.label("trim-concurrent-with-change");
    }
    if std::env::var("VERIF_TRACE").is_ok() {
        eprintln!("[trace]\n  {}", r.trace.join("\n  "));
    }
}

// ---------------------------------------------------------------------------
// exhaustive part: every order of 2 (quick) / 3 (thorough) mutually concurrent attempts

fn canonical_ops() -> Vec<OpIn> {
    // on the state [Merged, Flushed, Sealed, Open] every one of them is legal on its own
    vec![
        OpIn::Advance { region: 0, bad: 0 },
        OpIn::Append { region: 0, gen: GenSel::Natural, skip: 0, bad: 0 },
        OpIn::Seal { region: 0, gen: GenSel::Natural, bad: 0 },
        OpIn::Flush { region: 0, gen: GenSel::Natural, bad: 0 },
        OpIn::Merge { region: 0, gen: GenSel::Natural, bad: 0 },
        OpIn::MergeInsert { region: 0, gen: GenSel::Natural, update_existing: false, retries: false, bad: 0 },
        OpIn::Trim,
        OpIn::Owner { region: 0, gen: GenSel::Nth(nth(0, 4)), new_loc: false, bad: 0 },
        OpIn::Owner { region: 0, gen: GenSel::Nth(nth(1, 4)), new_loc: true, bad: 0 },
        OpIn::Owner { region: 0, gen: GenSel::Nth(nth(2, 4)), new_loc: false, bad: 0 },
        OpIn::Owner { region: 0, gen: GenSel::Nth(nth(3, 4)), new_loc: true, bad: 0 },
    ]
}

fn enumerated(tier: Tier) -> Vec<Input> {
    let ops = canonical_ops();
    let base = |steps: Vec<StepIn>| Input { handler: 0, v2_manifest: true, writers: 3, setup: vec![RegionSetup { gens: vec![3, 2, 1, 0], entries: 1 }], setup_trim: false, steps };
    let mut out = vec![];
    for a in &ops {
        for b in &ops {
            out.push(base(vec![StepIn { writer: 0, op: a.clone(), refresh: false }, StepIn { writer: 1, op: b.clone(), refresh: false }]));
            if tier == Tier::Thorough {
                for c in &ops {
                    out.push(base(vec![StepIn { writer: 0, op: a.clone(), refresh: false }, StepIn { writer: 1, op: b.clone(), refresh: false }, StepIn { writer: 2, op: c.clone(), refresh: false }]));
                }
            }
        }
    }
    out
}

impl Property for C39 {
    type Input = Input;
    fn id(&self) -> &'static str {
        "C39"
    }
    fn rule(&self) -> String {
        "A tiny table (uid + one int64 column, 3 rows) on the in-memory store; 1-2 regions are brought sequentially, through the public API only, to a generated state (0-4 generations per region, each open/sealed/flushed/merged, 0-2 WAL entries each, optionally trimmed); the set-up commits are checked like all others. Then 2-3 writers, each with its own handle (own session) that it refreshes only when the step says so (35%), run 2-9 generated steps: advance_mem_wal_generation, append_mem_wal_entry, mark_mem_wal_as_sealed/flushed/merged, update_mem_wal_owner, trim_mem_wal_index, merge_insert with mark_mem_wal_as_merged (conflict_retries 0 or 3; inserting a fresh key or updating one shared row), and 'progress' = the next life-cycle step of the region's oldest unmerged generation in the writer's view. Arguments are resolved against the MemWAL index at the writer's handle version so that the attempt is legal there (an op whose natural target does not exist in the view becomes the region's progress step); about 15% of the attempts are made illegal on purpose (wrong owner, wrong state / arbitrary or missing generation, missing region, reused WAL or MemTable location, same owner, entry id not above the highest, expected owner None<->Some) and must be rejected without a new version. An attempt on a handle older than the latest version is concurrent with the commits it has not seen; the step order is the commit order. Exhaustive part: all ordered pairs (quick) / triples (thorough) of 11 canonical attempts made by writers that all read the same version of the state [Merged, Flushed, Sealed, Open]. After every commit the raw protobuf MemWAL list of a fresh checkout of the latest version is checked against the previous version (unique ids, consecutive numbering, only the last open, states and WAL entries only grow, removed generations were merged and never return) and the commit is checked against every commit it did not see (no common generation). Non-trivial = at least one attempt concurrent with an unseen commit on the same generation, or a trim concurrent with another change; distinct by set-up shape and the sequence of (resolved op, stale?, outcome).".into()
    }
    fn assumptions(&self) -> Vec<String> {
        vec![
            "the in-memory store is linearisable; commits happen in step order, concurrency is the staleness of the handle an attempt is made on".into(),
            "a flushed generation is marked merged only when all older retained generations are merged (the order every in-tree caller uses); the API does not enforce it and trim would then leave a numbering gap".into(),
            "one MemWAL per transaction (only the public functions are used, create_mem_wal_generation is not generated)".into(),
            "no other index exists on the table, so trim removes every merged generation".into(),
        ]
    }
    fn cases(&self, tier: Tier) -> u32 {
        tier.pick(1600, 48000)
    }
    fn max_shrink_iters(&self) -> u32 {
        300
    }
    fn strategy(&self, _tier: Tier) -> BoxedStrategy<Input> {
        input_strategy(10)
    }
    fn enumerate(&self, tier: Tier) -> Vec<Input> {
        enumerated(tier)
    }
    fn check(&self, input: &Input, obs: &mut Obs, env: &Env) -> CheckResult {
        env.block_on(run(input, obs, env))
    }
}
