//! C40 — Arrow helper transformations preserve values.
//!
//! Arrays are generated from a type spec and a byte tape (every choice is a byte of the
//! generated tape).  The builder produces the physical array (sliced at every level, list
//! garbage behind nulls, null structs over non-null children) together with the logical
//! `Value` of every row; `to_value` reads any arrow array back into that representation.
//! Every helper is compared with a model on `Value`s.

use crate::engine::*;
use crate::{ensure, fail};
use arrow_array::cast::AsArray;
use arrow_array::types::{Float64Type, Int32Type, Int64Type, UInt8Type};
use arrow_array::{
    new_null_array, Array, ArrayRef, BooleanArray, FixedSizeListArray, Float64Array, GenericListArray, Int32Array, Int64Array, LargeBinaryArray, OffsetSizeTrait, RecordBatch, StringArray, StructArray,
    UInt32Array,
};
use arrow_buffer::{ArrowNativeType, NullBuffer, OffsetBuffer, ScalarBuffer};
use arrow_schema::{DataType, Field, Fields, Schema};
use lance_arrow::deepcopy::{deep_copy_array, deep_copy_array_sliced, deep_copy_batch, deep_copy_batch_sliced};
use lance_arrow::list::ListArrayExt;
use lance_arrow::r#struct::StructArrayExt;
use lance_arrow::RecordBatchExt;
use proptest::prelude::*;
use serde::{Deserialize, Serialize};
use std::collections::BTreeSet;
use std::panic::{catch_unwind, AssertUnwindSafe};
use std::sync::Arc;

pub struct C40;

// ---------------------------------------------------------------------------
// input

#[derive(Clone, Debug, Serialize, Deserialize, PartialEq)]
pub enum Ty {
    I32,
    I64,
    F64,
    Bool,
    Str,
    Struct(Vec<Ty>),
    List(Box<Ty>),
    LargeList(Box<Ty>),
    /// fixed size list of a primitive
    Fsl(Box<Ty>, u8),
}

#[derive(Clone, Debug, Serialize, Deserialize, PartialEq)]
pub struct ArrInput {
    pub cols: Vec<Ty>,
    pub rows: u8,
    /// data tape: null decisions, values, list lengths, paddings
    pub tape: Vec<u8>,
    pub take: Vec<u16>,
    /// selection tape for project_by_schema
    pub sel: Vec<u8>,
    /// split tape for merge / merge_with_schema
    pub split: Vec<u8>,
}

#[derive(Clone, Debug, Serialize, Deserialize, PartialEq)]
pub enum JVal {
    Null,
    Bool(bool),
    Int(i64),
    BigU(u64),
    Float(u8),
    Str(Vec<u8>),
    Arr(Vec<JVal>),
    Obj(Vec<(u8, JVal)>),
}

#[derive(Clone, Debug, Serialize, Deserialize, PartialEq)]
pub struct JsonInput {
    pub docs: Vec<Option<JVal>>,
    pub style: u8,
    pub pre: u8,
    pub paths: Vec<u8>,
}

#[derive(Clone, Debug, Serialize, Deserialize, PartialEq)]
pub enum Input {
    Arrays(ArrInput),
    Json(JsonInput),
}

const NAMES: &[&str] = &["a", "b", "c", "d", "e"];
const STRS: &[&str] = &["", "a", "bb", "héllo", "\"q\"", "日本語", "x y", "\\"];

// ---------------------------------------------------------------------------
// values

#[derive(Clone, Debug, PartialEq)]
pub enum Value {
    Null,
    Bool(bool),
    I(i64),
    F(u64),
    S(String),
    B(Vec<u8>),
    List(Vec<Value>),
    Struct(Vec<(String, Value)>),
}

fn list_value<O: OffsetSizeTrait>(arr: &dyn Array, i: usize) -> Value {
    let l: &GenericListArray<O> = arr.as_list::<O>();
    let v = l.value(i);
    Value::List((0..v.len()).map(|k| to_value(v.as_ref(), k)).collect())
}

/// logical value of row `i`, read with plain arrow accessors
pub fn to_value(arr: &dyn Array, i: usize) -> Value {
    if arr.is_null(i) {
        return Value::Null;
    }
    match arr.data_type() {
        DataType::Int32 => Value::I(arr.as_primitive::<Int32Type>().value(i) as i64),
        DataType::Int64 => Value::I(arr.as_primitive::<Int64Type>().value(i)),
        DataType::UInt8 => Value::I(arr.as_primitive::<UInt8Type>().value(i) as i64),
        DataType::Float64 => Value::F(arr.as_primitive::<Float64Type>().value(i).to_bits()),
        DataType::Boolean => Value::Bool(arr.as_boolean().value(i)),
        DataType::Utf8 => Value::S(arr.as_string::<i32>().value(i).to_string()),
        DataType::LargeBinary => Value::B(arr.as_binary::<i64>().value(i).to_vec()),
        DataType::Struct(fields) => {
            let s = arr.as_struct();
            Value::Struct(fields.iter().zip(s.columns()).map(|(f, c)| (f.name().clone(), to_value(c.as_ref(), i))).collect())
        }
        DataType::List(_) => list_value::<i32>(arr, i),
        DataType::LargeList(_) => list_value::<i64>(arr, i),
        DataType::FixedSizeList(_, _) => {
            let v = arr.as_fixed_size_list().value(i);
            Value::List((0..v.len()).map(|k| to_value(v.as_ref(), k)).collect())
        }
        other => panic!("to_value: unsupported type {other:?}"),
    }
}

pub fn values_of(arr: &dyn Array) -> Vec<Value> {
    (0..arr.len()).map(|i| to_value(arr, i)).collect()
}

fn show(v: &[Value]) -> String {
    truncate_str(&format!("{v:?}"), 500)
}

// ---------------------------------------------------------------------------
// builder

struct Tape<'a> {
    t: &'a [u8],
    pos: usize,
}

impl Tape<'_> {
    fn next(&mut self) -> u8 {
        if self.t.is_empty() {
            return 0;
        }
        let v = self.t[self.pos % self.t.len()];
        self.pos += 1;
        v
    }
}

#[derive(Default, Debug)]
struct Flags {
    offset: bool,
    null_struct_live_child: bool,
    list_garbage: bool,
    null_list_live: bool,
    all_null_struct: bool,
}

const PAD: [usize; 4] = [0, 1, 0, 2];

/// None = no null buffer at all; otherwise per-row validity
fn validity(m: usize, tp: &mut Tape) -> Option<Vec<bool>> {
    match tp.next() % 8 {
        0 | 1 => None,
        7 => {
            if tp.next() % 2 == 0 {
                Some(vec![false; m])
            } else {
                Some((0..m).map(|_| tp.next() % 4 != 3).collect())
            }
        }
        _ => Some((0..m).map(|_| tp.next() % 4 != 3).collect()),
    }
}

fn nulls_of(v: &Option<Vec<bool>>) -> Option<NullBuffer> {
    v.as_ref().map(|v| NullBuffer::from(v.clone()))
}

fn build(ty: &Ty, n: usize, tp: &mut Tape, fl: &mut Flags) -> (ArrayRef, Vec<Value>) {
    let pre = PAD[(tp.next() % 4) as usize];
    let post = PAD[(tp.next() % 4) as usize];
    let (a, v) = build_phys(ty, pre + n + post, tp, fl);
    if pre > 0 {
        fl.offset = true;
    }
    (a.slice(pre, n), v[pre..pre + n].to_vec())
}

fn build_list<O: OffsetSizeTrait>(item: &Ty, m: usize, tp: &mut Tape, fl: &mut Flags) -> (ArrayRef, Vec<Value>) {
    let valid = validity(m, tp);
    let is_null = |i: usize| valid.as_ref().map(|v| !v[i]).unwrap_or(false);
    let mut lens = vec![];
    for i in 0..m {
        let l = (tp.next() % 4) as usize;
        if is_null(i) {
            if tp.next() % 2 == 0 {
                lens.push(0);
            } else {
                if l > 0 {
                    fl.list_garbage = true;
                }
                lens.push(l);
            }
        } else {
            lens.push(l);
        }
    }
    let pre_v = PAD[(tp.next() % 4) as usize];
    let post_v = PAD[(tp.next() % 4) as usize];
    if pre_v > 0 {
        fl.offset = true;
    }
    let total: usize = pre_v + lens.iter().sum::<usize>() + post_v;
    let (child, cv) = build(item, total, tp, fl);
    let mut offsets: Vec<O> = vec![O::usize_as(pre_v)];
    let mut acc = pre_v;
    let mut vals = vec![];
    for i in 0..m {
        let items = cv[acc..acc + lens[i]].to_vec();
        if is_null(i) {
            if items.iter().any(|x| *x != Value::Null) {
                fl.null_list_live = true;
            }
            vals.push(Value::Null);
        } else {
            vals.push(Value::List(items));
        }
        acc += lens[i];
        offsets.push(O::usize_as(acc));
    }
    let field = Arc::new(Field::new("item", child.data_type().clone(), true));
    let arr = GenericListArray::<O>::try_new(field, OffsetBuffer::new(ScalarBuffer::from(offsets)), child, nulls_of(&valid)).unwrap();
    (Arc::new(arr), vals)
}

fn build_phys(ty: &Ty, m: usize, tp: &mut Tape, fl: &mut Flags) -> (ArrayRef, Vec<Value>) {
    let mut opt = |tp: &mut Tape| -> Option<u8> {
        let b = tp.next();
        if b % 4 == 3 {
            None
        } else {
            Some(tp.next())
        }
    };
    match ty {
        Ty::I32 => {
            let v: Vec<Option<i32>> = (0..m).map(|_| opt(tp).map(|x| x as i32 - 100)).collect();
            let vals = v.iter().map(|x| x.map(|x| Value::I(x as i64)).unwrap_or(Value::Null)).collect();
            (Arc::new(Int32Array::from(v)), vals)
        }
        Ty::I64 => {
            let v: Vec<Option<i64>> = (0..m).map(|_| opt(tp).map(|x| (x as i64 - 7) * 1_000_000_007)).collect();
            let vals = v.iter().map(|x| x.map(Value::I).unwrap_or(Value::Null)).collect();
            (Arc::new(Int64Array::from(v)), vals)
        }
        Ty::F64 => {
            const F: [f64; 8] = [0.0, -0.0, 1.5, -2.25, f64::NAN, f64::INFINITY, 1e-300, 123456.789];
            let v: Vec<Option<f64>> = (0..m).map(|_| opt(tp).map(|x| F[x as usize % 8])).collect();
            let vals = v.iter().map(|x| x.map(|x| Value::F(x.to_bits())).unwrap_or(Value::Null)).collect();
            (Arc::new(Float64Array::from(v)), vals)
        }
        Ty::Bool => {
            let v: Vec<Option<bool>> = (0..m).map(|_| opt(tp).map(|x| x % 2 == 1)).collect();
            let vals = v.iter().map(|x| x.map(Value::Bool).unwrap_or(Value::Null)).collect();
            (Arc::new(BooleanArray::from(v)), vals)
        }
        Ty::Str => {
            let v: Vec<Option<&str>> = (0..m).map(|_| opt(tp).map(|x| STRS[x as usize % STRS.len()])).collect();
            let vals = v.iter().map(|x| x.map(|x| Value::S(x.to_string())).unwrap_or(Value::Null)).collect();
            (Arc::new(StringArray::from(v)), vals)
        }
        Ty::Struct(ch) => {
            let valid = validity(m, tp);
            if m > 0 && valid.as_ref().map(|v| v.iter().all(|b| !b)).unwrap_or(false) {
                fl.all_null_struct = true;
            }
            let mut arrays = vec![];
            let mut fields = vec![];
            let mut cvals = vec![];
            for (k, c) in ch.iter().enumerate() {
                let (a, v) = build(c, m, tp, fl);
                fields.push(Field::new(NAMES[k % NAMES.len()], a.data_type().clone(), true));
                arrays.push(a);
                cvals.push(v);
            }
            let arr = StructArray::try_new(Fields::from(fields), arrays, nulls_of(&valid)).unwrap();
            let vals = (0..m)
                .map(|i| {
                    if valid.as_ref().map(|v| !v[i]).unwrap_or(false) {
                        if cvals.iter().any(|c| c[i] != Value::Null) {
                            fl.null_struct_live_child = true;
                        }
                        Value::Null
                    } else {
                        Value::Struct(cvals.iter().enumerate().map(|(k, c)| (NAMES[k % NAMES.len()].to_string(), c[i].clone())).collect())
                    }
                })
                .collect();
            (Arc::new(arr), vals)
        }
        Ty::List(item) => build_list::<i32>(item, m, tp, fl),
        Ty::LargeList(item) => build_list::<i64>(item, m, tp, fl),
        Ty::Fsl(item, size) => {
            let size = (*size).clamp(1, 3) as usize;
            let valid = validity(m, tp);
            let (child, cv) = build(item, m * size, tp, fl);
            let field = Arc::new(Field::new("item", child.data_type().clone(), true));
            let arr = FixedSizeListArray::try_new(field, size as i32, child, nulls_of(&valid)).unwrap();
            let vals = (0..m)
                .map(|i| {
                    if valid.as_ref().map(|v| !v[i]).unwrap_or(false) {
                        Value::Null
                    } else {
                        Value::List(cv[i * size..(i + 1) * size].to_vec())
                    }
                })
                .collect();
            (Arc::new(arr), vals)
        }
    }
}

fn ty_label(t: &Ty) -> &'static str {
    match t {
        Ty::Struct(_) => "struct",
        Ty::List(_) => "list",
        Ty::LargeList(_) => "large-list",
        Ty::Fsl(..) => "fsl",
        _ => "prim",
    }
}

fn ty_kinds(t: &Ty, out: &mut BTreeSet<&'static str>) {
    out.insert(ty_label(t));
    match t {
        Ty::Struct(ch) => ch.iter().for_each(|c| ty_kinds(c, out)),
        Ty::List(i) | Ty::LargeList(i) | Ty::Fsl(i, _) => ty_kinds(i, out),
        _ => {}
    }
}

/// visit every array reachable through struct children and list values
fn visit(arr: &ArrayRef, f: &mut dyn FnMut(&ArrayRef)) {
    f(arr);
    match arr.data_type() {
        DataType::Struct(_) => arr.as_struct().columns().iter().for_each(|c| visit(c, f)),
        DataType::List(_) => visit(arr.as_list::<i32>().values(), f),
        DataType::LargeList(_) => visit(arr.as_list::<i64>().values(), f),
        DataType::FixedSizeList(_, _) => visit(arr.as_fixed_size_list().values(), f),
        _ => {}
    }
}

macro_rules! known_or_fail {
    ($env:expr, $obs:expr, $id:expr, $kind:expr, $($arg:tt)*) => {{
        let detail = format!($($arg)*);
        if $env.known($id) {
            $obs.known_hit($id, detail);
        } else {
            return Err(Failure::new($kind, detail));
        }
    }};
}

const K_MERGE_OFFSETS: &str = "C40-merge-with-schema-list-offset";
const K_MERGE_VALIDITY: &str = "C40-merge-struct-validity";
const K_MERGE_ADJUST: &str = "C40-merge-adjust-child-validity-offset";
const K_PUSHDOWN: &str = "C40-pushdown-nulls-child-offset";
const K_DEEP_COPY: &str = "C40-deep-copy-sliced-double-offset";

fn guarded<T>(f: impl FnOnce() -> T) -> Result<T, String> {
    catch_unwind(AssertUnwindSafe(f)).map_err(|e| {
        if let Some(s) = e.downcast_ref::<&str>() {
            s.to_string()
        } else if let Some(s) = e.downcast_ref::<String>() {
            s.clone()
        } else {
            "panic".to_string()
        }
    })
}


// ---------------------------------------------------------------------------
// helper checks on single arrays

fn same_values(kind: &str, what: &str, got: &dyn Array, want: &[Value]) -> CheckResult {
    ensure!(got.len() == want.len(), kind, "{what}: length {} but model {}", got.len(), want.len());
    let g = values_of(got);
    for i in 0..g.len() {
        ensure!(g[i] == want[i], kind, "{what}: row {i} is {:?} but model {:?} (all rows: got {} want {})", g[i], want[i], show(&g), show(want));
    }
    Ok(())
}

fn check_list_helpers<O: OffsetSizeTrait>(arr: &ArrayRef, obs: &mut Obs) -> CheckResult {
    let l: &GenericListArray<O> = arr.as_list::<O>();
    let want = values_of(l);
    obs.inner += 1;
    // trimmed_values: the values between the first and the last offset
    let first = l.offsets().first().map(|v| v.as_usize()).unwrap_or(0);
    let last = l.offsets().last().map(|v| v.as_usize()).unwrap_or(0);
    let tv = l.trimmed_values();
    ensure!(tv.len() == last - first, "trimmed-values-len", "trimmed_values has {} values, offsets span {first}..{last}", tv.len());
    ensure!(tv.data_type() == l.values().data_type(), "trimmed-values-type", "trimmed_values changed the type");
    for i in 0..l.len() {
        if l.is_null(i) {
            continue;
        }
        let s = l.offsets()[i].as_usize() - first;
        let e = l.offsets()[i + 1].as_usize() - first;
        let items: Vec<Value> = (s..e).map(|k| to_value(tv.as_ref(), k)).collect();
        ensure!(Value::List(items.clone()) == want[i], "trimmed-values", "row {i}: trimmed values give {items:?} but the list holds {:?}", want[i]);
    }
    // filter_garbage_nulls: same logical list, null entries are empty, no value is unreferenced
    let f = l.filter_garbage_nulls();
    same_values("filter-garbage-nulls", "filter_garbage_nulls", &f, &want)?;
    if l.nulls().is_some() && !l.is_empty() {
        let o = f.offsets();
        ensure!(o.first().map(|v| v.as_usize()) == Some(0), "filter-garbage-nulls-offsets", "offsets start at {:?}", o.first());
        ensure!(o.last().map(|v| v.as_usize()) == Some(f.values().len()), "filter-garbage-nulls-garbage", "values has {} entries but the last offset is {:?}", f.values().len(), o.last());
        for i in 0..f.len() {
            if f.is_null(i) {
                ensure!(o[i] == o[i + 1], "filter-garbage-nulls-garbage", "null entry {i} has length {}", o[i + 1].as_usize() - o[i].as_usize());
            }
        }
    }
    Ok(())
}

fn check_struct_helpers(arr: &ArrayRef, obs: &mut Obs, env: &Env) -> CheckResult {
    let s = arr.as_struct();
    let want = values_of(s);
    obs.inner += 1;
    match s.normalize_slicing() {
        Ok(nz) => {
            same_values("normalize-slicing", "normalize_slicing", &nz, &want)?;
            ensure!(nz.offset() == 0, "normalize-slicing-offset", "offset {} after normalize_slicing", nz.offset());
            ensure!(nz.columns().iter().all(|c| c.len() == nz.len()), "normalize-slicing-offset", "a child is longer than the struct after normalize_slicing");
        }
        Err(e) => fail!("normalize-slicing-error", "normalize_slicing failed: {e}"),
    }
    // arrow-cpp style slice: offset on the struct, children untouched
    // (not for nested structs: arrow-rs itself slices the grandchildren twice when such data is converted)
    if s.len() >= 2 && !s.columns().iter().any(|c| matches!(c.data_type(), DataType::Struct(_))) {
        let data = s.to_data();
        let k = 1;
        if let Ok(d) = data.into_builder().offset(k).len(s.len() - k).build() {
            let sliced = StructArray::from(d);
            match sliced.normalize_slicing() {
                Ok(nz) => same_values("normalize-slicing", "normalize_slicing (offset set on the struct)", &nz, &want[k..])?,
                Err(e) => fail!("normalize-slicing-error", "normalize_slicing failed: {e}"),
            }
        }
    }
    match s.pushdown_nulls() {
        Ok(pd) => {
            same_values("pushdown-nulls", "pushdown_nulls", &pd, &want)?;
            for (ci, c) in pd.columns().iter().enumerate() {
                for i in 0..pd.len() {
                    if pd.is_null(i) {
                        ensure!(c.is_null(i), "pushdown-nulls-validity", "row {i}: struct is null but child {ci} is not");
                    } else {
                        ensure!(c.is_null(i) == s.column(ci).is_null(i), "pushdown-nulls-validity", "row {i}: validity of child {ci} changed under a valid struct");
                    }
                }
            }
        }
        Err(e) => {
            if s.columns().iter().any(|c| c.to_data().offset() != 0) {
                known_or_fail!(env, obs, K_PUSHDOWN, "pushdown-nulls-child-offset", "pushdown_nulls of a struct whose child has a non-zero ArrayData offset failed: {e}");
            } else {
                fail!("pushdown-nulls-error", "pushdown_nulls failed: {e}");
            }
        }
    }
    Ok(())
}

fn check_copies(arr: &ArrayRef, want: &[Value], obs: &mut Obs, env: &Env) -> CheckResult {
    let c = deep_copy_array(arr.as_ref());
    ensure!(c.data_type() == arr.data_type(), "deep-copy-type", "deep_copy_array changed the type");
    same_values("deep-copy", "deep_copy_array", c.as_ref(), want)?;
    let off = arr.to_data().offset();
    let outcome: CheckResult = match guarded(|| deep_copy_array_sliced(arr.as_ref())) {
        Err(p) => Err(Failure::new("deep-copy-sliced-panic", format!("deep_copy_array_sliced panicked: {p}"))),
        Ok(c) => (|| {
            ensure!(c.data_type() == arr.data_type(), "deep-copy-type", "deep_copy_array_sliced changed the type");
            same_values("deep-copy-sliced", "deep_copy_array_sliced", c.as_ref(), want)?;
            ensure!(c.to_data().offset() == 0, "deep-copy-sliced-offset", "offset {} after deep_copy_array_sliced", c.to_data().offset());
            Ok(())
        })(),
    };
    if let Err(f) = outcome {
        if off != 0 {
            known_or_fail!(env, obs, K_DEEP_COPY, "deep-copy-sliced-double-offset", "array of type {:?} with offset {off}, length {}: {} [{}]", arr.data_type(), arr.len(), f.msg, f.kind);
        } else {
            return Err(f);
        }
    }
    Ok(())
}

// ---------------------------------------------------------------------------
// projection model

/// choose a sub-tree of the fields (struct nesting only; lists are taken whole)
fn select_fields(fields: &Fields, tp: &mut Tape, top: bool) -> Fields {
    let mut out: Vec<Field> = vec![];
    for f in fields.iter() {
        let b = tp.next();
        if b % 4 == 3 {
            continue;
        }
        match f.data_type() {
            DataType::Struct(ch) => {
                let sub = select_fields(ch, tp, false);
                out.push(Field::new(f.name(), DataType::Struct(sub), f.is_nullable()));
            }
            _ => out.push(f.as_ref().clone()),
        }
    }
    if top && out.is_empty() {
        out.push(fields[0].as_ref().clone());
    }
    if tp.next() % 3 == 0 {
        out.reverse();
    }
    Fields::from(out)
}

fn project_value(v: &Value, fields: &Fields) -> Value {
    match v {
        Value::Struct(kv) => Value::Struct(
            fields
                .iter()
                .map(|f| {
                    let inner = kv.iter().find(|(k, _)| k == f.name()).map(|(_, x)| x.clone()).expect("field of the model");
                    let inner = match f.data_type() {
                        DataType::Struct(ch) => project_value(&inner, ch),
                        _ => inner,
                    };
                    (f.name().clone(), inner)
                })
                .collect(),
        ),
        other => other.clone(),
    }
}

fn batch_values(b: &RecordBatch) -> Vec<Value> {
    (0..b.num_rows())
        .map(|i| Value::Struct(b.schema().fields().iter().zip(b.columns()).map(|(f, c)| (f.name().clone(), to_value(c.as_ref(), i))).collect()))
        .collect()
}

fn same_rows(kind: &str, what: &str, got: &RecordBatch, want: &[Value]) -> CheckResult {
    ensure!(got.num_rows() == want.len(), kind, "{what}: {} rows but model {}", got.num_rows(), want.len());
    let g = batch_values(got);
    for i in 0..g.len() {
        ensure!(g[i] == want[i], kind, "{what}: row {i} is {:?} but model {:?}", g[i], want[i]);
    }
    Ok(())
}

// ---------------------------------------------------------------------------
// merge: split one batch into a left and a right batch, merge them back

fn contains_struct(dt: &DataType) -> bool {
    match dt {
        DataType::Struct(_) => true,
        DataType::List(f) | DataType::LargeList(f) => contains_struct(f.data_type()),
        _ => false,
    }
}

fn identity_take(arr: &ArrayRef) -> ArrayRef {
    let idx = UInt32Array::from((0..arr.len() as u32).collect::<Vec<_>>());
    arrow_select::take::take(arr.as_ref(), &idx, None).unwrap()
}

/// another array of the same type and length (what the right side holds for a leaf present on both sides)
fn variant(arr: &ArrayRef, tp: &mut Tape) -> ArrayRef {
    match tp.next() % 3 {
        0 => arr.clone(),
        1 => new_null_array(arr.data_type(), arr.len()),
        _ => {
            let n = arr.len() as u32;
            let idx = UInt32Array::from((0..n).rev().collect::<Vec<_>>());
            arrow_select::take::take(arr.as_ref(), &idx, None).unwrap()
        }
    }
}

#[derive(Default, Debug)]
struct SplitInfo {
    masked: bool,
    both_struct: bool,
    both_list_struct: bool,
    both_list: bool,
    both_leaf: bool,
}

fn rebuild_list<O: OffsetSizeTrait>(l: &GenericListArray<O>, values: ArrayRef) -> ArrayRef {
    let name = match l.data_type() {
        DataType::List(f) | DataType::LargeList(f) => f.name().clone(),
        _ => "item".into(),
    };
    let field = Arc::new(Field::new(name, values.data_type().clone(), true));
    Arc::new(GenericListArray::<O>::new(field, l.offsets().clone(), values, l.nulls().cloned()))
}

/// split an array that is present on both sides
fn split_any(arr: &ArrayRef, tp: &mut Tape, with_schema: bool, mask_below: bool, info: &mut SplitInfo) -> (ArrayRef, ArrayRef) {
    match arr.data_type() {
        DataType::Struct(_) => {
            info.both_struct = true;
            let (l, r) = split_struct(arr.as_struct(), tp, with_schema, mask_below, mask_below, info);
            (Arc::new(l), Arc::new(r))
        }
        DataType::List(f) if with_schema && contains_struct(f.data_type()) => {
            info.both_list_struct = true;
            let l = arr.as_list::<i32>();
            let (lv, rv) = split_any(l.values(), tp, with_schema, false, info);
            (rebuild_list(l, lv), rebuild_list(l, rv))
        }
        DataType::LargeList(f) if with_schema && contains_struct(f.data_type()) => {
            info.both_list_struct = true;
            let l = arr.as_list::<i64>();
            let (lv, rv) = split_any(l.values(), tp, with_schema, false, info);
            (rebuild_list(l, lv), rebuild_list(l, rv))
        }
        DataType::List(_) | DataType::LargeList(_) | DataType::FixedSizeList(_, _) if with_schema => {
            // a shared list without structs: the same column on both sides (no precedence rule is documented for it)
            info.both_list = true;
            (arr.clone(), arr.clone())
        }
        _ => {
            info.both_leaf = true;
            (arr.clone(), variant(arr, tp))
        }
    }
}

fn and_mask(nulls: Option<&NullBuffer>, len: usize, tp: &mut Tape) -> Option<NullBuffer> {
    let mask: Vec<bool> = (0..len).map(|_| tp.next() % 3 != 2).collect();
    let v: Vec<bool> = (0..len).map(|i| mask[i] && nulls.map(|n| n.is_valid(i)).unwrap_or(true)).collect();
    if nulls.is_none() && v.iter().all(|b| *b) {
        // nothing masked and no validity before: stay without a null buffer
        return None;
    }
    Some(NullBuffer::from(v))
}

/// distribute the children of a struct over a left and a right struct (each side keeps >= 1 child)
fn split_struct(s: &StructArray, tp: &mut Tape, with_schema: bool, mask_here: bool, mask_below: bool, info: &mut SplitInfo) -> (StructArray, StructArray) {
    let nchild = s.num_columns();
    let mut side: Vec<u8> = (0..nchild).map(|_| tp.next() % 4).collect(); // 0 left, 1 right, 2/3 both
    if !side.iter().any(|s| *s != 1) {
        side[0] = 2;
    }
    if !side.iter().any(|s| *s != 0) {
        side[nchild - 1] = 2;
    }
    // masks (different validity on the two sides) only where every shared child is a leaf
    let shared_nested = (0..nchild).any(|k| side[k] >= 2 && matches!(s.column(k).data_type(), DataType::Struct(_) | DataType::List(_) | DataType::LargeList(_) | DataType::FixedSizeList(_, _)));
    let mask = mask_here && !shared_nested && tp.next() % 3 == 0;
    let (mut lf, mut lc, mut rf, mut rc) = (vec![], vec![], vec![], vec![]);
    for k in 0..nchild {
        let f = s.fields()[k].clone();
        let c = s.column(k).clone();
        let is_list = matches!(c.data_type(), DataType::List(_) | DataType::LargeList(_));
        match side[k] {
            0 => {
                lf.push(f.as_ref().clone());
                lc.push(c);
            }
            1 => {
                rf.push(f.as_ref().clone());
                rc.push(c);
            }
            _ if is_list && !with_schema => {
                // `merge` is documented not to handle nested lists: keep lists on one side
                lf.push(f.as_ref().clone());
                lc.push(c);
            }
            _ => {
                let (l, r) = split_any(&c, tp, with_schema, mask_below, info);
                lf.push(Field::new(f.name(), l.data_type().clone(), true));
                lc.push(l);
                rf.push(Field::new(f.name(), r.data_type().clone(), true));
                rc.push(r);
            }
        }
    }
    if rf.is_empty() {
        // all shared lists went left in `merge` mode
        let k = nchild - 1;
        rf.push(Field::new(format!("{}_r", s.fields()[k].name()), s.column(k).data_type().clone(), true));
        rc.push(s.column(k).clone());
    }
    let (ln, rn) = if mask {
        info.masked = true;
        (and_mask(s.nulls(), s.len(), tp), and_mask(s.nulls(), s.len(), tp))
    } else {
        (s.nulls().cloned(), s.nulls().cloned())
    };
    (StructArray::new(Fields::from(lf), lc, ln), StructArray::new(Fields::from(rf), rc, rn))
}

fn field_of<'a>(v: &Value, dt: &'a DataType, name: &str) -> Option<(Value, &'a DataType)> {
    let DataType::Struct(fields) = dt else { return None };
    let k = fields.iter().position(|f| f.name() == name)?;
    let inner = match v {
        Value::Struct(kv) => kv[k].1.clone(),
        _ => Value::Null,
    };
    Some((inner, fields[k].data_type()))
}

/// documented rule of merge_with_schema on one row
fn merge_model_schema(l: Option<(&Value, &DataType)>, r: Option<(&Value, &DataType)>, sdt: &DataType) -> Value {
    match (l, r) {
        (Some((lv, _)), None) => lv.clone(),
        (None, Some((rv, _))) => rv.clone(),
        (None, None) => Value::Null,
        (Some((lv, ldt)), Some((rv, rdt))) => match sdt {
            DataType::Struct(sf) => {
                if *lv == Value::Null && *rv == Value::Null {
                    return Value::Null;
                }
                let mut out = vec![];
                for f in sf.iter() {
                    let lf = field_of(lv, ldt, f.name());
                    let rf = field_of(rv, rdt, f.name());
                    if lf.is_none() && rf.is_none() {
                        continue;
                    }
                    out.push((f.name().clone(), merge_model_schema(lf.as_ref().map(|(v, d)| (v, *d)), rf.as_ref().map(|(v, d)| (v, *d)), f.data_type())));
                }
                Value::Struct(out)
            }
            DataType::List(item) | DataType::LargeList(item) => {
                let (li, ri) = match (ldt, rdt) {
                    (DataType::List(a), DataType::List(b)) | (DataType::LargeList(a), DataType::LargeList(b)) => (a.data_type(), b.data_type()),
                    _ => return lv.clone(),
                };
                match (lv, rv) {
                    (Value::List(a), Value::List(b)) if a.len() == b.len() => Value::List(a.iter().zip(b).map(|(x, y)| merge_model_schema(Some((x, li)), Some((y, ri)), item.data_type())).collect()),
                    (Value::Null, Value::Null) => Value::Null,
                    _ => lv.clone(),
                }
            }
            _ => lv.clone(),
        },
    }
}

/// documented rule of `merge` on one row: left fields first, structs recurse, otherwise left wins, then right-only fields
fn merge_model_plain(lv: &Value, ldt: &DataType, rv: &Value, rdt: &DataType) -> Value {
    let (DataType::Struct(lfs), DataType::Struct(rfs)) = (ldt, rdt) else { return lv.clone() };
    if *lv == Value::Null && *rv == Value::Null {
        return Value::Null;
    }
    let mut out = vec![];
    for f in lfs.iter() {
        let (lx, ld) = field_of(lv, ldt, f.name()).unwrap();
        match field_of(rv, rdt, f.name()) {
            Some((rx, rd)) if matches!(ld, DataType::Struct(_)) && matches!(rd, DataType::Struct(_)) => out.push((f.name().clone(), merge_model_plain(&lx, ld, &rx, rd))),
            _ => out.push((f.name().clone(), lx)),
        }
    }
    for f in rfs.iter() {
        if lfs.iter().any(|l| l.name() == f.name()) {
            continue;
        }
        out.push((f.name().clone(), field_of(rv, rdt, f.name()).unwrap().0));
    }
    Value::Struct(out)
}

fn first_list_offset_nonzero(arr: &ArrayRef) -> bool {
    let mut hit = false;
    visit(arr, &mut |a| match a.data_type() {
        DataType::List(_) => hit |= a.as_list::<i32>().offsets().first().map(|v| *v != 0).unwrap_or(false),
        DataType::LargeList(_) => hit |= a.as_list::<i64>().offsets().first().map(|v| *v != 0).unwrap_or(false),
        _ => {}
    });
    hit
}

// ---------------------------------------------------------------------------
// JSON

const KEYS: &[&str] = &["a", "b", "name", "user", "x1", "k_2", "items", "A", "with space", "é", "a.b", "0"];
const JCHARS: &[&str] = &["a", "Z", " ", "\"", "\\", "/", "\n", "\t", "\u{8}", "\u{1}", "é", "日", "😀", "'", "{", "$", "."];
const JFLOATS: &[f64] = &[0.5, -1.25, 1e10, 1.5e-7, 3.0, 1e300, -0.0, 123456.789, 2.2250738585072014e-308, 1.7976931348623157e308, 0.1, 1e-5];

fn ident_key(k: &str) -> bool {
    let mut cs = k.chars();
    matches!(cs.next(), Some(c) if c.is_ascii_alphabetic() || c == '_') && cs.all(|c| c.is_ascii_alphanumeric() || c == '_')
}

fn jval_to_serde(v: &JVal) -> serde_json::Value {
    use serde_json::Value as J;
    match v {
        JVal::Null => J::Null,
        JVal::Bool(b) => J::Bool(*b),
        JVal::Int(i) => J::from(*i),
        JVal::BigU(u) => J::from(*u),
        JVal::Float(k) => J::from(JFLOATS[*k as usize % JFLOATS.len()]),
        JVal::Str(cs) => J::String(cs.iter().map(|c| JCHARS[*c as usize % JCHARS.len()]).collect()),
        JVal::Arr(a) => J::Array(a.iter().map(jval_to_serde).collect()),
        JVal::Obj(kv) => {
            let mut m = serde_json::Map::new();
            for (k, v) in kv {
                let key = KEYS[*k as usize % KEYS.len()].to_string();
                if !m.contains_key(&key) {
                    m.insert(key, jval_to_serde(v));
                }
            }
            J::Object(m)
        }
    }
}

/// own writer: non-ASCII as \uXXXX (surrogate pairs), spaces around separators
fn write_escaped(v: &serde_json::Value, out: &mut String) {
    use serde_json::Value as J;
    match v {
        J::String(s) => {
            out.push('"');
            for c in s.chars() {
                match c {
                    '"' => out.push_str("\\\""),
                    '\\' => out.push_str("\\\\"),
                    '/' => out.push_str("\\/"),
                    c if (c as u32) < 0x20 || !c.is_ascii() => {
                        let mut buf = [0u16; 2];
                        for u in c.encode_utf16(&mut buf) {
                            out.push_str(&format!("\\u{:04X}", u));
                        }
                    }
                    c => out.push(c),
                }
            }
            out.push('"');
        }
        J::Array(a) => {
            out.push_str("[ ");
            for (i, x) in a.iter().enumerate() {
                if i > 0 {
                    out.push_str(" ,\n");
                }
                write_escaped(x, out);
            }
            out.push_str(" ]");
        }
        J::Object(m) => {
            out.push_str("{\t");
            for (i, (k, x)) in m.iter().enumerate() {
                if i > 0 {
                    out.push_str(" , ");
                }
                write_escaped(&J::String(k.clone()), out);
                out.push_str(" : ");
                write_escaped(x, out);
            }
            out.push_str(" }");
        }
        other => out.push_str(&other.to_string()),
    }
}

fn render(v: &serde_json::Value, style: u8) -> String {
    match style % 3 {
        0 => serde_json::to_string(v).unwrap(),
        1 => serde_json::to_string_pretty(v).unwrap(),
        _ => {
            let mut s = String::new();
            write_escaped(v, &mut s);
            s
        }
    }
}

/// JSON equality: numbers compare by value
fn json_eq(a: &serde_json::Value, b: &serde_json::Value) -> bool {
    use serde_json::Value as J;
    match (a, b) {
        (J::Number(x), J::Number(y)) => {
            if let (Some(i), Some(j)) = (x.as_i64(), y.as_i64()) {
                i == j
            } else if let (Some(i), Some(j)) = (x.as_u64(), y.as_u64()) {
                i == j
            } else if x.is_f64() || y.is_f64() {
                // an integer and a float are equal when the float is that integer exactly
                match (x.as_f64(), y.as_f64()) {
                    (Some(f), Some(g)) => {
                        let int_exact = |n: &serde_json::Number, f: f64| n.is_f64() || (n.as_i64().map(|i| i as f64 == f && (f as i64) == i).unwrap_or(false)) || (n.as_u64().map(|u| u as f64 == f && (f as u64) == u).unwrap_or(false));
                        f == g && int_exact(x, f) && int_exact(y, g)
                    }
                    _ => false,
                }
            } else {
                false
            }
        }
        (J::Array(x), J::Array(y)) => x.len() == y.len() && x.iter().zip(y).all(|(p, q)| json_eq(p, q)),
        (J::Object(x), J::Object(y)) => x.len() == y.len() && x.iter().all(|(k, p)| y.get(k).map(|q| json_eq(p, q)).unwrap_or(false)),
        _ => a == b,
    }
}

/// walk the document along generated steps; returns the path text and the value it names (None = nothing there)
fn make_path<'a>(doc: &'a serde_json::Value, tp: &mut Tape) -> (String, Option<&'a serde_json::Value>) {
    use serde_json::Value as J;
    let mut path = String::from("$");
    let mut cur = doc;
    let steps = tp.next() % 4;
    for _ in 0..steps {
        match cur {
            J::Object(m) => {
                let keys: Vec<&String> = m.keys().filter(|k| ident_key(k)).collect();
                let b = tp.next();
                if keys.is_empty() || b % 8 == 7 {
                    path.push_str(".zz");
                    return (path, None);
                }
                let k = keys[b as usize % keys.len()];
                path.push('.');
                path.push_str(k);
                cur = &m[k.as_str()];
            }
            J::Array(a) => {
                let b = tp.next() as usize;
                let i = b % (a.len() + 1);
                path.push_str(&format!("[{i}]"));
                if i >= a.len() {
                    return (path, None);
                }
                cur = &a[i];
            }
            _ => break,
        }
    }
    (path, Some(cur))
}

use datafusion::logical_expr::{ColumnarValue, ScalarFunctionArgs, ScalarUDF};
use datafusion_common::config::ConfigOptions;
use datafusion_common::ScalarValue;
use lance_arrow::json::{convert_json_columns, convert_lance_json_to_arrow, decode_json, encode_json, JsonArray, ARROW_JSON_EXT_NAME};
use lance_datafusion::udf::json as judf;

fn call_udf(udf: &ScalarUDF, args: Vec<ColumnarValue>, rows: usize, ret: DataType) -> Result<ArrayRef, String> {
    let arg_fields = args.iter().enumerate().map(|(i, a)| Arc::new(Field::new(format!("a{i}"), a.data_type(), true))).collect();
    let r = udf
        .invoke_with_args(ScalarFunctionArgs { args, arg_fields, number_rows: rows, return_field: Arc::new(Field::new("r", ret, true)), config_options: Arc::new(ConfigOptions::default()) })
        .map_err(|e| e.to_string())?;
    r.into_array(rows).map_err(|e| e.to_string())
}

fn parse(s: &str) -> Option<serde_json::Value> {
    serde_json::from_str(s).ok()
}

fn check_json(input: &JsonInput, obs: &mut Obs) -> CheckResult {
    let docs: Vec<Option<serde_json::Value>> = input.docs.iter().map(|d| d.as_ref().map(jval_to_serde)).collect();
    let texts: Vec<Option<String>> = docs.iter().map(|d| d.as_ref().map(|v| render(v, input.style))).collect();
    obs.label(format!("json-style-{}", input.style % 3));
    // the rendering is valid JSON for the same document (harness self check)
    for (d, t) in docs.iter().zip(&texts) {
        if let (Some(d), Some(t)) = (d, t) {
            match parse(t) {
                Some(p) => ensure!(json_eq(&p, d), "harness-json-render", "own rendering {t:?} does not parse back to {d}"),
                None => fail!("harness-json-render", "own rendering {t:?} is not JSON"),
            }
        }
    }
    // 1. encode / decode of every document
    for (d, t) in docs.iter().zip(&texts) {
        let (Some(d), Some(t)) = (d, t) else { continue };
        obs.inner += 1;
        let enc = match encode_json(t) {
            Ok(e) => e,
            Err(e) => fail!("json-encode-error", "encode_json({t:?}) failed: {e}"),
        };
        let dec = match decode_json(&enc) {
            Ok(s) => s,
            Err(e) => fail!("json-decode-error", "decode_json(encode_json({t:?})) failed: {e}"),
        };
        match parse(&dec) {
            Some(p) => ensure!(json_eq(&p, d), "json-roundtrip", "decode(encode({t:?})) = {dec:?}, not JSON-equal to the input"),
            None => fail!("json-roundtrip-invalid", "decode(encode({t:?})) = {dec:?} is not valid JSON"),
        }
    }
    // 2. arrays: a sliced string array (non-zero offset) with nulls
    let pre = (input.pre % 3) as usize;
    let mut padded: Vec<Option<String>> = vec![Some("{\"pad\": [1, 2]}".to_string()); pre];
    padded.extend(texts.iter().cloned());
    padded.push(None);
    let sa_full = StringArray::from(padded.iter().map(|s| s.as_deref()).collect::<Vec<_>>());
    let sa = sa_full.slice(pre, texts.len());
    if pre > 0 {
        obs.label("json-sliced-input");
    }
    let ja = match JsonArray::try_from(&sa) {
        Ok(j) => j,
        Err(e) => fail!("json-array-error", "JsonArray::try_from(StringArray) failed: {e}"),
    };
    ensure!(ja.len() == docs.len(), "json-array-len", "JsonArray has {} rows for {} inputs", ja.len(), docs.len());
    let ja2 = match JsonArray::try_from_iter(texts.iter().map(|t| t.as_deref())) {
        Ok(j) => j,
        Err(e) => fail!("json-array-error", "JsonArray::try_from_iter failed: {e}"),
    };
    let back = match ja.to_arrow_json() {
        Ok(b) => b,
        Err(e) => fail!("json-array-error", "to_arrow_json failed: {e}"),
    };
    for (i, d) in docs.iter().enumerate() {
        ensure!(ja.is_null(i) == d.is_none() && ja2.is_null(i) == d.is_none() && back.is_null(i) == d.is_none(), "json-array-nulls", "row {i}: null-ness changed");
        let Some(d) = d else { continue };
        for (what, s) in [("value()", ja.value(i).map_err(|e| e.to_string())), ("try_from_iter value()", ja2.value(i).map_err(|e| e.to_string())), ("to_arrow_json", Ok(back.as_string::<i32>().value(i).to_string()))] {
            match s {
                Ok(s) => match parse(&s) {
                    Some(p) => ensure!(json_eq(&p, d), "json-array-roundtrip", "row {i} {what}: {s:?} is not JSON-equal to {d}"),
                    None => fail!("json-roundtrip-invalid", "row {i} {what}: {s:?} is not valid JSON"),
                },
                Err(e) => fail!("json-array-error", "row {i} {what} failed: {e}"),
            }
        }
    }
    // 3. batch conversion arrow.json <-> lance.json
    {
        let mut f = Field::new("j", DataType::Utf8, true);
        f.set_metadata([("ARROW:extension:name".to_string(), ARROW_JSON_EXT_NAME.to_string())].into());
        let schema = Arc::new(Schema::new(vec![f, Field::new("n", DataType::Int32, true)]));
        let n = Int32Array::from((0..sa.len() as i32).collect::<Vec<_>>());
        let batch = RecordBatch::try_new(schema, vec![Arc::new(sa.clone()), Arc::new(n)]).unwrap();
        let conv = match convert_json_columns(&batch) {
            Ok(c) => c,
            Err(e) => fail!("json-convert-error", "convert_json_columns failed: {e}"),
        };
        ensure!(conv.num_rows() == batch.num_rows(), "json-convert-rows", "convert_json_columns changed the row count {} -> {}", batch.num_rows(), conv.num_rows());
        let rt = match convert_lance_json_to_arrow(&conv) {
            Ok(c) => c,
            Err(e) => fail!("json-convert-error", "convert_lance_json_to_arrow failed: {e}"),
        };
        ensure!(rt.num_rows() == batch.num_rows(), "json-convert-rows", "convert_lance_json_to_arrow changed the row count {} -> {}", batch.num_rows(), rt.num_rows());
        ensure!(rt.schema().field(0).data_type() == &DataType::Utf8, "json-convert-type", "round trip type {:?}", rt.schema().field(0).data_type());
        if rt.num_rows() > 0 {
            let col = rt.column(0).as_string::<i32>();
            for (i, d) in docs.iter().enumerate() {
                ensure!(col.is_null(i) == d.is_none(), "json-convert-nulls", "row {i}: null-ness changed in the batch conversion");
                if let Some(d) = d {
                    match parse(col.value(i)) {
                        Some(p) => ensure!(json_eq(&p, d), "json-convert-roundtrip", "row {i}: {:?} is not JSON-equal to {d}", col.value(i)),
                        None => fail!("json-roundtrip-invalid", "row {i}: {:?} is not valid JSON", col.value(i)),
                    }
                }
            }
        }
    }
    // 4. paths
    let jsonb: ArrayRef = Arc::new(ja.inner().clone());
    let rows = docs.len();
    let mut tp = Tape { t: &input.paths, pos: 0 };
    let mut path_classes = BTreeSet::new();
    for round in 0..3 {
        let mut paths: Vec<Option<String>> = vec![];
        let mut expect: Vec<Option<&serde_json::Value>> = vec![];
        for d in &docs {
            match d {
                Some(d) => {
                    let (p, e) = make_path(d, &mut tp);
                    path_classes.insert(if e.is_none() { "missing" } else if p == "$" { "root" } else if p.contains('[') { "index" } else { "key" });
                    paths.push(Some(p));
                    expect.push(e);
                }
                None => {
                    paths.push(Some("$".to_string()));
                    expect.push(None);
                }
            }
        }
        if rows == 0 {
            break;
        }
        obs.inner += rows as u64;
        let path_arr: ArrayRef = Arc::new(StringArray::from(paths.iter().map(|p| p.as_deref()).collect::<Vec<_>>()));
        // JsonArray::json_path
        for i in 0..rows {
            if docs[i].is_none() {
                continue;
            }
            let p = paths[i].as_deref().unwrap();
            match ja.json_path(i, p) {
                Ok(got) => match (got, expect[i]) {
                    (None, None) => {}
                    (Some(s), Some(e)) => match parse(&s) {
                        Some(pv) => ensure!(json_eq(&pv, e), "json-path", "round {round} row {i}: json_path({p:?}) on {} = {s:?}, expected {e}", docs[i].as_ref().unwrap()),
                        None => fail!("json-path", "row {i}: json_path({p:?}) returned {s:?}, not JSON"),
                    },
                    (g, e) => fail!("json-path", "round {round} row {i}: json_path({p:?}) on {} = {g:?}, expected {e:?}", docs[i].as_ref().unwrap()),
                },
                Err(e) => fail!("json-path-error", "row {i}: json_path({p:?}) failed: {e}"),
            }
        }
        let args = || vec![ColumnarValue::Array(jsonb.clone()), ColumnarValue::Array(path_arr.clone())];
        // json_extract
        match call_udf(&judf::json_extract_udf(), args(), rows, DataType::Utf8) {
            Ok(out) => {
                let out = out.as_string::<i32>();
                for i in 0..rows {
                    let want = if docs[i].is_none() { None } else { expect[i] };
                    match (out.is_null(i), want) {
                        (true, None) => {}
                        (false, Some(e)) => match parse(out.value(i)) {
                            Some(pv) => ensure!(json_eq(&pv, e), "json-extract", "row {i}: json_extract({:?}) = {:?}, expected {e}", paths[i], out.value(i)),
                            None => fail!("json-extract", "row {i}: json_extract returned {:?}, not JSON", out.value(i)),
                        },
                        (isnull, e) => fail!("json-extract", "row {i}: json_extract({:?}) on {:?} null={isnull}, expected {e:?}", paths[i], docs[i]),
                    }
                }
            }
            Err(e) => fail!("json-extract-error", "json_extract failed on valid paths {paths:?}: {e}"),
        }
        // json_exists
        match call_udf(&judf::json_exists_udf(), args(), rows, DataType::Boolean) {
            Ok(out) => {
                let out = out.as_boolean();
                for i in 0..rows {
                    if docs[i].is_none() {
                        ensure!(out.is_null(i), "json-exists", "row {i}: json_exists of a null document is not null");
                    } else {
                        ensure!(!out.is_null(i) && out.value(i) == expect[i].is_some(), "json-exists", "row {i}: json_exists({:?}) on {} = {:?}, expected {}", paths[i], docs[i].as_ref().unwrap(), out.value(i), expect[i].is_some());
                    }
                }
            }
            Err(e) => fail!("json-exists-error", "json_exists failed on valid paths {paths:?}: {e}"),
        }
        // json_extract_with_type: the type tag
        match call_udf(&judf::json_extract_with_type_udf(), args(), rows, judf::json_extract_with_type_udf().return_type(&[DataType::LargeBinary, DataType::Utf8]).unwrap()) {
            Ok(out) => {
                let st = out.as_struct();
                let vals = st.column(0).as_binary::<i64>();
                let tags = st.column(1).as_primitive::<UInt8Type>();
                for i in 0..rows {
                    let want = if docs[i].is_none() { None } else { expect[i] };
                    match want {
                        None => ensure!(vals.is_null(i) && tags.value(i) == 0, "json-extract-type", "row {i}: missing path gives tag {} null={}", tags.value(i), vals.is_null(i)),
                        Some(e) => {
                            use serde_json::Value as J;
                            let tag = match e {
                                J::Null => 0,
                                J::Bool(_) => 1,
                                J::Number(n) if n.is_i64() => 2,
                                J::Number(n) if n.is_u64() => 255, // > i64::MAX: either tag is defensible
                                J::Number(_) => 3,
                                J::String(_) => 4,
                                J::Array(_) => 5,
                                J::Object(_) => 6,
                            };
                            ensure!(!vals.is_null(i), "json-extract-type", "row {i}: value is null for an existing path {:?}", paths[i]);
                            if tag != 255 {
                                ensure!(tags.value(i) == tag, "json-extract-type", "row {i}: type tag {} for {e}, expected {tag}", tags.value(i));
                            }
                            match decode_json(vals.value(i)).ok().and_then(|s| parse(&s)) {
                                Some(pv) => ensure!(json_eq(&pv, e), "json-extract-type", "row {i}: extracted JSONB is not {e}"),
                                None => fail!("json-extract-type", "row {i}: extracted JSONB does not decode"),
                            }
                        }
                    }
                }
            }
            Err(e) => fail!("json-extract-error", "json_extract_with_type failed on valid paths {paths:?}: {e}"),
        }
        // json_array_length where the path names an array or nothing (scalar path argument when one document)
        let all_arrayish = (0..rows).all(|i| docs[i].is_none() || expect[i].map(|e| e.is_array()).unwrap_or(true));
        if all_arrayish {
            path_classes.insert("array-length");
            match call_udf(&judf::json_array_length_udf(), args(), rows, DataType::Int64) {
                Ok(out) => {
                    let out = out.as_primitive::<Int64Type>();
                    for i in 0..rows {
                        let want = if docs[i].is_none() { None } else { expect[i].map(|e| e.as_array().unwrap().len() as i64) };
                        let got = if out.is_null(i) { None } else { Some(out.value(i)) };
                        ensure!(got == want, "json-array-length", "row {i}: json_array_length({:?}) on {:?} = {got:?}, expected {want:?}", paths[i], docs[i]);
                    }
                }
                Err(e) => fail!("json-array-length-error", "json_array_length failed: {e}"),
            }
        }
    }
    // 5. json_get family on the top level of each document, one key per call (scalar key)
    for (i, d) in docs.iter().enumerate() {
        let Some(d) = d else { continue };
        use serde_json::Value as J;
        let (key, want): (String, Option<&J>) = match d {
            J::Object(m) => {
                let keys: Vec<&String> = m.keys().filter(|k| k.parse::<usize>().is_err()).collect();
                let b = tp.next() as usize;
                if keys.is_empty() || b % 8 == 7 {
                    ("zz".to_string(), None)
                } else {
                    let k = keys[b % keys.len()];
                    (k.clone(), m.get(k.as_str()))
                }
            }
            J::Array(a) => {
                let k = tp.next() as usize % (a.len() + 1);
                (k.to_string(), a.get(k))
            }
            _ => continue,
        };
        obs.inner += 1;
        let one: ArrayRef = jsonb.slice(i, 1);
        let args = || vec![ColumnarValue::Array(one.clone()), ColumnarValue::Scalar(ScalarValue::Utf8(Some(key.clone())))];
        match call_udf(&judf::json_get_udf(), args(), 1, DataType::LargeBinary) {
            Ok(out) => {
                let out = out.as_binary::<i64>();
                match (out.is_null(0), want) {
                    (true, None) => {}
                    (false, Some(e)) => match decode_json(out.value(0)).ok().and_then(|s| parse(&s)) {
                        Some(pv) => ensure!(json_eq(&pv, e), "json-get", "json_get({key:?}) on {d} gives a value that is not {e}"),
                        None => fail!("json-get", "json_get({key:?}) on {d}: result does not decode"),
                    },
                    (isnull, e) => fail!("json-get", "json_get({key:?}) on {d}: null={isnull}, expected {e:?}"),
                }
            }
            Err(e) => fail!("json-get-error", "json_get({key:?}) on {d} failed: {e}"),
        }
        // typed getters: asserted for the matching JSON type, for null and for a missing key
        let typed: [(&str, ScalarUDF, DataType); 4] = [
            ("string", judf::json_get_string_udf(), DataType::Utf8),
            ("int", judf::json_get_int_udf(), DataType::Int64),
            ("float", judf::json_get_float_udf(), DataType::Float64),
            ("bool", judf::json_get_bool_udf(), DataType::Boolean),
        ];
        for (name, udf, ret) in typed {
            let matches_type = match (name, want) {
                (_, None) | (_, Some(J::Null)) => true,
                ("string", Some(J::String(_))) => true,
                ("int", Some(J::Number(n))) => n.is_i64(),
                ("float", Some(J::Number(n))) => n.is_f64(),
                ("bool", Some(J::Bool(_))) => true,
                _ => false,
            };
            match call_udf(&udf, args(), 1, ret) {
                Ok(out) => {
                    if !matches_type {
                        continue;
                    }
                    let got: Option<J> = if out.is_null(0) {
                        None
                    } else {
                        Some(match name {
                            "string" => J::String(out.as_string::<i32>().value(0).to_string()),
                            "int" => J::from(out.as_primitive::<Int64Type>().value(0)),
                            "float" => J::from(out.as_primitive::<Float64Type>().value(0)),
                            _ => J::Bool(out.as_boolean().value(0)),
                        })
                    };
                    let want_v: Option<&J> = match want {
                        Some(J::Null) | None => None,
                        w => w,
                    };
                    let ok = match (&got, want_v) {
                        (None, None) => true,
                        (Some(g), Some(w)) => json_eq(g, w),
                        _ => false,
                    };
                    ensure!(ok, format!("json-get-{name}"), "json_get_{name}({key:?}) on {d} = {got:?}, expected {want_v:?}");
                }
                Err(e) => {
                    if matches_type {
                        fail!(format!("json-get-{name}-error"), "json_get_{name}({key:?}) on {d} failed: {e}");
                    }
                    obs.rejected += 1;
                }
            }
        }
        // json_array_contains for arrays of simple scalars
        if let J::Array(a) = d {
            let simple = |e: &J| match e {
                J::Number(n) => n.is_i64(),
                J::String(s) => !s.is_empty() && s.chars().all(|c| c.is_ascii_lowercase()),
                J::Bool(_) | J::Null => true,
                _ => false,
            };
            if a.iter().all(simple) {
                let needle = match a.get(tp.next() as usize % (a.len() + 1)) {
                    Some(J::String(s)) => s.clone(),
                    Some(other) => other.to_string(),
                    None => "absent".to_string(),
                };
                let want = a.iter().any(|e| match e {
                    J::String(s) => *s == needle,
                    other => other.to_string() == needle,
                });
                let args = vec![ColumnarValue::Array(one.clone()), ColumnarValue::Scalar(ScalarValue::Utf8(Some("$".into()))), ColumnarValue::Scalar(ScalarValue::Utf8(Some(needle.clone())))];
                match call_udf(&judf::json_array_contains_udf(), args, 1, DataType::Boolean) {
                    Ok(out) => ensure!(!out.is_null(0) && out.as_boolean().value(0) == want, "json-array-contains", "json_array_contains({d}, '$', {needle:?}) = {:?}, expected {want}", out.as_boolean().value(0)),
                    Err(e) => fail!("json-array-contains-error", "json_array_contains failed: {e}"),
                }
                path_classes.insert("array-contains");
            }
        }
    }
    for c in &path_classes {
        obs.label(format!("json-path-{c}"));
    }
    let mut kinds = BTreeSet::new();
    fn walk(v: &serde_json::Value, k: &mut BTreeSet<&'static str>, depth: usize, maxd: &mut usize) {
        use serde_json::Value as J;
        *maxd = (*maxd).max(depth);
        match v {
            J::Null => k.insert("null"),
            J::Bool(_) => k.insert("bool"),
            J::Number(n) if n.is_f64() => k.insert("float"),
            J::Number(n) if n.is_i64() => k.insert("int"),
            J::Number(_) => k.insert("u64"),
            J::String(s) if s.is_ascii() && !s.contains(['"', '\\', '\n', '\t', '\u{8}', '\u{1}']) => k.insert("str"),
            J::String(_) => k.insert("str-escapes"),
            J::Array(a) => {
                a.iter().for_each(|x| walk(x, k, depth + 1, maxd));
                k.insert("array")
            }
            J::Object(m) => {
                m.values().for_each(|x| walk(x, k, depth + 1, maxd));
                if m.keys().any(|key| !ident_key(key)) {
                    k.insert("odd-key");
                }
                k.insert("object")
            }
        };
    }
    let mut maxd = 0;
    docs.iter().flatten().for_each(|d| walk(d, &mut kinds, 0, &mut maxd));
    for k in &kinds {
        obs.label(format!("json-{k}"));
    }
    if maxd >= 1 && kinds.contains("str-escapes") {
        obs.label("nontrivial");
        obs.nontrivial(format!("json|{kinds:?}|d{maxd}|{path_classes:?}|s{}", input.style % 3));
    }
    Ok(())
}

// ---------------------------------------------------------------------------
// the array part of the check

/// the values between the first and the last offset (what the merge looks at)
fn used_values<O: OffsetSizeTrait>(l: &GenericListArray<O>) -> ArrayRef {
    let first = l.offsets().first().map(|v| v.as_usize()).unwrap_or(0);
    let last = l.offsets().last().map(|v| v.as_usize()).unwrap_or(0);
    l.values().slice(first, last - first)
}

/// a struct (on both sides) whose two validities are not the same buffer content, or that is null in every row
fn validity_class(l: &ArrayRef, r: &ArrayRef) -> bool {
    /// the same list column on both sides, null in every row
    fn all_null(l: &dyn Array, r: &dyn Array) -> bool {
        l.len() > 0 && l.null_count() == l.len() && r.null_count() == r.len()
    }
    fn go(l: &dyn Array, r: &dyn Array) -> bool {
        match (l.data_type(), r.data_type()) {
            (DataType::Struct(lf), DataType::Struct(rf)) => {
                let (ls, rs) = (l.as_struct(), r.as_struct());
                // the two conditions under which merge_struct_validity departs from "null iff null on both sides":
                // both sides null in every row; or one side without a null buffer while the other has some (not only) nulls
                let all_null = l.len() > 0 && ls.null_count() == l.len() && rs.null_count() == r.len();
                let partial = |s: &StructArray| s.null_count() > 0 && s.null_count() < s.len();
                let one_sided = (ls.nulls().is_none() && partial(rs)) || (rs.nulls().is_none() && partial(ls));
                one_sided
                    || all_null
                    || lf.iter().enumerate().any(|(k, f)| rf.iter().position(|g| g.name() == f.name()).map(|j| go(ls.column(k).as_ref(), rs.column(j).as_ref())).unwrap_or(false))
            }
            (DataType::List(_), DataType::List(_)) => all_null(l, r) || go(used_values(l.as_list::<i32>()).as_ref(), used_values(r.as_list::<i32>()).as_ref()),
            (DataType::LargeList(_), DataType::LargeList(_)) => all_null(l, r) || go(used_values(l.as_list::<i64>()).as_ref(), used_values(r.as_list::<i64>()).as_ref()),
            (DataType::FixedSizeList(_, _), DataType::FixedSizeList(_, _)) => all_null(l, r),
            _ => false,
        }
    }
    go(l.as_ref(), r.as_ref())
}

/// a struct with nulls whose validity bitmap starts at a bit offset, or that has a child with an ArrayData offset
fn adjust_class(a: &ArrayRef) -> bool {
    let mut hit = false;
    visit(a, &mut |x| {
        if let DataType::Struct(_) = x.data_type() {
            let s = x.as_struct();
            if let Some(n) = s.nulls() {
                if n.null_count() > 0 && (n.offset() != 0 || s.columns().iter().any(|c| c.to_data().offset() != 0)) {
                    hit = true;
                }
            }
        }
    });
    hit
}

fn check_arrays(input: &ArrInput, obs: &mut Obs, env: &Env) -> CheckResult {
    let n = (input.rows % 9) as usize;
    let mut tp = Tape { t: &input.tape, pos: 0 };
    let mut fl = Flags::default();
    let mut cols: Vec<ArrayRef> = vec![];
    let mut models: Vec<Vec<Value>> = vec![];
    let mut fields = vec![];
    for (k, ty) in input.cols.iter().enumerate() {
        let (a, v) = build(ty, n, &mut tp, &mut fl);
        fields.push(Field::new(format!("c{k}"), a.data_type().clone(), true));
        cols.push(a);
        models.push(v);
    }
    let schema = Arc::new(Schema::new(fields));
    let batch = RecordBatch::try_new(schema.clone(), cols.clone()).unwrap();
    let rows: Vec<Value> = (0..n).map(|i| Value::Struct(models.iter().enumerate().map(|(k, m)| (format!("c{k}"), m[i].clone())).collect())).collect();

    let mut kinds = BTreeSet::new();
    input.cols.iter().for_each(|t| ty_kinds(t, &mut kinds));
    for k in &kinds {
        obs.label(format!("type-{k}"));
    }
    obs.label(format!("rows-{}", if n == 0 { "0" } else if n < 4 { "1-3" } else { "4-8" }));

    // reader self check: the arrays hold what the builder says
    for (k, c) in cols.iter().enumerate() {
        same_values("harness-self-check", &format!("column {k}"), c.as_ref(), &models[k])?;
    }

    // deep copies
    for (k, c) in cols.iter().enumerate() {
        obs.inner += 1;
        check_copies(c, &models[k], obs, env)?;
    }
    let any_offset = cols.iter().any(|c| c.to_data().offset() != 0);
    match deep_copy_batch(&batch) {
        Ok(b) => {
            ensure!(b.schema() == batch.schema(), "deep-copy-batch-schema", "deep_copy_batch changed the schema");
            same_rows("deep-copy-batch", "deep_copy_batch", &b, &rows)?;
        }
        Err(e) => fail!("deep-copy-batch-error", "deep_copy_batch failed: {e}"),
    }
    for what in ["deep_copy_batch_sliced", "shrink_to_fit", "shrink_to_fit of batch.slice(1, n-1)"] {
        let (src, want): (RecordBatch, &[Value]) = if what.starts_with("shrink_to_fit of") {
            if n < 2 {
                continue;
            }
            (batch.slice(1, n - 1), &rows[1..])
        } else {
            (batch.clone(), &rows[..])
        };
        let outcome: CheckResult = match guarded(|| if what == "deep_copy_batch_sliced" { deep_copy_batch_sliced(&src) } else { src.shrink_to_fit() }) {
            Err(p) => Err(Failure::new("deep-copy-batch-panic", format!("{what} panicked: {p}"))),
            Ok(Err(e)) => Err(Failure::new("deep-copy-batch-error", format!("{what} failed: {e}"))),
            Ok(Ok(b)) => (|| {
                ensure!(b.schema() == src.schema(), "deep-copy-batch-schema", "{what} changed the schema");
                same_rows("deep-copy-batch", what, &b, want)
            })(),
        };
        if let Err(f) = outcome {
            if any_offset || src.columns().iter().any(|c| c.to_data().offset() != 0) {
                known_or_fail!(env, obs, K_DEEP_COPY, "deep-copy-sliced-double-offset", "{} [{}]", f.msg, f.kind);
            } else {
                return Err(f);
            }
        }
    }

    // list and struct helpers on every reachable array
    let mut reach: Vec<ArrayRef> = vec![];
    for c in &cols {
        visit(c, &mut |a| reach.push(a.clone()));
    }
    for a in &reach {
        match a.data_type() {
            DataType::List(_) => check_list_helpers::<i32>(a, obs)?,
            DataType::LargeList(_) => check_list_helpers::<i64>(a, obs)?,
            DataType::Struct(_) => check_struct_helpers(a, obs, env)?,
            _ => {}
        }
    }

    // project_by_schema
    {
        obs.inner += 1;
        let mut sp = Tape { t: &input.sel, pos: 0 };
        let sel = select_fields(schema.fields(), &mut sp, true);
        let pschema = Schema::new(sel.clone());
        match batch.project_by_schema(&pschema) {
            Ok(p) => {
                ensure!(p.schema().fields() == &sel, "project-by-schema-fields", "projected schema {:?}, requested {:?}", p.schema().fields(), sel);
                let want: Vec<Value> = rows.iter().map(|r| project_value(r, &sel)).collect();
                same_rows("project-by-schema", "project_by_schema", &p, &want)?;
                if sel.len() < schema.fields().len() || sel.iter().zip(schema.fields()).any(|(a, b)| a != b) {
                    obs.label("project-strict");
                }
            }
            Err(e) => fail!("project-by-schema-error", "project_by_schema({sel:?}) failed: {e}"),
        }
        // a field the batch lacks is rejected
        let bad = Schema::new(vec![Field::new("nope", DataType::Int32, true)]);
        match batch.project_by_schema(&bad) {
            Err(_) => obs.rejected += 1,
            Ok(_) => fail!("project-by-schema-unknown-accepted", "project_by_schema accepted a field the batch lacks"),
        }
    }

    // take
    {
        obs.inner += 1;
        let idxs: Vec<u32> = if n == 0 { vec![] } else { input.take.iter().map(|f| idx(*f, n) as u32).collect() };
        let want: Vec<Value> = idxs.iter().map(|i| rows[*i as usize].clone()).collect();
        match batch.take(&UInt32Array::from(idxs.clone())) {
            Ok(t) => {
                ensure!(t.schema() == batch.schema(), "take-schema", "take changed the schema");
                same_rows("take", &format!("take({idxs:?})"), &t, &want)?;
            }
            Err(e) => fail!("take-error", "take({idxs:?}) failed: {e}"),
        }
    }

    // merge_with_schema and merge
    for with_schema in [true, false] {
        obs.inner += 1;
        let mut sp = Tape { t: &input.split, pos: if with_schema { 0 } else { 1 } };
        let mut info = SplitInfo::default();
        let whole: StructArray = batch.clone().into();
        let (mut ls, mut rs) = split_struct(&whole, &mut sp, with_schema, false, true, &mut info);
        // physical variation: compact one side (list offsets are rebased, slices removed)
        let mut compact = sp.next() % 4;
        if (info.both_list_struct || info.both_list) && compact != 0 {
            // lists merged from both sides must have the same raw offsets (in-tree precondition): compact both or none
            compact = 3;
        }
        let comp = |s: &StructArray| StructArray::new(s.fields().clone(), s.columns().iter().map(identity_take).collect(), None);
        if compact == 1 || compact == 3 {
            rs = comp(&rs);
        }
        if compact == 2 || compact == 3 {
            ls = comp(&ls);
        }
        let left = RecordBatch::from(ls.clone());
        let right = RecordBatch::from(rs.clone());
        let lrows = values_of(&ls);
        let rrows = values_of(&rs);
        let (ldt, rdt) = (ls.data_type().clone(), rs.data_type().clone());
        let larr: ArrayRef = Arc::new(ls.clone());
        let rarr: ArrayRef = Arc::new(rs.clone());
        let mode = if with_schema { "merge_with_schema" } else { "merge" };
        for (c, on) in [("both-struct", info.both_struct), ("both-list-struct", info.both_list_struct), ("both-leaf", info.both_leaf), ("masked", info.masked)] {
            if on {
                obs.label(format!("{mode}-{c}"));
            }
        }
        let sdt = DataType::Struct(schema.fields().clone());
        let want: Vec<Value> = (0..n)
            .map(|i| if with_schema { merge_model_schema(Some((&lrows[i], &ldt)), Some((&rrows[i], &rdt)), &sdt) } else { merge_model_plain(&lrows[i], &ldt, &rrows[i], &rdt) })
            .collect();
        // narrow classes of the known defects
        let shared_list_offset = with_schema && {
            // a list present on both sides whose left offsets do not start at zero
            let mut hit = false;
            for (k, f) in ls.fields().iter().enumerate() {
                if rs.fields().iter().any(|g| g.name() == f.name()) {
                    hit |= first_list_offset_nonzero(ls.column(k));
                }
            }
            hit
        };
        let vclass = validity_class(&larr, &rarr);
        let r = guarded(|| if with_schema { left.merge_with_schema(&right, &schema) } else { left.merge(&right) });
        let outcome: CheckResult = match r {
            Err(p) => Err(Failure::new(format!("{mode}-panic"), format!("{mode} panicked: {p}"))),
            Ok(Err(e)) => Err(Failure::new(format!("{mode}-error"), format!("{mode} failed: {e}"))),
            Ok(Ok(m)) => same_rows(&format!("{mode}-values"), mode, &m, &want),
        };
        if let Err(f) = outcome {
            let detail = format!("{} [{}]; left {:?} right {:?}", f.msg, f.kind, truncate_str(&format!("{ls:?}"), 700), truncate_str(&format!("{rs:?}"), 700));
            if shared_list_offset {
                known_or_fail!(env, obs, K_MERGE_OFFSETS, "merge-with-schema-list-offset", "{detail}");
            } else if adjust_class(&larr) || adjust_class(&rarr) {
                known_or_fail!(env, obs, K_MERGE_ADJUST, "merge-adjust-child-validity-offset", "{detail}");
            } else if vclass {
                known_or_fail!(env, obs, K_MERGE_VALIDITY, "merge-struct-validity", "{detail}");
            } else {
                return Err(Failure::new(f.kind, detail));
            }
        }
    }

    for (c, on) in [("offset", fl.offset), ("null-struct-live-child", fl.null_struct_live_child), ("list-garbage", fl.list_garbage), ("null-list-live", fl.null_list_live), ("all-null-struct", fl.all_null_struct)] {
        if on {
            obs.label(format!("phys-{c}"));
        }
    }
    if n > 0 && fl.offset && (fl.null_struct_live_child || fl.null_list_live) {
        obs.label("nontrivial");
        obs.nontrivial(format!("arr|{:?}|n{n}|{}{}{}", input.cols, fl.null_struct_live_child as u8, fl.null_list_live as u8, fl.list_garbage as u8));
    }
    Ok(())
}

// ---------------------------------------------------------------------------
// strategies and the property

fn ty_strategy() -> BoxedStrategy<Ty> {
    let leaf = prop_oneof![Just(Ty::I32), Just(Ty::I64), Just(Ty::F64), Just(Ty::Bool), Just(Ty::Str)];
    let prim = leaf.clone();
    leaf.prop_recursive(3, 12, 3, move |inner| {
        prop_oneof![
            4 => prop::collection::vec(inner.clone(), 1..4).prop_map(Ty::Struct),
            2 => inner.clone().prop_map(|t| Ty::List(Box::new(t))),
            1 => inner.prop_map(|t| Ty::LargeList(Box::new(t))),
            1 => (prim.clone(), 1u8..4).prop_map(|(t, s)| Ty::Fsl(Box::new(t), s)),
        ]
    })
    .boxed()
}

fn jval_strategy() -> BoxedStrategy<JVal> {
    let leaf = prop_oneof![
        1 => Just(JVal::Null),
        1 => any::<bool>().prop_map(JVal::Bool),
        3 => prop_oneof![-5i64..1000, any::<i64>()].prop_map(JVal::Int),
        1 => (i64::MAX as u64..=u64::MAX).prop_map(JVal::BigU),
        2 => (0u8..JFLOATS.len() as u8).prop_map(JVal::Float),
        4 => prop::collection::vec(0u8..JCHARS.len() as u8, 0..5).prop_map(JVal::Str),
        1 => prop::collection::vec(0u8..1, 1..4).prop_map(JVal::Str),
    ];
    leaf.prop_recursive(3, 16, 4, |inner| {
        prop_oneof![
            1 => prop::collection::vec(inner.clone(), 0..4).prop_map(JVal::Arr),
            2 => prop::collection::vec((0u8..KEYS.len() as u8, inner), 0..4).prop_map(JVal::Obj),
        ]
    })
    .boxed()
}

impl Property for C40 {
    type Input = Input;
    fn id(&self) -> &'static str {
        "C40"
    }
    fn rule(&self) -> String {
        "Two families. (1) Arrays: a batch of 1-3 columns of generated nested types (struct / list / large list / fixed-size list / int32, int64, float64 incl. NaN and -0, bool, utf8; depth <= 4), 0-8 rows, built from a byte tape: every level is built longer and sliced (non-zero offsets), validity absent / random / all-null, list entries behind nulls keep garbage values, list offsets need not start at 0, null structs keep non-null children. The builder's logical rows are first compared with an independent reader (to_value). Checked: deep_copy_array(_sliced), deep_copy_batch(_sliced), shrink_to_fit (identity, zero offset), filter_garbage_nulls (identity, empty nulls, no unreferenced values), trimmed_values, normalize_slicing, pushdown_nulls (identity, child validity subset of parent) on every reachable array, project_by_schema (generated struct sub-tree, reordered), take (generated in-range indices), and merge / merge_with_schema of a left and a right batch obtained by distributing the children of every struct (also inside lists for merge_with_schema) over the two sides, with shared leaves replaced on the right (left precedence), optionally different struct validity on the two sides and one side compacted; the model is the documented field-wise union on the logical rows. (2) JSON: 1-4 documents (nested objects / arrays, strings with escapes, control and non-BMP characters, i64 / u64 / float numbers) rendered compact / pretty / fully escaped, through encode_json/decode_json, JsonArray (from a sliced StringArray with nulls), convert_json_columns / convert_lance_json_to_arrow, json_path and the json_extract, json_extract_with_type, json_exists, json_array_length, json_get(_string/int/float/bool), json_array_contains UDFs, compared with serde_json on `$.key` / `[i]` paths. Non-trivial (arrays) = a non-zero offset and a null struct or list over non-null children; (JSON) = nesting >= 1 and a string needing escapes; distinct by types / shape."
            .into()
    }
    fn assumptions(&self) -> Vec<String> {
        vec![
            "take indices are in range and non-null".into(),
            "`merge` is only given shared columns that are structs or leaves (documented as not handling nested lists)".into(),
            "list<struct> columns present on both sides of a merge have identical raw offsets and validity on the two sides (the in-tree panic message of `merge` demands it); they may be sliced (first offset > 0) identically".into(),
            "struct validity of a merge result: null iff null on both sides, children of a null side read as null (in-tree test test_merge_struct_with_different_validity); sides get different validity only where all shared children are leaves".into(),
            "project_by_schema sub-selects inside structs only (list-of-struct is an in-code TODO)".into(),
            "JSON object keys are unique; JSON paths use only `$`, `.identifier` and `[index]`; typed json_get_* are asserted only for values of the matching JSON type, null and missing keys; object keys that look like numbers are not used with json_get".into(),
            "JSON numbers compare by value (1e10 == 10000000000)".into(),
        ]
    }
    fn cases(&self, tier: Tier) -> u32 {
        tier.pick(200_000, 4_000_000)
    }
    fn strategy(&self, _tier: Tier) -> BoxedStrategy<Input> {
        let arrays = (
            prop::collection::vec(ty_strategy(), 1..4),
            0u8..9,
            prop::collection::vec(any::<u8>(), 8..96),
            prop::collection::vec(any::<u16>(), 0..6),
            prop::collection::vec(any::<u8>(), 1..16),
            prop::collection::vec(any::<u8>(), 1..24),
        )
            .prop_map(|(cols, rows, tape, take, sel, split)| Input::Arrays(ArrInput { cols, rows, tape, take, sel, split }));
        let json = (prop::collection::vec(prop::option::weighted(0.85, jval_strategy()), 1..4), 0u8..3, 0u8..3, prop::collection::vec(any::<u8>(), 1..24))
            .prop_map(|(docs, style, pre, paths)| Input::Json(JsonInput { docs, style, pre, paths }));
        prop_oneof![3 => arrays, 1 => json].boxed()
    }
    fn check(&self, input: &Input, obs: &mut Obs, env: &Env) -> CheckResult {
        match input {
            Input::Arrays(a) => {
                obs.label("arrays");
                check_arrays(a, obs, env)
            }
            Input::Json(j) => {
                obs.label("json");
                check_json(j, obs)
            }
        }
    }
}
