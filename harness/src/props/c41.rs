//! C41 — Replay spills and stream chunking deliver every batch exactly once.
//!
//! Spill part: a generated batch sequence is written through `SpillSender`
//! under a generated memory limit; 1-4 readers are opened at generated points
//! (relative to the writer's completed operations) and every actor (writer,
//! readers) advances by exactly one suspension point per schedule entry.  The
//! model is the list of batches itself plus "what has been published so far".
//!
//! Chunker part: the same batches are pushed through `chunk_stream`,
//! `chunk_concat_stream`, `break_stream` and `StrictBatchSizeStream` with
//! generated sizes; sizes and the concatenation are compared with the input.

use crate::engine::*;
use crate::{ensure, fail};
use arrow_array::builder::{FixedSizeListBuilder, Float32Builder, Int32Builder, ListBuilder};
use arrow_array::{ArrayRef, BooleanArray, Float64Array, Int32Array, Int64Array, RecordBatch, StringArray, StructArray};
use arrow_schema::{DataType, Field, Schema, SchemaRef};
use datafusion::execution::{RecordBatchStream, SendableRecordBatchStream};
use datafusion_common::DataFusionError;
use futures::future::BoxFuture;
use futures::task::ArcWake;
use futures::{Stream, StreamExt};
use lance_datafusion::chunker::{break_stream, chunk_concat_stream, chunk_stream, StrictBatchSizeStream};
use lance_datafusion::spill::{create_replay_spill, SpillSender};
use proptest::prelude::*;
use serde::{Deserialize, Serialize};
use std::collections::VecDeque;
use std::pin::Pin;
use std::sync::atomic::{AtomicBool, AtomicUsize, Ordering};
use std::sync::Arc;
use std::task::{Context, Poll};

pub struct C41;

#[derive(Clone, Copy, Debug, Serialize, Deserialize, PartialEq)]
pub enum Col {
    I32,
    I64N,
    Utf8N,
    F64,
    BoolN,
    ListI32,
    Fsl4,
    Struct,
}

#[derive(Clone, Debug, Serialize, Deserialize, PartialEq)]
pub struct BatchSpec {
    pub rows: u16,
    /// rows cut off in front / behind (the batch is a slice of a larger one)
    pub pad: Option<(u8, u8)>,
}

#[derive(Clone, Debug, Serialize, Deserialize, PartialEq)]
pub enum Limit {
    Zero,
    Never,
    /// smallest limit that is exceeded exactly by write number idx(frac, n)
    SpillAt(u16),
    Bytes(u32),
}

#[derive(Clone, Debug, Serialize, Deserialize, PartialEq)]
pub enum End {
    Finish,
    /// `send_error` after idx(frac, n+1) writes, no finish
    Error(u16),
}

#[derive(Clone, Debug, Serialize, Deserialize, PartialEq)]
pub struct Input {
    pub cols: Vec<Col>,
    pub salt: u32,
    pub batches: Vec<BatchSpec>,
    pub limit: Limit,
    pub end: End,
    /// per reader: eligible to open once the writer completed idx(frac, nops+1) operations
    pub readers: Vec<u16>,
    /// 0 = writer, k = reader k (entries naming an absent reader are skipped)
    pub schedule: Vec<u8>,
    /// chunk sizes for chunk_stream, chunk_concat_stream, break_stream, StrictBatchSizeStream
    pub chunk: [u32; 4],
}

// ---------------------------------------------------------------------------
// data

fn mix(mut z: u64) -> u64 {
    z = z.wrapping_add(0x9E37_79B9_7F4A_7C15);
    z = (z ^ (z >> 30)).wrapping_mul(0xBF58_476D_1CE4_E5B9);
    z = (z ^ (z >> 27)).wrapping_mul(0x94D0_49BB_1331_11EB);
    z ^ (z >> 31)
}

fn hv(salt: u32, b: usize, c: usize, r: usize) -> u64 {
    mix(mix(salt as u64 ^ ((b as u64) << 40) ^ ((c as u64) << 24)) ^ r as u64)
}

fn field(c: Col, i: usize) -> Field {
    let name = format!("c{i}");
    match c {
        Col::I32 => Field::new(name, DataType::Int32, false),
        Col::I64N => Field::new(name, DataType::Int64, true),
        Col::Utf8N => Field::new(name, DataType::Utf8, true),
        Col::F64 => Field::new(name, DataType::Float64, false),
        Col::BoolN => Field::new(name, DataType::Boolean, true),
        Col::ListI32 => Field::new(name, DataType::List(Arc::new(Field::new("item", DataType::Int32, true))), true),
        Col::Fsl4 => Field::new(name, DataType::FixedSizeList(Arc::new(Field::new("item", DataType::Float32, true)), 4), true),
        Col::Struct => Field::new(
            name,
            DataType::Struct(vec![Field::new("a", DataType::Int32, false), Field::new("b", DataType::Utf8, true)].into()),
            false,
        ),
    }
}

fn array(c: Col, salt: u32, b: usize, ci: usize, n: usize) -> ArrayRef {
    let h = |r: usize| hv(salt, b, ci, r);
    match c {
        Col::I32 => Arc::new(Int32Array::from_iter_values((0..n).map(|r| h(r) as i32))),
        Col::I64N => Arc::new((0..n).map(|r| if h(r) % 5 == 0 { None } else { Some((h(r) >> 8) as i64) }).collect::<Int64Array>()),
        Col::Utf8N => Arc::new(
            (0..n)
                .map(|r| {
                    let v = h(r);
                    if v % 7 == 0 {
                        None
                    } else {
                        Some(format!("{:014x}", v >> 8)[..((v >> 3) % 13) as usize].to_string())
                    }
                })
                .collect::<StringArray>(),
        ),
        Col::F64 => Arc::new(Float64Array::from_iter_values((0..n).map(|r| f64::from_bits(h(r))))),
        Col::BoolN => Arc::new((0..n).map(|r| if h(r) % 6 == 0 { None } else { Some(h(r) & 16 != 0) }).collect::<BooleanArray>()),
        Col::ListI32 => {
            let mut bld = ListBuilder::new(Int32Builder::new());
            for r in 0..n {
                let v = h(r);
                if v % 9 == 0 {
                    bld.append(false);
                } else {
                    for k in 0..(v >> 4) % 4 {
                        if (v >> (8 + k)) & 7 == 0 {
                            bld.values().append_null();
                        } else {
                            bld.values().append_value((v >> (16 + k)) as i32);
                        }
                    }
                    bld.append(true);
                }
            }
            Arc::new(bld.finish())
        }
        Col::Fsl4 => {
            let mut bld = FixedSizeListBuilder::new(Float32Builder::new(), 4);
            for r in 0..n {
                let v = h(r);
                for k in 0..4 {
                    bld.values().append_value(((v >> (k * 8)) & 0xff) as f32 * 0.5);
                }
                bld.append(v % 11 != 0);
            }
            Arc::new(bld.finish())
        }
        Col::Struct => {
            let a: ArrayRef = Arc::new(Int32Array::from_iter_values((0..n).map(|r| (h(r) >> 5) as i32)));
            let s: ArrayRef = Arc::new((0..n).map(|r| if h(r) % 4 == 0 { None } else { Some(format!("s{}", h(r) % 1000)) }).collect::<StringArray>());
            Arc::new(StructArray::from(vec![
                (Arc::new(Field::new("a", DataType::Int32, false)), a),
                (Arc::new(Field::new("b", DataType::Utf8, true)), s),
            ]))
        }
    }
}

fn build(input: &Input) -> (SchemaRef, Vec<RecordBatch>) {
    let schema = Arc::new(Schema::new(input.cols.iter().enumerate().map(|(i, c)| field(*c, i)).collect::<Vec<_>>()));
    let batches = input
        .batches
        .iter()
        .enumerate()
        .map(|(bi, spec)| {
            let (front, back) = spec.pad.map(|(f, b)| (f as usize, b as usize)).unwrap_or((0, 0));
            let n = spec.rows as usize + front + back;
            let cols: Vec<ArrayRef> = input.cols.iter().enumerate().map(|(ci, c)| array(*c, input.salt, bi, ci, n)).collect();
            let full = RecordBatch::try_new(schema.clone(), cols).expect("generator builds a valid batch");
            if spec.pad.is_some() {
                full.slice(front, spec.rows as usize)
            } else {
                full
            }
        })
        .collect();
    (schema, batches)
}

// ---------------------------------------------------------------------------
// one-suspension-point stepping

struct Flag {
    woken: AtomicBool,
    notify: tokio::sync::Notify,
}

impl ArcWake for Flag {
    fn wake_by_ref(a: &Arc<Self>) {
        a.woken.store(true, Ordering::SeqCst);
        a.notify.notify_one();
    }
}

impl Flag {
    fn new() -> Arc<Self> {
        Arc::new(Self { woken: AtomicBool::new(false), notify: tokio::sync::Notify::new() })
    }
    /// wait until the actor's waker fired; false = it did not within the grace period
    async fn wait(&self) -> bool {
        let w = async {
            loop {
                if self.woken.swap(false, Ordering::SeqCst) {
                    return;
                }
                self.notify.notified().await;
            }
        };
        tokio::time::timeout(std::time::Duration::from_secs(60), w).await.is_ok()
    }
}

type WFut = BoxFuture<'static, (SpillSender, Result<(), DataFusionError>)>;

#[derive(Clone, Copy, Debug, PartialEq)]
enum WOp {
    Write(usize),
    Finish,
    SendError,
}

struct Reader {
    eligible_after: usize,
    stream: Option<SendableRecordBatchStream>,
    flag: Arc<Flag>,
    got: usize,
    done: bool,
    class: &'static str,
}

const ERR_MARK: &str = "c41-injected-error-\u{1F971}";

/// a source stream that records whether it is polled again after it ended
struct Src {
    items: VecDeque<RecordBatch>,
    ended: bool,
    after_end: Arc<AtomicUsize>,
    schema: SchemaRef,
}

impl Stream for Src {
    type Item = Result<RecordBatch, DataFusionError>;
    fn poll_next(mut self: Pin<&mut Self>, _cx: &mut Context<'_>) -> Poll<Option<Self::Item>> {
        if let Some(b) = self.items.pop_front() {
            return Poll::Ready(Some(Ok(b)));
        }
        if self.ended {
            self.after_end.fetch_add(1, Ordering::SeqCst);
        }
        self.ended = true;
        Poll::Ready(None)
    }
}

impl RecordBatchStream for Src {
    fn schema(&self) -> SchemaRef {
        self.schema.clone()
    }
}

fn src(schema: &SchemaRef, batches: &[RecordBatch], ctr: &Arc<AtomicUsize>) -> SendableRecordBatchStream {
    Box::pin(Src { items: batches.iter().cloned().collect(), ended: false, after_end: ctr.clone(), schema: schema.clone() })
}

fn concat(schema: &SchemaRef, bs: &[RecordBatch]) -> Result<RecordBatch, Failure> {
    arrow::compute::concat_batches(schema, bs.iter()).map_err(|e| Failure::new("harness-concat", e.to_string()))
}

fn sizes(bs: &[RecordBatch]) -> Vec<usize> {
    bs.iter().map(|b| b.num_rows()).collect()
}

impl C41 {
    fn check_chunkers(&self, input: &Input, schema: &SchemaRef, batches: &[RecordBatch], obs: &mut Obs, env: &Env) -> CheckResult {
        let total: usize = batches.iter().map(|b| b.num_rows()).sum();
        let whole = concat(schema, batches)?;
        let after_end = Arc::new(AtomicUsize::new(0));
        let sz = |i: usize| (input.chunk[i] as usize).max(1);
        // no correct chunker emits more items than rows + input batches: a stream that is still going then would never end
        // (the row-count checks below then fail on the truncated output instead of the process running out of memory)
        let bound = total + batches.len() + 8;
        let strict_sizes = |what: &str, out: &[usize], size: usize| -> CheckResult {
            for (i, n) in out.iter().enumerate() {
                if i + 1 < out.len() {
                    ensure!(*n == size, "chunk-size", "{what}({size}): output {i} of {} has {n} rows; sizes {:?}, input {:?}", out.len(), out, sizes(batches));
                } else {
                    ensure!(*n <= size, "chunk-size-last", "{what}({size}): last output has {n} rows; sizes {:?}, input {:?}", out, sizes(batches));
                }
            }
            ensure!(out.iter().sum::<usize>() == total, "chunk-row-count", "{what}({size}): {} rows out, {total} in; sizes {:?} input {:?}", out.iter().sum::<usize>(), out, sizes(batches));
            Ok(())
        };
        let same = |what: &str, size: usize, out: &[RecordBatch]| -> CheckResult {
            for b in out {
                ensure!(b.schema() == *schema, "chunk-schema", "{what}({size}): output schema {:?} differs from input {:?}", b.schema(), schema);
            }
            let got = concat(schema, out)?;
            ensure!(got == whole, "chunk-content", "{what}({size}): concatenation of the outputs differs from the input; out sizes {:?} input {:?}", sizes(out), sizes(batches));
            Ok(())
        };

        // chunk_stream
        let size = sz(0);
        let out: Vec<Vec<RecordBatch>> = env
            .block_on(chunk_stream(src(schema, batches, &after_end), size).take(bound).collect::<Vec<_>>())
            .into_iter()
            .collect::<Result<_, _>>()
            .map_err(|e| Failure::new("chunk-error", format!("chunk_stream({size}): {e}")))?;
        let per: Vec<usize> = out.iter().map(|v| v.iter().map(|b| b.num_rows()).sum()).collect();
        strict_sizes("chunk_stream", &per, size)?;
        same("chunk_stream", size, &out.into_iter().flatten().collect::<Vec<_>>())?;
        if per.len() >= 2 {
            obs.label("chunk:multi-output");
        }
        if batches.iter().any(|b| b.num_rows() == 0) {
            obs.label("chunk:empty-input-batch");
        }
        if total > 0 && total % size == 0 {
            obs.label("chunk:exact-multiple");
        }

        // chunk_concat_stream
        let size = sz(1);
        let s = chunk_concat_stream(src(schema, batches, &after_end), size);
        ensure!(s.schema() == *schema, "chunk-schema", "chunk_concat_stream({size}): stream schema differs");
        let out: Vec<RecordBatch> = env
            .block_on(s.take(bound).collect::<Vec<_>>())
            .into_iter()
            .collect::<Result<_, _>>()
            .map_err(|e| Failure::new("chunk-error", format!("chunk_concat_stream({size}): {e}")))?;
        strict_sizes("chunk_concat_stream", &sizes(&out), size)?;
        same("chunk_concat_stream", size, &out)?;

        // break_stream
        let size = sz(2);
        let out: Vec<RecordBatch> = env
            .block_on(break_stream(src(schema, batches, &after_end), size).take(bound).collect::<Vec<_>>())
            .into_iter()
            .collect::<Result<_, _>>()
            .map_err(|e| Failure::new("chunk-error", format!("break_stream({size}): {e}")))?;
        let os = sizes(&out);
        ensure!(os.iter().sum::<usize>() == total, "chunk-row-count", "break_stream({size}): {} rows out, {total} in; {:?} from {:?}", os.iter().sum::<usize>(), os, sizes(batches));
        // documented: never combines input batches, and a new batch starts at every multiple of `size`
        let mut in_bounds = vec![];
        let mut acc = 0;
        for b in batches {
            acc += b.num_rows();
            in_bounds.push(acc);
        }
        let mut pos = 0;
        for (i, n) in os.iter().enumerate() {
            ensure!(*n <= size, "break-size", "break_stream({size}): output {i} has {n} rows; {:?} from {:?}", os, sizes(batches));
            if *n > 0 {
                let (a, b) = (pos, pos + n);
                ensure!(a / size == (b - 1) / size, "break-straddles", "break_stream({size}): output {i} covers rows {a}..{b}, across a multiple of {size}; {:?} from {:?}", os, sizes(batches));
                ensure!(!in_bounds.iter().any(|x| a < *x && *x < b), "break-combines", "break_stream({size}): output {i} covers rows {a}..{b}, across an input batch boundary; {:?} from {:?}", os, sizes(batches));
            }
            pos += n;
        }
        same("break_stream", size, &out)?;
        if os.len() > batches.iter().filter(|b| b.num_rows() > 0).count() {
            obs.label("break:inserted");
        }

        // StrictBatchSizeStream
        let size = sz(3);
        let out: Vec<RecordBatch> = env
            .block_on(StrictBatchSizeStream::new(src(schema, batches, &after_end), size).take(bound).collect::<Vec<_>>())
            .into_iter()
            .collect::<Result<_, _>>()
            .map_err(|e| Failure::new("chunk-error", format!("StrictBatchSizeStream({size}): {e}")))?;
        strict_sizes("StrictBatchSizeStream", &sizes(&out), size)?;
        if let Some(l) = out.last() {
            ensure!(l.num_rows() > 0, "chunk-size-last", "StrictBatchSizeStream({size}): trailing empty batch (doc: final *partial* batch)");
        }
        same("StrictBatchSizeStream", size, &out)?;
        obs.inner += 4;
        if after_end.load(Ordering::SeqCst) > 0 {
            // not asserted: polling a finished inner stream again is outside the property text (reported)
            obs.label("chunk:inner-polled-after-end");
        }
        Ok(())
    }

    fn check_spill(&self, input: &Input, schema: &SchemaRef, batches: &[RecordBatch], obs: &mut Obs, env: &Env) -> CheckResult {
        let n = batches.len();
        // memory the accumulator will have seen after each write (only used to place the limit)
        let limit = match &input.limit {
            Limit::Zero => 0usize,
            Limit::Never => usize::MAX,
            Limit::Bytes(b) => *b as usize,
            Limit::SpillAt(f) => {
                if n == 0 {
                    0
                } else {
                    let j = idx(*f, n);
                    let mut acc = lance_arrow::memory::MemoryAccumulator::default();
                    for b in &batches[..=j] {
                        acc.record_batch(b);
                    }
                    acc.total().saturating_sub(1)
                }
            }
        };
        let mut ops: Vec<WOp> = vec![];
        let n_written = match &input.end {
            End::Finish => {
                ops.extend((0..n).map(WOp::Write));
                ops.push(WOp::Finish);
                n
            }
            End::Error(f) => {
                let k = idx(*f, n + 1);
                ops.extend((0..k).map(WOp::Write));
                ops.push(WOp::SendError);
                k
            }
        };
        let errors = matches!(input.end, End::Error(_));
        let nops = ops.len();
        let dir = env.fresh_dir();
        let path = dir.join("spill.arrows");
        let (sender, receiver) = create_replay_spill(path.clone(), schema.clone(), limit);

        let mut readers: Vec<Reader> = input
            .readers
            .iter()
            .map(|f| Reader { eligible_after: idx(*f, nops + 1), stream: None, flag: Flag::new(), got: 0, done: false, class: "" })
            .collect();

        let res: Result<(Option<usize>, Vec<&'static str>), Failure> = env.block_on(async {
            let mut sender = Some(sender);
            let mut cur: Option<(WOp, WFut)> = None;
            let wflag = Flag::new();
            let mut ops_done = 0usize;
            // published state according to the model
            let mut published = 0usize;
            let mut finished = false;
            let mut errored = false;
            let mut spilled_at: Option<usize> = None;
            let mut any_inflight_open = false;

            // one step of the writer; true if it still has work
            macro_rules! writer_step {
                () => {{
                    if cur.is_none() && ops_done < nops {
                        let op = ops[ops_done];
                        let mut s = sender.take().expect("sender is home between operations");
                        let fut: WFut = match op {
                            WOp::Write(i) => {
                                let b = batches[i].clone();
                                Box::pin(async move {
                                    let r = s.write(b).await;
                                    (s, r)
                                })
                            }
                            WOp::Finish => Box::pin(async move {
                                let r = s.finish().await;
                                (s, r)
                            }),
                            WOp::SendError => Box::pin(async move {
                                s.send_error(DataFusionError::ResourcesExhausted(ERR_MARK.into()));
                                (s, Ok(()))
                            }),
                        };
                        cur = Some((op, fut));
                    }
                    if let Some((op, fut)) = cur.as_mut() {
                        let op = *op;
                        let waker = futures::task::waker(wflag.clone());
                        let mut cx = Context::from_waker(&waker);
                        match fut.as_mut().poll(&mut cx) {
                            Poll::Ready((s, r)) => {
                                cur = None;
                                sender = Some(s);
                                if let Err(e) = r {
                                    fail!("writer-error", "{op:?} failed: {e}");
                                }
                                ops_done += 1;
                                match op {
                                    WOp::Write(i) => {
                                        published = i + 1;
                                        if spilled_at.is_none() && path.exists() {
                                            spilled_at = Some(i);
                                        }
                                    }
                                    WOp::Finish => finished = true,
                                    WOp::SendError => errored = true,
                                }
                            }
                            Poll::Pending => {
                                if !wflag.wait().await {
                                    fail!("writer-stalled", "{op:?} was not woken within 60 s");
                                }
                            }
                        }
                    }
                    ops_done < nops
                }};
            }

            macro_rules! reader_step {
                ($k:expr) => {{
                    let k: usize = $k;
                    let r = &mut readers[k];
                    if !r.done && ops_done >= r.eligible_after {
                        if r.stream.is_none() {
                            r.class = if errored {
                                "after-error"
                            } else if finished {
                                "after-finish"
                            } else if matches!(cur, Some((WOp::Write(_), _))) {
                                any_inflight_open = true;
                                if published == 0 {
                                    "during-first-write"
                                } else {
                                    "during-write"
                                }
                            } else if published == 0 {
                                "before-first-write"
                            } else {
                                "between-writes"
                            };
                            r.stream = Some(receiver.read());
                        } else {
                            let avail = errored || finished || published > r.got;
                            let waker = futures::task::waker(r.flag.clone());
                            let mut cx = Context::from_waker(&waker);
                            let p = r.stream.as_mut().unwrap().poll_next_unpin(&mut cx);
                            match p {
                                Poll::Pending => {
                                    if avail && !r.flag.wait().await {
                                        fail!("reader-stalled", "reader {k} ({}) has read {} of {published} published batches (finished={finished}, errored={errored}) and was not woken within 60 s", r.class, r.got);
                                    }
                                }
                                Poll::Ready(item) => {
                                    if !avail {
                                        fail!("reader-early", "reader {k} ({}) produced {} although only {published} batches are published and it has read {}", r.class, match &item { None => "end of stream".to_string(), Some(Ok(b)) => format!("a batch of {} rows", b.num_rows()), Some(Err(e)) => format!("error {e}") }, r.got);
                                    }
                                    match item {
                                        Some(Ok(b)) => {
                                            ensure!(r.got < n_written, "reader-extra-batch", "reader {k} ({}) produced batch number {} but only {n_written} were written", r.class, r.got + 1);
                                            ensure!(b == batches[r.got], "reader-batch-mismatch", "reader {k} ({}) batch {}: {} rows, expected {} rows (spilled_at {spilled_at:?}); content differs from what was written", r.class, r.got, b.num_rows(), batches[r.got].num_rows());
                                            r.got += 1;
                                        }
                                        Some(Err(e)) => {
                                            ensure!(errored, "reader-error", "reader {k} ({}) after {} batches: {e}", r.class, r.got);
                                            ensure!(e.to_string().contains(ERR_MARK), "reader-error-text", "reader {k}: error does not carry the sent error: {e}");
                                            r.done = true;
                                        }
                                        None => {
                                            ensure!(!errored, "reader-missed-error", "reader {k} ({}) ended after {} batches without the sent error", r.class, r.got);
                                            ensure!(r.got == n_written, "reader-short", "reader {k} ({}) ended after {} of {n_written} batches (spilled_at {spilled_at:?})", r.class, r.got);
                                            r.done = true;
                                        }
                                    }
                                }
                            }
                        }
                    }
                }};
            }

            for a in &input.schedule {
                let a = *a as usize;
                if a == 0 {
                    let _ = writer_step!();
                } else if a <= readers.len() {
                    reader_step!(a - 1);
                }
                tokio::task::yield_now().await;
            }
            // drain: writer first, then every reader to its end
            let mut guard = 0;
            while writer_step!() {
                guard += 1;
                ensure!(guard < 100_000, "writer-stalled", "writer does not finish");
                tokio::task::yield_now().await;
            }
            for k in 0..readers.len() {
                let mut guard = 0;
                while !readers[k].done {
                    reader_step!(k);
                    guard += 1;
                    ensure!(guard < 100_000, "reader-stalled", "reader {k} does not finish");
                    if guard % 64 == 0 {
                        tokio::task::yield_now().await;
                    }
                }
            }
            // after an error the sender refuses further work (clean errors)
            if errors {
                let mut s = sender.take().unwrap();
                if n > 0 {
                    ensure!(s.write(batches[0].clone()).await.is_err(), "write-after-error", "write after send_error succeeded");
                }
                ensure!(s.finish().await.is_err(), "finish-after-error", "finish after send_error succeeded");
                sender = Some(s);
            }
            let _ = any_inflight_open;
            // the sender must outlive the readers (documented); drop it only now
            drop(sender);
            Ok((spilled_at, readers.iter().map(|r| r.class).collect::<Vec<_>>()))
        });
        let exists = path.exists();
        let _ = std::fs::remove_dir_all(&dir);
        let (spilled_at, classes) = res?;

        ensure!(!(matches!(input.limit, Limit::Never) && exists), "spill-despite-no-limit", "a spill file was created although the limit is usize::MAX");
        ensure!(spilled_at.is_some() == exists || errors, "harness-spill-detect", "spill detection inconsistent");
        obs.inner += classes.len() as u64;
        for c in &classes {
            obs.label(format!("reader:{c}"));
        }
        obs.label(if errors { "end:error" } else { "end:finish" });
        let sp = match spilled_at {
            None => "none".to_string(),
            Some(0) => "first".to_string(),
            Some(i) if i + 1 == n_written => "last".to_string(),
            Some(_) => "mid".to_string(),
        };
        obs.label(format!("spill:{sp}"));
        if input.batches.iter().any(|b| b.pad.is_some()) {
            obs.label("data:sliced");
        }
        if input.cols.len() > 8 {
            obs.label("data:wide");
        }
        let mid = classes.iter().any(|c| matches!(*c, "during-write" | "during-first-write" | "between-writes"));
        if spilled_at.is_some() && mid {
            let mut cs = classes.clone();
            cs.sort_unstable();
            obs.label("nontrivial");
            obs.nontrivial(format!("sp:{sp}|{cs:?}|{}|n{}|c{}", if errors { "err" } else { "fin" }, n_written.min(6), input.cols.len().min(5)));
        }
        Ok(())
    }
}

fn col_strategy() -> impl Strategy<Value = Col> {
    prop_oneof![
        Just(Col::I32),
        Just(Col::I64N),
        Just(Col::Utf8N),
        Just(Col::F64),
        Just(Col::BoolN),
        Just(Col::ListI32),
        Just(Col::Fsl4),
        Just(Col::Struct),
    ]
}

fn chunk_size() -> impl Strategy<Value = u32> {
    prop_oneof![3 => 1u32..8, 3 => 8u32..64, 3 => 64u32..400, 1 => 400u32..5000]
}

impl Property for C41 {
    type Input = Input;
    fn id(&self) -> &'static str {
        "C41"
    }
    fn rule(&self) -> String {
        "0-20 generated batches (0-200 rows, 1-4 columns of 8 kinds incl. nested/nullable, 10% 30 columns wide, 30% built as slices of larger batches) are written through a replay spill whose memory limit is 0, usize::MAX, a raw byte count, or placed so that a chosen write is the first to exceed it; the writer ends with finish() or with send_error() after a generated number of writes. 1-4 readers become eligible to open once the writer completed a generated number of operations. Writer and readers are advanced one suspension point at a time from a generated schedule (own wakers; an actor that is Pending on a blocking file operation is waited for, a reader Pending on the watch channel is not), then everything is drained. Oracle: the published-batches model - a reader never yields before the batch is published, yields exactly the written batches in order and then the end (or, after send_error, a prefix and then the sent error). The same batches go through chunk_stream / chunk_concat_stream / break_stream / StrictBatchSizeStream with generated sizes (exact size except last, <= size and no straddling for break_stream, concatenation == input, schema kept). Non-trivial = the spill file was created and >=1 reader opened while the writer was between its first and last operation; distinct by (spill position, reader opening classes, end kind, #written, #cols).".into()
    }
    fn assumptions(&self) -> Vec<String> {
        vec![
            "chunk sizes are >= 1 (0 is meaningless: break_stream divides by it)".into(),
            "the SpillSender is kept alive until all readers are done (documented requirement)".into(),
            "after send_error a reader is only required to yield a prefix of the written batches followed by the error (the in-tree test shows the error pre-empts unread batches)".into(),
            "the chunkers' input stream tolerates being polled again after it returned None (every chunker does that; reported, not asserted)".into(),
        ]
    }
    fn cases(&self, tier: Tier) -> u32 {
        tier.pick(2_000, 40_000)
    }
    fn strategy(&self, _tier: Tier) -> BoxedStrategy<Input> {
        let cols = prop_oneof![
            9 => prop::collection::vec(col_strategy(), 1..5),
            1 => prop::collection::vec(col_strategy(), 30..31),
        ];
        let batch = (
            prop_oneof![2 => Just(0u16), 6 => 1u16..40, 3 => 40u16..=200],
            prop_oneof![7 => Just(None), 3 => (0u8..20, 0u8..20).prop_map(Some)],
        )
            .prop_map(|(rows, pad)| BatchSpec { rows, pad });
        let limit = prop_oneof![
            2 => Just(Limit::Zero),
            1 => Just(Limit::Never),
            6 => any::<u16>().prop_map(Limit::SpillAt),
            1 => (0u32..200_000).prop_map(Limit::Bytes),
        ];
        let end = prop_oneof![3 => Just(End::Finish), 1 => any::<u16>().prop_map(End::Error)];
        let schedule = prop::collection::vec(prop_oneof![4 => Just(0u8), 6 => 1u8..=4], 0..220);
        (
            cols,
            any::<u32>(),
            prop::collection::vec(batch, 0..=20),
            limit,
            end,
            prop::collection::vec(prop_oneof![2 => Just(0u16), 6 => any::<u16>(), 1 => Just(65535u16)], 1..=4),
            schedule,
            [chunk_size(), chunk_size(), chunk_size(), chunk_size()],
        )
            .prop_map(|(cols, salt, batches, limit, end, readers, schedule, chunk)| Input { cols, salt, batches, limit, end, readers, schedule, chunk })
            .boxed()
    }

    fn check(&self, input: &Input, obs: &mut Obs, env: &Env) -> CheckResult {
        let (schema, batches) = build(input);
        self.check_spill(input, &schema, &batches, obs, env)?;
        self.check_chunkers(input, &schema, &batches, obs, env)?;
        Ok(())
    }
}
