//! C42 — A copied table root is a complete, identical table.
//!
//! A generated history builds a table (on the controlled in-memory store, or for a minority of cases in a
//! directory of the local file system through lance's own local store).  Every object under the table root is
//! then copied byte for byte to another root, the original root is deleted, and the copy is opened in a fresh
//! session.  The copy must list the same versions, read at every version exactly what the original read (and
//! what the model says), resolve the same tags, answer indexed queries and take_rows identically and pass
//! validate(); no manifest, index or transaction file may mention the original root.

use super::c08::{apply_step, manifest_version};
use super::hist::*;
use crate::engine::*;
use crate::model::*;
use crate::store::VStore;
use crate::world::*;
use arrow_array::{RecordBatch, RecordBatchIterator, UInt64Array};
use futures::TryStreamExt;
use lance::dataset::builder::DatasetBuilder;
use lance::dataset::{ProjectionRequest, WriteMode};
use lance::session::Session;
use lance::Dataset;
use lance_index::DatasetIndexExt;
use proptest::prelude::*;
use serde::{Deserialize, Serialize};
use std::collections::{BTreeMap, BTreeSet};
use std::path::{Path as FsPath, PathBuf};
use std::sync::Arc;

pub struct C42;

/// root names that cannot occur in a file by accident
pub const ORIG: &str = "orig_tbl_7f3a";
pub const COPY: &str = "copy_tbl_c42";

#[derive(Clone, Debug, PartialEq, Eq, Serialize, Deserialize)]
pub struct Input {
    pub hist: HistInput,
    /// build the table in a local directory (lance's local object store) instead of the in-memory store
    pub local: bool,
    pub probes: Vec<u16>,
    /// rows fetched through take_rows (fractions of the latest version's rows)
    pub takes: Vec<u16>,
    /// three ops inserted at generated positions so that most histories have an index, a deletion file and a tag
    pub forced: Forced,
}

#[derive(Clone, Debug, PartialEq, Eq, Serialize, Deserialize)]
pub struct Forced {
    pub index_at: u16,
    pub index_col: u8,
    pub index_kind: u8,
    pub delete_at: u16,
    /// the row to delete (fraction of the rows with uid < 40 at that point)
    pub delete_row: u16,
    pub tag_at: u16,
    pub tag_name: u8,
    pub tag_v: u16,
}

fn op_tag() -> impl Strategy<Value = Op> {
    (prop_oneof![5 => Just(0u8), 1 => Just(1u8), 1 => Just(2u8)], 0u8..3, any::<u16>()).prop_map(|(action, name, v)| Op::Tag { action, name, v })
}

fn op_mix() -> BoxedStrategy<Op> {
    prop_oneof![
        4 => op_append(),
        5 => op_delete(),
        3 => op_update(),
        1 => op_merge(),
        1 => op_overwrite(),
        3 => op_compact(),
        2 => op_compact_tasks(),
        4 => op_create_index(),
        1 => (0u8..3).prop_map(|mode| Op::OptimizeIndices { mode }),
        1 => any::<u8>().prop_map(|which| Op::DropIndex { which }),
        3 => op_schema(),
        2 => any::<u16>().prop_map(|v| Op::Restore { v }),
        4 => op_tag(),
        1 => (0u8..3, prop::option::of(0u8..3)).prop_map(|(key, val)| Op::UpdateConfig { key, val }),
        1 => Just(Op::Reopen),
    ]
    .boxed()
}

// ---------------------------------------------------------------------------
// what is recorded on the original before it is deleted

#[derive(Debug, Clone, PartialEq)]
struct VersionView {
    /// rows in physical scan order
    rows: Vec<Row>,
    /// (index name, uuid, fragment bitmap) sorted
    indices: Vec<(String, String, Option<Vec<u32>>)>,
    deleted_rows: usize,
    fragments: Vec<u64>,
}

#[derive(Debug, Clone, PartialEq)]
struct TableView {
    /// (version, timestamp as RFC 3339)
    versions: Vec<(u64, String)>,
    tags: BTreeMap<String, u64>,
    per_version: BTreeMap<u64, VersionView>,
    /// latest version: uid and row id of every row in scan order
    rowids: Vec<(i64, u64)>,
    /// versions whose indexed-column query panel disagrees (index vs no index vs model) and how
    panel_failures: BTreeMap<u64, (String, String)>,
}

async fn view_version(ds: &Dataset, schema: &TableSchema, what: &str) -> Result<VersionView, Failure> {
    let rows = scan_rows(ds, schema, true).await.map_err(|m| Failure::new("scan-error", format!("{what}: {m}")))?;
    let mut indices: Vec<(String, String, Option<Vec<u32>>)> = ds
        .load_indices()
        .await
        .map_err(|e| Failure::new("load-indices-error", format!("{what}: {e}")))?
        .iter()
        .map(|i| (i.name.clone(), i.uuid.to_string(), i.fragment_bitmap.as_ref().map(|b| b.iter().collect())))
        .collect();
    indices.sort();
    let deleted_rows = ds.count_deleted_rows().await.map_err(|e| Failure::new("count-deleted-error", format!("{what}: {e}")))?;
    let fragments = ds.manifest().fragments.iter().map(|f| f.id).collect();
    Ok(VersionView { rows, indices, deleted_rows, fragments })
}

async fn uid_rowids(ds: &Dataset) -> Result<Vec<(i64, u64)>, String> {
    let mut sc = ds.scan();
    sc.project(&[UID]).map_err(|e| e.to_string())?;
    sc.scan_in_order(true);
    sc.with_row_id();
    let batches: Vec<RecordBatch> = sc.try_into_stream().await.map_err(|e| e.to_string())?.try_collect().await.map_err(|e| e.to_string())?;
    let mut out = vec![];
    for b in &batches {
        let u = b.column_by_name(UID).and_then(|c| c.as_any().downcast_ref::<arrow_array::Int64Array>().cloned()).ok_or("no uid column")?;
        let r = b.column_by_name("_rowid").and_then(|c| c.as_any().downcast_ref::<UInt64Array>().cloned()).ok_or("no _rowid column")?;
        for i in 0..b.num_rows() {
            out.push((u.value(i), r.value(i)));
        }
    }
    Ok(out)
}

async fn open_at(w: &World, uri: &str, version: Option<u64>) -> Result<Dataset, String> {
    let mut b = DatasetBuilder::from_uri(uri).with_session(new_session(&w.store)).with_commit_handler(w.handler.clone());
    if let Some(v) = version {
        b = b.with_version(v);
    }
    b.load().await.map_err(|e| e.to_string())
}

/// the whole observable table at `uri`, versions taken from the model
async fn view_table(w: &World, uri: &str, whose: &str, probes: &[u16], obs: &mut Obs) -> Result<TableView, Failure> {
    let head = open_at(w, uri, None).await.map_err(|m| Failure::new(format!("{whose}-open-error"), format!("{uri}: {m}")))?;
    let versions: Vec<(u64, String)> = head.versions().await.map_err(|e| Failure::new(format!("{whose}-versions-error"), format!("{e}")))?.into_iter().map(|v| (v.version, v.timestamp.to_rfc3339_opts(chrono::SecondsFormat::Nanos, true))).collect();
    let tags: BTreeMap<String, u64> = head.tags().list().await.map_err(|e| Failure::new(format!("{whose}-tags-error"), format!("{e}")))?.into_iter().map(|(k, t)| (k, t.version)).collect();
    let mut per_version = BTreeMap::new();
    let mut panel_failures = BTreeMap::new();
    for (k, (v, st)) in w.versions.iter().enumerate() {
        // alternate between a brand-new session per version and checkout from the head handle
        let d = if k % 2 == 0 { open_at(w, uri, Some(*v)).await } else { head.checkout_version(*v).await.map_err(|e| e.to_string()) };
        let d = d.map_err(|m| Failure::new(format!("{whose}-version-open-error"), format!("{uri}: version {v}: {m}")))?;
        per_version.insert(*v, view_version(&d, &st.schema, &format!("{whose} version {v}")).await.map_err(|f| Failure::new(format!("{whose}-{}", f.kind), f.msg))?);
        if let Err(f) = check_indexed_queries(&d, st, probes, false, obs, "") .await {
            panel_failures.insert(*v, (f.kind, f.msg));
        }
    }
    let rowids = uid_rowids(&head).await.map_err(|m| Failure::new(format!("{whose}-rowid-scan-error"), m))?;
    Ok(TableView { versions, tags, per_version, rowids, panel_failures })
}

// ---------------------------------------------------------------------------
// local file system plumbing

struct DirGuard(PathBuf);
impl Drop for DirGuard {
    fn drop(&mut self) {
        let _ = std::fs::remove_dir_all(&self.0);
    }
}

fn copy_dir(from: &FsPath, to: &FsPath) -> std::io::Result<u64> {
    let mut n = 0;
    std::fs::create_dir_all(to)?;
    for e in std::fs::read_dir(from)? {
        let e = e?;
        let ty = e.file_type()?;
        let dst = to.join(e.file_name());
        if ty.is_dir() {
            n += copy_dir(&e.path(), &dst)?;
        } else {
            std::fs::copy(e.path(), &dst)?;
            n += 1;
        }
    }
    Ok(n)
}

fn list_files(root: &FsPath, rel: &str, out: &mut BTreeMap<String, Vec<u8>>) -> std::io::Result<()> {
    for e in std::fs::read_dir(root)? {
        let e = e?;
        let name = e.file_name().to_string_lossy().to_string();
        let r = if rel.is_empty() { name.clone() } else { format!("{rel}/{name}") };
        if e.file_type()?.is_dir() {
            list_files(&e.path(), &r, out)?;
        } else {
            out.insert(r, std::fs::read(e.path())?);
        }
    }
    Ok(())
}

/// World::create for a table in a local directory (same parameters, lance's local object store)
async fn create_local(dir: &FsPath, cfg: &TableCfg, initial: &[RowSeed], max_rows_per_file: usize) -> Result<World, String> {
    let store = VStore::new(); // unused by a local table; its registry still resolves plain paths to the local store
    let session: Arc<Session> = new_session(&store);
    let handler = handler_of(cfg.handler);
    let schema = World::schema_of_cfg(cfg);
    let rows: Vec<Row> = initial.iter().enumerate().map(|(i, s)| row_from_seed(&schema, i as i64, s)).collect();
    let uri = dir.to_string_lossy().to_string();
    let arrow = Arc::new(schema.arrow());
    let batches = batches_of(&schema, &rows, &[]);
    let reader = RecordBatchIterator::new(batches.into_iter().map(Ok), arrow);
    let params = mk_write_params(&handler, cfg, &session, WriteMode::Create, max_rows_per_file);
    let ds = Dataset::write(reader, &uri, Some(params)).await.map_err(|e| e.to_string())?;
    let v = ds.version().version;
    let mut w = World {
        store,
        session,
        handler,
        uri,
        cfg: cfg.clone(),
        ds,
        versions: BTreeMap::new(),
        latest: v,
        next_uid: rows.len() as i64,
        tags: BTreeMap::new(),
        col_counter: cfg.cols.len() as u32 + 1,
        history: vec!["create".into()],
        rebased_commits: 0,
        index_nullable_cols: false,
        allow_nonnull_add_race: false,
        merge_null_keys: false,
        known: crate::engine::ACTIVE_KNOWN.with(|k| k.borrow().clone()),
        merge_on_uid_only: false,
        last_effect: None,
        dropped_names: vec![],
        stale_indexed_cols: BTreeSet::new(),
        deferred_remap_pending: false,
        last_cast: BTreeMap::new(),
    };
    w.versions.insert(v, VersionState { schema, rows, ordered: true, config: BTreeMap::new(), indices: BTreeMap::new() });
    Ok(w)
}

fn contains(hay: &[u8], needle: &[u8]) -> bool {
    hay.windows(needle.len()).any(|w| w == needle)
}

// ---------------------------------------------------------------------------

pub async fn run(input: &Input, obs: &mut Obs, env: &Env) -> CheckResult {
    let h = &input.hist;
    let mut guard: Option<DirGuard> = None;
    let created = if input.local {
        let base = env.fresh_dir();
        guard = Some(DirGuard(base.clone()));
        create_local(&base.join(ORIG), &h.cfg, &h.initial, h.init_file_rows as usize).await
    } else {
        World::create(VStore::new(), ORIG, &h.cfg, &h.initial, h.init_file_rows as usize).await
    };
    let mut w = match created {
        Ok(w) => w,
        Err(m) => {
            obs.rejected += 1;
            obs.label(format!("create-rejected:{}", truncate_str(&m, 50)));
            return Ok(());
        }
    };
    obs.label(if input.local { "where:local-directory" } else { "where:in-memory-store" });
    // the generated steps plus the three forced ops, each placed before the step at its position
    let n = h.steps.len();
    let f = &input.forced;
    let mut items: Vec<(usize, u8, Option<&Step>)> = h.steps.iter().enumerate().map(|(i, s)| (i, 3u8, Some(s))).collect();
    items.push((idx(f.index_at, n + 1), 0, None));
    items.push((idx(f.delete_at, n + 1), 1, None));
    items.push((idx(f.tag_at, n + 1), 2, None));
    items.sort_by_key(|(pos, ord, _)| (*pos, *ord));
    let mut kinds: Vec<String> = vec![];
    for (i, (_, ord, step)) in items.iter().enumerate() {
        let forced_step;
        let step: &Step = match (ord, step) {
            (_, Some(s)) => s,
            (0, _) => {
                forced_step = Step { op: Op::CreateIndex { col: f.index_col, kind: f.index_kind, replace: false }, stale: None };
                &forced_step
            }
            (1, _) => {
                let st = w.state();
                let cands: Vec<i64> = st.rows.iter().map(|r| r.uid).filter(|u| (0..40).contains(u)).collect();
                if cands.is_empty() {
                    continue;
                }
                let uid = cands[idx(f.delete_row, cands.len())];
                // column index ncols selects uid; op 0 is '='
                forced_step = Step { op: Op::Delete { pred: RawPred::Cmp { col: st.schema.cols.len() as u8, op: 0, lit: uid as u16 } }, stale: None };
                &forced_step
            }
            _ => {
                forced_step = Step { op: Op::Tag { action: 0, name: f.tag_name, v: f.tag_v }, stale: None };
                &forced_step
            }
        };
        kinds.push(format!("{}{}{}", if *ord < 3 { "+" } else { "" }, step.op.kind(), if step.stale.is_some() { "*" } else { "" }));
        apply_step(&mut w, step, obs, &format!("step {i}")).await?;
        if std::env::var("VERIF_C42_DEBUG").is_ok() {
            for (v, st) in &w.versions {
                let d = open_at(&w, &w.uri, Some(*v)).await.map_err(|m| Failure::new("debug", m))?;
                let r = check_indexed_queries(&d, st, &input.probes, false, &mut Obs::default(), "").await;
                let idx: Vec<(String, String, Option<Vec<u32>>)> = d.load_indices().await.unwrap().iter().map(|i| (i.name.clone(), i.uuid.to_string()[..8].to_string(), i.fragment_bitmap.as_ref().map(|b| b.iter().collect()))).collect();
                eprintln!("[c42] after step {i} ({}): v{v} frags {:?} indices {:?} panel {:?}", step.op.kind(), d.manifest().fragments.iter().map(|f| f.id).collect::<Vec<_>>(), idx, r.err().map(|f| f.msg));
            }
        }
    }
    let orig_uri = w.uri.clone();
    // ---- what the original reads ----
    let orig = view_table(&w, &orig_uri, "original", &input.probes, obs).await?;
    if !orig.panel_failures.is_empty() {
        // not this property's business (the copy is only required to answer like the original), but worth seeing
        obs.label("original-index-panel-disagrees");
        if std::env::var("VERIF_C42_DEBUG").is_ok() {
            eprintln!("[c42] original panel failures: {:?}", orig.panel_failures);
        }
    }
    // the original itself must agree with the model (otherwise the comparison below proves nothing)
    for (v, st) in &w.versions {
        let got = &orig.per_version[v].rows;
        let same = if st.ordered { got == &st.rows } else { sorted(got.clone()) == sorted(st.rows.clone()) };
        if !same {
            return Err(Failure::new("original-vs-model", format!("original version {v}: {}", diff_rows(got, &st.rows))));
        }
    }
    // ---- copy every object, remove the original ----
    let copy_uri: String;
    let copied: BTreeMap<String, Vec<u8>>;
    if input.local {
        let base = guard.as_ref().unwrap().0.clone();
        let n = copy_dir(&base.join(ORIG), &base.join(COPY)).map_err(|e| Failure::new("harness:copy", format!("{e}")))?;
        std::fs::remove_dir_all(base.join(ORIG)).map_err(|e| Failure::new("harness:remove-original", format!("{e}")))?;
        obs.label(format!("files-{}", if n < 20 { "<20" } else if n < 60 { "20-59" } else { ">=60" }));
        copy_uri = base.join(COPY).to_string_lossy().to_string();
        let mut m = BTreeMap::new();
        list_files(&base.join(COPY), "", &mut m).map_err(|e| Failure::new("harness:list-copy", format!("{e}")))?;
        copied = m;
    } else {
        let before = w.store.dump();
        w.store.copy_prefix(&format!("{ORIG}/"), &format!("{COPY}/"));
        w.store.delete_prefix(&format!("{ORIG}/"));
        let after = w.store.dump();
        if after.keys().any(|p| p.starts_with(&format!("{ORIG}/"))) {
            return Err(Failure::new("harness:remove-original", "objects of the original survive delete_prefix".to_string()));
        }
        let prefix = format!("{COPY}/");
        copied = after.iter().filter_map(|(p, b)| p.strip_prefix(&prefix).map(|r| (r.to_string(), b.to_vec()))).collect();
        // byte-for-byte
        for (p, b) in &before {
            let r = p.strip_prefix(&format!("{ORIG}/")).ok_or_else(|| Failure::new("harness:foreign-object", p.clone()))?;
            if copied.get(r).map(|c| c.as_slice()) != Some(b.as_ref()) {
                return Err(Failure::new("harness:copy", format!("{r} differs in the copy")));
            }
        }
        copy_uri = crate::store::uri(COPY);
        let n = copied.len();
        obs.label(format!("files-{}", if n < 20 { "<20" } else if n < 60 { "20-59" } else { ">=60" }));
    }
    // ---- structural witness: relative paths only ----
    for (p, bytes) in &copied {
        let meta = p.starts_with("_versions/") || p.starts_with("_indices/") || p.starts_with("_transactions/") || p.starts_with("_refs/");
        if meta && contains(bytes, ORIG.as_bytes()) {
            return Err(Failure::new("original-root-in-metadata", format!("{p} of the copy contains the original root name {ORIG:?}")));
        }
    }
    obs.inner += copied.len() as u64;
    // ---- the copy ----
    let copy = view_table(&w, &copy_uri, "copy", &input.probes, obs).await?;
    // indexed queries: the copy answers exactly like the original did (also where the original itself is wrong)
    if copy.panel_failures != orig.panel_failures {
        let v = copy.panel_failures.keys().chain(orig.panel_failures.keys()).find(|v| copy.panel_failures.get(v) != orig.panel_failures.get(v)).copied().unwrap();
        return Err(Failure::new("indexed-queries-differ", format!("version {v}: indexed-column query panel on the copy: {:?}; on the original: {:?}", copy.panel_failures.get(&v), orig.panel_failures.get(&v))));
    }
    let model_versions: Vec<u64> = w.versions.keys().copied().collect();
    let copy_versions: Vec<u64> = copy.versions.iter().map(|v| v.0).collect();
    ensure!(copy_versions == model_versions, "versions-differ-from-model", "copy lists versions {:?}, the history created {:?}", copy_versions, model_versions);
    ensure!(copy.versions == orig.versions, "versions-differ", "copy lists versions {:?}, the original listed {:?}", copy.versions, orig.versions);
    ensure!(copy.tags == orig.tags, "tags-differ", "copy resolves tags {:?}, the original {:?}", copy.tags, orig.tags);
    ensure!(copy.tags == w.tags, "tags-differ-from-model", "copy resolves tags {:?}, the model {:?}", copy.tags, w.tags);
    for (v, st) in &w.versions {
        let (c, o) = (&copy.per_version[v], &orig.per_version[v]);
        if c.rows != o.rows {
            return Err(Failure::new("version-reads-differently", format!("version {v}: copy vs original: {}", diff_rows(&c.rows, &o.rows))));
        }
        ensure!(c.indices == o.indices, "index-list-differs", "version {v}: copy has indices {:?}, the original {:?}", c.indices, o.indices);
        ensure!(c.deleted_rows == o.deleted_rows && c.fragments == o.fragments, "fragments-differ", "version {v}: copy has fragments {:?} with {} deleted rows, the original {:?} with {}", c.fragments, c.deleted_rows, o.fragments, o.deleted_rows);
        // against the model, with validate() and the index panels, in a brand-new session
        let d = open_at(&w, &copy_uri, Some(*v)).await.map_err(|m| Failure::new("copy-version-open-error", format!("version {v}: {m}")))?;
        verify_state(&d, st, &format!("copy, version {v}")).await.map_err(|f| Failure::new(format!("copy:{}", f.kind), f.msg))?;
        d.validate().await.map_err(|e| Failure::new("copy:validate-error", format!("version {v}: {e}")))?;
        obs.inner += 1;
    }
    // tags check out to the tagged version's contents
    let head = open_at(&w, &copy_uri, None).await.map_err(|m| Failure::new("copy-open-error", m))?;
    for (name, v) in &w.tags {
        let d = head.checkout_version(name.as_str()).await.map_err(|e| Failure::new("copy:tag-checkout-error", format!("tag {name}: {e}")))?;
        ensure!(d.version().version == *v, "copy:tag-resolves-elsewhere", "tag {name} checks out version {}, expected {v}", d.version().version);
        verify_state(&d, &w.versions[v], &format!("copy, tag {name} -> version {v}")).await.map_err(|f| Failure::new(format!("copy:tag:{}", f.kind), f.msg))?;
    }
    // take_rows with the row ids the original reported
    ensure!(copy.rowids == orig.rowids, "rowids-differ", "latest version: copy reports (uid, row id) {:?}, the original {:?}", copy.rowids, orig.rowids);
    let st = w.state().clone();
    if !orig.rowids.is_empty() && !input.takes.is_empty() {
        let picks: Vec<(i64, u64)> = input.takes.iter().map(|f| orig.rowids[idx(*f, orig.rowids.len())]).collect();
        let ids: Vec<u64> = picks.iter().map(|p| p.1).collect();
        let mut cols: Vec<String> = vec![UID.to_string()];
        cols.extend(st.schema.cols.iter().map(|c| c.name.clone()));
        let b = head.take_rows(&ids, ProjectionRequest::from_columns(cols.iter().map(|s| s.as_str()), head.schema())).await.map_err(|e| Failure::new("copy:take-rows-error", format!("take_rows({ids:?}): {e}")))?;
        let got = batches_to_rows(&[b], &st.schema.names()).map_err(|m| Failure::new("copy:take-decode", m))?;
        let want: Vec<Row> = picks.iter().map(|(u, _)| st.rows.iter().find(|r| r.uid == *u).cloned()).collect::<Option<Vec<_>>>().ok_or_else(|| Failure::new("harness:uid-unknown", "the original reported a uid the model does not have".to_string()))?;
        if got != want {
            return Err(Failure::new("copy:take-rows-mismatch", format!("take_rows({ids:?}) on the copy returned {got:?}, expected {want:?}")));
        }
        obs.inner += 1;
    }
    // ---- classification ----
    let has_index = w.versions.values().any(|s| !s.indices.is_empty());
    let has_deletion_file = copied.keys().any(|p| p.starts_with("_deletions/"));
    let has_tag = !w.tags.is_empty();
    let manifests = copied.keys().filter(|p| manifest_version(p).is_some()).count();
    obs.label(format!("versions-{}", manifests.min(12)));
    for (c, l) in [(has_index, "has-index"), (has_deletion_file, "has-deletion-file"), (has_tag, "has-tag")] {
        if c {
            obs.label(l);
        }
    }
    if w.history.iter().any(|k| k == "restore") {
        obs.label("has-restore");
    }
    if w.history.iter().any(|k| k == "compact") {
        obs.label("has-compaction");
    }
    if copied.keys().any(|p| p.starts_with("_indices/")) {
        obs.label("has-index-files");
    }
    if has_index && has_deletion_file && has_tag {
        obs.nontrivial(format!("{}|{}|{}{}{}", if input.local { "local" } else { "mem" }, kinds.join(","), if h.cfg.stable_row_ids { "S" } else { "-" }, if h.cfg.v2_manifest { "2" } else { "1" }, h.cfg.handler % 2));
    }
    drop(guard);
    Ok(())
}

impl Property for C42 {
    type Input = Input;
    fn id(&self) -> &'static str {
        "C42"
    }
    fn rule(&self) -> String {
        "Histories of 4-13 generated ops plus three ops forced in at generated positions (create index, delete of one existing row, create tag) (append, delete, update, merge_insert, overwrite, compaction incl. task-wise and deferred index remap, BTree/Bitmap index create/replace/drop/optimize, add/drop/alter/join column, restore, tags create/update/delete, config, reopen; 6% on stale handles) on a table with storage 2.0-2.2, stable row ids on/off, V1/V2 manifest names, both commit handlers; no branches, clones or extra base paths. 75% of the cases live on the controlled in-memory store under root orig_tbl_7f3a (copy = byte-for-byte copy of every object to root copy_tbl_c42, checked, then every original object deleted); 25% live in a directory of the local file system written through lance's local object store (copy = recursive std::fs copy, original directory removed). Before the copy the original is read completely (versions(), tags, per version: ordered scan, index list with uuids and fragment bitmaps, deleted-row count, fragment ids; (uid, row id) of the latest version) and compared with the model. The copy, opened in fresh sessions at the new location, must list the same versions (numbers and timestamps), resolve the same tags (also by checkout through the tag name), read at every version the same ordered rows / index list / fragments as the original and the model's state, pass validate(), answer the indexed-column query panels (with index / without index / model) exactly as the original did, report the same row ids and return the model's rows for take_rows on generated picks; no object under _versions, _indices, _transactions or _refs may contain the original root's name. Non-trivial = the history has >=1 index, >=1 deletion file and >=1 tag; distinct by location kind, op-kind sequence and table flags.".into()
    }
    fn assumptions(&self) -> Vec<String> {
        vec![
            "tables whose versions use no base path other than the root (no branches, shallow clones, external base paths), as the property states".into(),
            "the copy is opened with the same commit handler as the original".into(),
            "predicates hitting C16-simplifier-null-tautology and optimize_indices after an indexed update under stable row ids (C19-stale-index-after-update-stable-rowids) are skipped; create_index is not run on stale handles and eager compactions are skipped while a fragment-reuse index exists (see C08)".into(),
        ]
    }
    fn cases(&self, tier: Tier) -> u32 {
        tier.pick(300, 6000)
    }
    fn max_shrink_iters(&self) -> u32 {
        150
    }
    fn strategy(&self, _tier: Tier) -> BoxedStrategy<Input> {
        (
            table_cfg(COMMON_TYPES, V2_STORAGES),
            prop::collection::vec(row_seed(), 1..16),
            prop_oneof![Just(3u16), Just(6)],
            prop::collection::vec(step_of(op_mix(), 6), 4..14),
            prop::bool::weighted(0.25),
            prop::collection::vec(0u16..40, 2..4),
            prop::collection::vec(any::<u16>(), 1..6),
            (any::<u16>(), any::<u8>(), 0u8..2, any::<u16>(), any::<u16>(), any::<u16>(), 0u8..3, any::<u16>()),
        )
            .prop_map(|(mut cfg, initial, init_file_rows, steps, local, probes, takes, f)| {
                // scalar indices are only built on non-nullable columns outside C19: make sure there is one
                cfg.cols[0].1 = false;
                let forced = Forced { index_at: f.0, index_col: f.1, index_kind: f.2, delete_at: f.3, delete_row: f.4, tag_at: f.5, tag_name: f.6, tag_v: f.7 };
                Input { hist: HistInput { cfg, initial, init_file_rows, steps }, local, probes, takes, forced }
            })
            .boxed()
    }
    fn check(&self, input: &Input, obs: &mut Obs, env: &Env) -> CheckResult {
        env.block_on(run(input, obs, env))
    }
}
