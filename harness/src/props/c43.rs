//! C43 — Schema and projection algebra is consistent.
//!
//! Model: the schema is a tree of fields built from the generated spec
//! (independent of lance); every operation is computed as a set operation on
//! model nodes and compared with the ids lance returns.  Attributes of a kept
//! field (name, logical type, nullability, metadata, id) are compared with the
//! base schema; the base schema itself is tied to the spec by the Arrow round
//! trip (ArrowSchema -> Schema -> ArrowSchema is the identity).

use crate::engine::*;
use crate::{ensure, fail};
use arrow_schema::{DataType, Field as ArrowField, Fields as ArrowFields, Schema as ArrowSchema, TimeUnit};
use lance_core::datatypes::{
    escape_field_path_for_project, format_field_path, parse_field_path, Field, FieldRef, OnMissing, OnTypeMismatch, Projection, Schema,
};
use lance_file::datatypes::{Fields as PbFields, FieldsWithMeta};
use proptest::prelude::*;
use serde::{Deserialize, Serialize};
use std::collections::{BTreeMap, BTreeSet, HashMap};
use std::panic::{catch_unwind, AssertUnwindSafe};
use std::sync::Arc;

pub struct C43;

// ---------------------------------------------------------------------------
// input

const POOL: &[&str] = &[
    "a", "A", "b", "B", "ab", "aB", "Ab", "x y", " ", "é", "É", "ß", "日本", "a.b", "A.b", "a.B", ".", "..", ".a", "a.", "`", "a`b", "A`b", "`a`", "`A`", "``", "a``b", "`a.b`", "item", "a.`b`",
    "a b.c", "Ω.ω", "ω", "`a`.`b`", "`a", "a`", "x", "X", "i̇", "İ",
];
const ALPHA: &[char] = &['a', 'A', 'b', '.', '`', ' ', 'é', 'É', '日', '_'];
/// index of the timestamp type whose timezone contains a colon
const PRIM_TZ_COLON: u8 = 17;
const N_PRIMS: u8 = 25;

fn prim_type(p: u8) -> DataType {
    match p % N_PRIMS {
        0 => DataType::Int32,
        1 => DataType::Int64,
        2 => DataType::Utf8,
        3 => DataType::Float32,
        4 => DataType::Boolean,
        5 => DataType::Float64,
        6 => DataType::LargeUtf8,
        7 => DataType::Binary,
        8 => DataType::Date32,
        9 => DataType::Timestamp(TimeUnit::Microsecond, None),
        10 => DataType::Timestamp(TimeUnit::Nanosecond, Some("UTC".into())),
        11 => DataType::Decimal128(10, 2),
        12 => DataType::FixedSizeBinary(4),
        13 => DataType::FixedSizeList(Arc::new(ArrowField::new("item", DataType::Float32, true)), 3),
        14 => DataType::Dictionary(Box::new(DataType::Int32), Box::new(DataType::Utf8)),
        15 => DataType::UInt8,
        16 => DataType::Float16,
        17 => DataType::Timestamp(TimeUnit::Millisecond, Some("+05:30".into())),
        18 => DataType::Time64(TimeUnit::Nanosecond),
        19 => DataType::Duration(TimeUnit::Second),
        20 => DataType::Null,
        21 => DataType::LargeBinary,
        22 => DataType::Date64,
        23 => DataType::Decimal256(20, 4),
        _ => DataType::Timestamp(TimeUnit::Second, Some("America/New_York".into())),
    }
}

#[derive(Clone, Debug, Serialize, Deserialize, PartialEq)]
pub enum NameSpec {
    Pool(u8),
    Chars(Vec<u8>),
}

impl NameSpec {
    fn raw(&self) -> String {
        match self {
            NameSpec::Pool(i) => POOL[*i as usize % POOL.len()].to_string(),
            NameSpec::Chars(cs) => cs.iter().map(|c| ALPHA[*c as usize % ALPHA.len()]).collect(),
        }
    }
}

#[derive(Clone, Debug, Serialize, Deserialize, PartialEq)]
pub enum TSpec {
    Prim(u8),
    Struct(Vec<FSpec>),
    List { large: bool, item: Box<FSpec> },
}

#[derive(Clone, Debug, Serialize, Deserialize, PartialEq)]
pub struct FSpec {
    pub name: NameSpec,
    pub nullable: bool,
    pub meta: u8,
    pub ty: TSpec,
}

#[derive(Clone, Debug, Serialize, Deserialize, PartialEq)]
pub enum IdPlan {
    /// ids assigned by `Schema::try_from(&ArrowSchema)`
    Preorder,
    /// `explicit[i % len]` is the id of the i-th field in pre-order (None or a duplicate = unassigned),
    /// the rest is assigned by `set_field_id(max_existing)`
    Custom { explicit: Vec<Option<u8>>, max_existing: Option<u8> },
}

#[derive(Clone, Debug, Serialize, Deserialize, PartialEq)]
pub struct Pick {
    pub f: u16,
    /// 0 canonical (format_field_path), 1 every segment quoted, 2 plain when no segment needs quoting
    pub style: u8,
}

#[derive(Clone, Debug, Serialize, Deserialize, PartialEq)]
pub struct Sub {
    pub picks: Vec<u16>,
    pub reverse: bool,
}

#[derive(Clone, Debug, Serialize, Deserialize, PartialEq)]
pub enum Pred {
    IdIn(Vec<u16>),
    Leaf,
    Nullable,
    NameHas(u8),
}

#[derive(Clone, Debug, Serialize, Deserialize, PartialEq)]
pub enum PStep {
    UnionColumn(Pick),
    UnionColumns(Vec<Pick>),
    UnionMissing { ignore: bool },
    UnionSchema(Sub),
    SubtractSchema(Sub),
    UnionArrow(Sub),
    SubtractArrow(Sub),
    UnionProj(Vec<Pick>),
    SubtractProj(Vec<Pick>),
    Intersect(Vec<Pick>),
    UnionPred(Pred),
    SubtractPred(Pred),
    RowId,
    RowAddr,
}

#[derive(Clone, Debug, Serialize, Deserialize, PartialEq)]
pub struct Add {
    pub parent: u16,
    pub field: FSpec,
}

#[derive(Clone, Debug, Serialize, Deserialize, PartialEq)]
pub enum Op {
    Project { cols: Vec<Pick>, unknown: Option<u8> },
    ProjectByIds { picks: Vec<u16>, all_children: bool, unknown_id: bool },
    ProjectBySchema { sub: Sub, ignore_missing: bool, take_self: bool, unknown: bool },
    Exclude { sub: Sub },
    Intersection { a: Sub, b: Option<Sub> },
    Merge { sub: Sub, adds: Vec<Add>, retype: Option<u16>, max_existing: Option<u8> },
    Projection { start_full: bool, steps: Vec<PStep> },
}

#[derive(Clone, Debug, Serialize, Deserialize, PartialEq)]
pub struct Input {
    pub fields: Vec<FSpec>,
    pub schema_meta: u8,
    pub ids: IdPlan,
    pub ops: Vec<Op>,
}

// ---------------------------------------------------------------------------
// strategies

fn name_strategy() -> impl Strategy<Value = NameSpec> {
    prop_oneof![
        5 => (0..POOL.len() as u8).prop_map(NameSpec::Pool),
        2 => prop::collection::vec(0..ALPHA.len() as u8, 1..4).prop_map(NameSpec::Chars),
    ]
}

fn prim_strategy() -> impl Strategy<Value = u8> {
    prop_oneof![
        12 => 0u8..6,
        8 => 0u8..N_PRIMS,
    ]
    .prop_map(|p| p)
}

fn fspec_strategy(allow_tz_colon: bool) -> BoxedStrategy<FSpec> {
    let leaf = (name_strategy(), any::<bool>(), 0u8..5, prim_strategy()).prop_map(move |(name, nullable, meta, p)| FSpec {
        name,
        nullable,
        meta,
        ty: TSpec::Prim(if !allow_tz_colon && p == PRIM_TZ_COLON { 9 } else { p }),
    });
    leaf.prop_recursive(3, 16, 4, |inner| {
        prop_oneof![
            4 => (name_strategy(), any::<bool>(), 0u8..5, prop::collection::vec(inner.clone(), 2..4))
                .prop_map(|(name, nullable, meta, ch)| FSpec { name, nullable, meta, ty: TSpec::Struct(ch) }),
            2 => (name_strategy(), any::<bool>(), 0u8..5, any::<bool>(), inner, prop::bool::weighted(0.6))
                .prop_map(|(name, nullable, meta, large, mut item, plain_item)| {
                    if plain_item {
                        item.name = NameSpec::Pool(28); // "item"
                    }
                    FSpec { name, nullable, meta, ty: TSpec::List { large, item: Box::new(item) } }
                }),
        ]
    })
    .boxed()
}

fn pick_strategy() -> impl Strategy<Value = Pick> {
    (any::<u16>(), 0u8..3).prop_map(|(f, style)| Pick { f, style })
}

fn picks(max: usize) -> impl Strategy<Value = Vec<Pick>> {
    prop::collection::vec(pick_strategy(), 1..max)
}

fn sub_strategy() -> impl Strategy<Value = Sub> {
    (prop::collection::vec(any::<u16>(), 1..4), any::<bool>()).prop_map(|(picks, reverse)| Sub { picks, reverse })
}

fn pred_strategy() -> impl Strategy<Value = Pred> {
    prop_oneof![
        3 => prop::collection::vec(any::<u16>(), 1..4).prop_map(Pred::IdIn),
        1 => Just(Pred::Leaf),
        1 => Just(Pred::Nullable),
        1 => (0..ALPHA.len() as u8).prop_map(Pred::NameHas),
    ]
}

fn pstep_strategy() -> impl Strategy<Value = PStep> {
    prop_oneof![
        4 => pick_strategy().prop_map(PStep::UnionColumn),
        2 => picks(4).prop_map(PStep::UnionColumns),
        1 => any::<bool>().prop_map(|ignore| PStep::UnionMissing { ignore }),
        2 => sub_strategy().prop_map(PStep::UnionSchema),
        2 => sub_strategy().prop_map(PStep::SubtractSchema),
        2 => sub_strategy().prop_map(PStep::UnionArrow),
        2 => sub_strategy().prop_map(PStep::SubtractArrow),
        2 => picks(3).prop_map(PStep::UnionProj),
        2 => picks(3).prop_map(PStep::SubtractProj),
        2 => picks(4).prop_map(PStep::Intersect),
        1 => pred_strategy().prop_map(PStep::UnionPred),
        2 => pred_strategy().prop_map(PStep::SubtractPred),
        1 => Just(PStep::RowId),
        1 => Just(PStep::RowAddr),
    ]
}

fn op_strategy() -> impl Strategy<Value = Op> {
    prop_oneof![
        4 => (picks(4), prop::option::weighted(0.1, any::<u8>())).prop_map(|(cols, unknown)| Op::Project { cols, unknown }),
        3 => (prop::collection::vec(any::<u16>(), 1..4), any::<bool>(), prop::bool::weighted(0.2))
            .prop_map(|(picks, all_children, unknown_id)| Op::ProjectByIds { picks, all_children, unknown_id }),
        3 => (sub_strategy(), any::<bool>(), any::<bool>(), prop::bool::weighted(0.15))
            .prop_map(|(sub, ignore_missing, take_self, unknown)| Op::ProjectBySchema { sub, ignore_missing, take_self, unknown }),
        3 => sub_strategy().prop_map(|sub| Op::Exclude { sub }),
        3 => (sub_strategy(), prop::option::of(sub_strategy())).prop_map(|(a, b)| Op::Intersection { a, b }),
        3 => (
            sub_strategy(),
            prop::collection::vec((any::<u16>(), fspec_strategy(false)).prop_map(|(parent, field)| Add { parent, field }), 0..3),
            prop::option::weighted(0.15, any::<u16>()),
            prop::option::of(any::<u8>())
        )
            .prop_map(|(sub, adds, retype, max_existing)| Op::Merge { sub, adds, retype, max_existing }),
        4 => (any::<bool>(), prop::collection::vec(pstep_strategy(), 1..6)).prop_map(|(start_full, steps)| Op::Projection { start_full, steps }),
    ]
}

// ---------------------------------------------------------------------------
// spec -> arrow

fn meta_map(m: u8) -> HashMap<String, String> {
    let mut h = HashMap::new();
    match m % 5 {
        0 => {}
        1 => {
            h.insert("k".into(), "v".into());
        }
        2 => {
            h.insert("k".into(), "v2".into());
            h.insert("ключ".into(), "значение`.".into());
        }
        3 => {
            h.insert("lance-encoding:compression".into(), "zstd".into());
        }
        _ => {
            h.insert("ARROW:extension:name".into(), "my.ext".into());
            h.insert("ARROW:extension:metadata".into(), "{}".into());
        }
    }
    h
}

/// names of siblings: non-empty, unique among the siblings; top-level names carry no dot
/// (`Schema::validate` rejects them)
fn sibling_names(fields: &[&FSpec], top: bool, top_backtick: bool) -> Vec<String> {
    let mut out: Vec<String> = vec![];
    for f in fields {
        let mut n = f.name.raw();
        if top {
            n = n.replace('.', "·");
            if !top_backtick {
                // top-level names with a backtick are a (rare) class of their own: known finding C43-toplevel-name-reparsed
                n = n.replace('`', "ˋ");
            }
        }
        if n.is_empty() {
            n = "t".into();
        }
        while out.contains(&n) {
            n.push('\'');
        }
        out.push(n);
    }
    out
}

fn arrow_field(f: &FSpec, name: String) -> ArrowField {
    let dt = match &f.ty {
        TSpec::Prim(p) => prim_type(*p),
        TSpec::Struct(ch) => {
            let refs: Vec<&FSpec> = ch.iter().collect();
            let names = sibling_names(&refs, false, true);
            DataType::Struct(ch.iter().zip(names).map(|(c, n)| arrow_field(c, n)).collect())
        }
        TSpec::List { large, item } => {
            let n = sibling_names(&[item.as_ref()], false, true).remove(0);
            let it = Arc::new(arrow_field(item, n));
            if *large {
                DataType::LargeList(it)
            } else {
                DataType::List(it)
            }
        }
    };
    ArrowField::new(name, dt, f.nullable).with_metadata(meta_map(f.meta))
}

fn arrow_schema(fields: &[FSpec], schema_meta: u8) -> ArrowSchema {
    let refs: Vec<&FSpec> = fields.iter().collect();
    let names = sibling_names(&refs, true, schema_meta % 8 == 7);
    let fs: Vec<ArrowField> = fields.iter().zip(names).map(|(f, n)| arrow_field(f, n)).collect();
    let mut md = HashMap::new();
    if schema_meta % 3 == 1 {
        md.insert("schema-key".to_string(), "schema value".to_string());
    } else if schema_meta % 3 == 2 {
        md.insert("a.b".to_string(), "`".to_string());
        md.insert("日本".to_string(), "".to_string());
    }
    ArrowSchema::new_with_metadata(fs, md)
}

fn has_tz_colon(fields: &[FSpec]) -> bool {
    fields.iter().any(|f| match &f.ty {
        TSpec::Prim(p) => *p % N_PRIMS == PRIM_TZ_COLON,
        TSpec::Struct(ch) => has_tz_colon(ch),
        TSpec::List { item, .. } => has_tz_colon(std::slice::from_ref(item)),
    })
}

// ---------------------------------------------------------------------------
// model

#[derive(Clone, Debug, PartialEq)]
enum Kind {
    Leaf,
    Struct,
    List,
    LargeList,
}

#[derive(Clone, Debug)]
struct MNode {
    id: i32,
    parent: Option<usize>,
    name: String,
    nullable: bool,
    meta: HashMap<String, String>,
    kind: Kind,
    /// full arrow type (leaf: the type itself)
    dt: DataType,
    children: Vec<usize>,
    /// exclusive end of the subtree in pre-order
    end: usize,
    depth: usize,
}

fn build_model(arrow: &ArrowSchema) -> Vec<MNode> {
    fn walk(f: &ArrowField, parent: Option<usize>, depth: usize, out: &mut Vec<MNode>) -> usize {
        let me = out.len();
        let (kind, kids): (Kind, Vec<&ArrowField>) = match f.data_type() {
            DataType::Struct(ch) => (Kind::Struct, ch.iter().map(|c| c.as_ref()).collect()),
            DataType::List(i) => (Kind::List, vec![i.as_ref()]),
            DataType::LargeList(i) => (Kind::LargeList, vec![i.as_ref()]),
            _ => (Kind::Leaf, vec![]),
        };
        out.push(MNode {
            id: -1,
            parent,
            name: f.name().clone(),
            nullable: f.is_nullable(),
            meta: f.metadata().clone(),
            kind,
            dt: f.data_type().clone(),
            children: vec![],
            end: 0,
            depth,
        });
        for k in kids {
            let c = walk(k, Some(me), depth + 1, out);
            out[me].children.push(c);
        }
        out[me].end = out.len();
        me
    }
    let mut out = vec![];
    for f in arrow.fields() {
        walk(f, None, 1, &mut out);
    }
    out
}

struct Ctx {
    nodes: Vec<MNode>,
    base: Schema,
    by_id: BTreeMap<i32, usize>,
}

type Set = BTreeSet<usize>;

impl Ctx {
    fn subtree(&self, i: usize) -> std::ops::Range<usize> {
        i..self.nodes[i].end
    }
    fn ancestors(&self, i: usize) -> Vec<usize> {
        let mut v = vec![];
        let mut c = self.nodes[i].parent;
        while let Some(p) = c {
            v.push(p);
            c = self.nodes[p].parent;
        }
        v
    }
    fn upclose(&self, s: &Set) -> Set {
        let mut out = s.clone();
        for i in s {
            out.extend(self.ancestors(*i));
        }
        out
    }
    /// ancestors + node + all descendants (what naming a column selects)
    fn column_set(&self, i: usize) -> Set {
        let mut s: Set = self.subtree(i).collect();
        s.extend(self.ancestors(i));
        s
    }
    fn sel(&self, picks: &[u16]) -> Set {
        let mut s = Set::new();
        for p in picks {
            s.extend(self.column_set(idx(*p, self.nodes.len())));
        }
        s
    }
    fn path_names(&self, i: usize) -> Vec<String> {
        let mut v: Vec<String> = self.ancestors(i).into_iter().rev().map(|a| self.nodes[a].name.clone()).collect();
        v.push(self.nodes[i].name.clone());
        v
    }
    fn ids(&self, s: &Set) -> BTreeSet<i32> {
        s.iter().map(|i| self.nodes[*i].id).collect()
    }
    fn top_of(&self, i: usize) -> usize {
        self.ancestors(i).last().copied().unwrap_or(i)
    }
    /// a struct / list in `s` none of whose descendants is in `s`
    fn hollow(&self, s: &Set) -> Option<usize> {
        s.iter().copied().find(|i| !self.nodes[*i].children.is_empty() && !self.subtree(*i).skip(1).any(|d| s.contains(&d)))
    }
    fn path(&self, p: &Pick) -> (usize, String) {
        let i = idx(p.f, self.nodes.len());
        (i, fmt_path(&self.path_names(i), p.style))
    }
}

fn needs_quote(s: &str) -> bool {
    s.contains('.') || s.contains('`')
}

fn quote(s: &str) -> String {
    format!("`{}`", s.replace('`', "``"))
}

/// the documented path syntax, written independently of `format_field_path`
fn fmt_path(names: &[String], style: u8) -> String {
    let all = style % 3 == 1;
    names.iter().map(|n| if all || needs_quote(n) { quote(n) } else { n.clone() }).collect::<Vec<_>>().join(".")
}

/// sub-schema over the selection, as an Arrow schema (no ids)
fn arrow_sub(ctx: &Ctx, sel: &Set, reverse: bool) -> ArrowSchema {
    fn field(ctx: &Ctx, i: usize, sel: &Set, reverse: bool) -> ArrowField {
        let n = &ctx.nodes[i];
        let mut kids: Vec<ArrowField> = n.children.iter().filter(|c| sel.contains(c)).map(|c| field(ctx, *c, sel, reverse)).collect();
        if reverse {
            kids.reverse();
        }
        let dt = match n.kind {
            Kind::Leaf => n.dt.clone(),
            Kind::Struct => DataType::Struct(ArrowFields::from(kids)),
            Kind::List => DataType::List(Arc::new(kids.remove(0))),
            Kind::LargeList => DataType::LargeList(Arc::new(kids.remove(0))),
        };
        ArrowField::new(&n.name, dt, n.nullable).with_metadata(n.meta.clone())
    }
    let mut tops: Vec<ArrowField> = (0..ctx.nodes.len()).filter(|i| ctx.nodes[*i].parent.is_none() && sel.contains(i)).map(|i| field(ctx, i, sel, reverse)).collect();
    if reverse {
        tops.reverse();
    }
    ArrowSchema::new(tops)
}

/// sub-schema over the selection as a lance schema that keeps the base ids (pruned copy of the base,
/// written here so that it does not depend on any lance projection code)
fn prune(ctx: &Ctx, sel: &Set) -> Schema {
    fn go(ctx: &Ctx, f: &Field, sel: &Set) -> Option<Field> {
        let i = *ctx.by_id.get(&f.id)?;
        if !sel.contains(&i) {
            return None;
        }
        let mut c = f.clone();
        c.children = f.children.iter().filter_map(|k| go(ctx, k, sel)).collect();
        Some(c)
    }
    Schema {
        fields: ctx.base.fields.iter().filter_map(|f| go(ctx, f, sel)).collect(),
        metadata: ctx.base.metadata.clone(),
    }
}

fn short(s: &Schema) -> String {
    fn go(f: &Field, out: &mut String) {
        out.push_str(&format!("{}:{:?}", f.id, f.name));
        if !f.children.is_empty() {
            out.push('{');
            for c in &f.children {
                go(c, out);
                out.push(' ');
            }
            out.push('}');
        }
    }
    let mut out = String::new();
    for f in &s.fields {
        go(f, &mut out);
        out.push(' ');
    }
    truncate_str(&out, 600)
}

fn model_short(ctx: &Ctx) -> String {
    let mut out = String::new();
    for (i, n) in ctx.nodes.iter().enumerate() {
        out.push_str(&format!("[{}]{}:{:?}(p{:?}) ", i, n.id, n.name, n.parent.map(|p| ctx.nodes[p].id)));
    }
    truncate_str(&out, 800)
}

/// Compare a returned schema with the expected set of model nodes.
fn check_sub(ctx: &Ctx, got: &Schema, expected: &Set, op: &str) -> CheckResult {
    fn walk(ctx: &Ctx, f: &Field, parent: Option<i32>, seen: &mut BTreeSet<i32>, op: &str) -> CheckResult {
        let Some(&i) = ctx.by_id.get(&f.id) else {
            fail!(format!("{op}-unknown-id"), "{op}: result has a field id {} ({:?}) that the base schema lacks", f.id, f.name);
        };
        ensure!(seen.insert(f.id), format!("{op}-duplicate"), "{op}: field id {} appears twice in the result", f.id);
        let n = &ctx.nodes[i];
        let mparent = n.parent.map(|p| ctx.nodes[p].id);
        ensure!(mparent == parent, format!("{op}-structure"), "{op}: field {} ({:?}) sits under {:?}, in the base schema under {:?}", f.id, f.name, parent, mparent);
        let b = ctx.base.field_by_id(f.id).expect("base field");
        ensure!(f.name == n.name && f.name == b.name, format!("{op}-attr-name"), "{op}: field {} has name {:?}, base {:?}", f.id, f.name, n.name);
        ensure!(f.nullable == n.nullable, format!("{op}-attr-nullable"), "{op}: field {} ({:?}) nullable {} but base {}", f.id, f.name, f.nullable, n.nullable);
        ensure!(f.metadata == n.meta, format!("{op}-attr-metadata"), "{op}: field {} ({:?}) metadata {:?} but base {:?}", f.id, f.name, f.metadata, n.meta);
        ensure!(f.logical_type == b.logical_type, format!("{op}-attr-type"), "{op}: field {} ({:?}) type {} but base {}", f.id, f.name, f.logical_type, b.logical_type);
        ensure!(f.encoding == b.encoding && f.dictionary == b.dictionary, format!("{op}-attr-encoding"), "{op}: field {} ({:?}) encoding/dictionary changed", f.id, f.name);
        if n.kind == Kind::Leaf {
            ensure!(f.children.is_empty(), format!("{op}-structure"), "{op}: leaf {} has children", f.id);
            let dt = f.data_type();
            ensure!(dt == n.dt, format!("{op}-attr-type"), "{op}: field {} ({:?}) arrow type {dt:?} but spec {:?}", f.id, f.name, n.dt);
        }
        for c in &f.children {
            walk(ctx, c, Some(f.id), seen, op)?;
        }
        Ok(())
    }
    let mut seen = BTreeSet::new();
    for f in &got.fields {
        walk(ctx, f, None, &mut seen, op)?;
    }
    let want = ctx.ids(expected);
    if seen != want {
        let missing: Vec<_> = want.difference(&seen).collect();
        let extra: Vec<_> = seen.difference(&want).collect();
        fail!(format!("{op}-set"), "{op}: result {} lacks ids {missing:?} and has unexpected ids {extra:?}; model {}", short(got), model_short(ctx));
    }
    Ok(())
}

/// protobuf round trip of any schema with consistent parent ids
fn check_pb(s: &Schema, what: &str) -> CheckResult {
    let fields = PbFields::from(s);
    let order: Vec<i32> = fields.0.iter().map(|p| p.id).collect();
    ensure!(order == s.field_ids(), "pb-order", "{what}: protobuf fields {order:?} are not the pre-order ids {:?}", s.field_ids());
    let back = Schema::from(&fields);
    ensure!(back.fields == s.fields, "pb-roundtrip", "{what}: Fields round trip changed the schema: {} -> {}", short(s), short(&back));
    let with_meta = FieldsWithMeta::from(s);
    let back = Schema::from(with_meta);
    ensure!(back.fields == s.fields, "pb-roundtrip", "{what}: FieldsWithMeta round trip changed the fields");
    ensure!(back.metadata == s.metadata, "pb-roundtrip-metadata", "{what}: FieldsWithMeta round trip changed the schema metadata {:?} -> {:?}", s.metadata, back.metadata);
    Ok(())
}

fn parent_ids_consistent(s: &Schema) -> bool {
    fn go(f: &Field, p: i32) -> bool {
        f.parent_id == p && f.children.iter().all(|c| go(c, f.id))
    }
    s.fields.iter().all(|f| go(f, -1))
}

fn eval_pred_model(ctx: &Ctx, p: &Pred, i: usize, idset: &BTreeSet<i32>) -> bool {
    let n = &ctx.nodes[i];
    match p {
        Pred::IdIn(_) => idset.contains(&n.id),
        Pred::Leaf => n.children.is_empty(),
        Pred::Nullable => n.nullable,
        Pred::NameHas(c) => n.name.contains(ALPHA[*c as usize % ALPHA.len()]),
    }
}

fn eval_pred_lance(p: &Pred, f: &Field, idset: &BTreeSet<i32>) -> bool {
    match p {
        Pred::IdIn(_) => idset.contains(&f.id),
        Pred::Leaf => f.is_leaf(),
        Pred::Nullable => f.nullable,
        Pred::NameHas(c) => f.name.contains(ALPHA[*c as usize % ALPHA.len()]),
    }
}

/// a top-level name that `Schema::field(name)` (which parses its argument as a path) does not find
/// under that very name
fn path_unsafe(name: &str) -> bool {
    name.contains('`')
}

const K_REPARSE: &str = "C43-toplevel-name-reparsed";
const K_HOLLOW: &str = "C43-projection-hollow-struct-panic";
const K_TZ: &str = "C43-timestamp-tz-colon";
const K_EXCL_LIST: &str = "C43-exclude-toplevel-list";
const K_INTER_LARGE: &str = "C43-intersection-large-list";

impl C43 {
    fn build(&self, input: &Input, obs: &mut Obs) -> Result<(Ctx, ArrowSchema), Failure> {
        let arrow = arrow_schema(&input.fields, input.schema_meta);
        let mut nodes = build_model(&arrow);
        let base = match &input.ids {
            IdPlan::Preorder => {
                for (i, n) in nodes.iter_mut().enumerate() {
                    n.id = i as i32;
                }
                match Schema::try_from(&arrow) {
                    Ok(s) => s,
                    Err(e) => fail!("schema-from-arrow-error", "Schema::try_from rejected a supported schema: {e}"),
                }
            }
            IdPlan::Custom { explicit, max_existing } => {
                obs.label("ids-custom");
                let mut used = BTreeSet::new();
                let mut maxid = max_existing.map(|m| m as i32).unwrap_or(-1);
                for (i, n) in nodes.iter_mut().enumerate() {
                    if explicit.is_empty() {
                        break;
                    }
                    if let Some(v) = explicit[i % explicit.len()] {
                        if used.insert(v as i32) {
                            n.id = v as i32;
                            maxid = maxid.max(v as i32);
                        }
                    }
                }
                let explicit_ids: Vec<i32> = nodes.iter().map(|n| n.id).collect();
                let mut next = maxid + 1;
                for n in nodes.iter_mut() {
                    if n.id < 0 {
                        n.id = next;
                        next += 1;
                    }
                }
                let fields: Result<Vec<Field>, _> = arrow.fields().iter().map(|f| Field::try_from(f.as_ref())).collect();
                let fields = match fields {
                    Ok(f) => f,
                    Err(e) => fail!("schema-from-arrow-error", "Field::try_from rejected a supported field: {e}"),
                };
                let mut s = Schema { fields, metadata: arrow.metadata().clone() };
                fn assign(f: &mut Field, k: &mut usize, ids: &[i32]) {
                    f.id = ids[*k];
                    *k += 1;
                    for c in f.children.iter_mut() {
                        assign(c, k, ids);
                    }
                }
                let mut k = 0;
                for f in s.fields.iter_mut() {
                    assign(f, &mut k, &explicit_ids);
                }
                if explicit_ids.iter().any(|i| *i >= 0) && explicit_ids.iter().any(|i| *i < 0) {
                    obs.label("ids-partial");
                }
                s.set_field_id(max_existing.map(|m| m as i32));
                if let Err(e) = s.validate() {
                    fail!("set-field-id-invalid", "schema invalid after set_field_id: {e}");
                }
                s
            }
        };
        let got: Vec<i32> = base.field_ids();
        let want: Vec<i32> = nodes.iter().map(|n| n.id).collect();
        ensure!(got == want, "set-field-id", "ids in pre-order are {got:?}, the documented assignment gives {want:?}");
        ensure!(parent_ids_consistent(&base), "set-field-id-parent", "parent ids are not the ids of the parents: {}", short(&base));
        ensure!(base.max_field_id() == want.iter().copied().max(), "max-field-id", "max_field_id {:?}", base.max_field_id());
        let by_id = nodes.iter().enumerate().map(|(i, n)| (n.id, i)).collect();
        Ok((Ctx { nodes, base, by_id }, arrow))
    }

    fn check_conversions(&self, ctx: &Ctx, arrow: &ArrowSchema) -> CheckResult {
        let base = &ctx.base;
        // attributes of the base against the spec
        check_sub(ctx, base, &(0..ctx.nodes.len()).collect(), "base")?;
        ensure!(base.metadata == *arrow.metadata(), "base-metadata", "schema metadata changed on conversion from arrow");
        // lance -> arrow is the identity on the generated arrow schema
        let back = ArrowSchema::from(base);
        ensure!(&back == arrow, "arrow-roundtrip", "ArrowSchema -> Schema -> ArrowSchema changed the schema:\n  in  {arrow:?}\n  out {back:?}");
        // arrow -> lance again: same attributes, ids in pre-order
        match Schema::try_from(&back) {
            Ok(s2) => {
                let ids = s2.field_ids();
                ensure!(ids == (0..ctx.nodes.len() as i32).collect::<Vec<_>>(), "arrow-roundtrip-ids", "ids after conversion from arrow are {ids:?}");
                let opts = lance_core::datatypes::SchemaCompareOptions { compare_metadata: true, compare_dictionary: false, ..Default::default() };
                ensure!(s2.compare_with_options(base, &opts), "arrow-roundtrip-attrs", "Schema -> Arrow -> Schema changed attributes: {:?}", s2.explain_difference(base, &opts));
            }
            Err(e) => fail!("arrow-roundtrip-error", "Schema::try_from(ArrowSchema::from(schema)) failed: {e}"),
        }
        check_pb(base, "base")?;
        Ok(())
    }

    fn check_paths(&self, ctx: &Ctx, obs: &mut Obs) -> CheckResult {
        let base = &ctx.base;
        for i in 0..ctx.nodes.len() {
            obs.inner += 1;
            let names = ctx.path_names(i);
            let refs: Vec<&str> = names.iter().map(|s| s.as_str()).collect();
            let id = ctx.nodes[i].id;
            let canonical = fmt_path(&names, 0);
            let quoted = fmt_path(&names, 1);
            let p = format_field_path(&refs);
            ensure!(p == canonical, "format-field-path", "format_field_path({refs:?}) = {p:?}, documented syntax gives {canonical:?}");
            for (what, s) in [("canonical", &canonical), ("all-quoted", &quoted)] {
                match parse_field_path(s) {
                    Ok(v) => ensure!(v == names, "parse-field-path", "parse_field_path({s:?}) [{what}] = {v:?}, expected {names:?}"),
                    Err(e) => fail!("parse-field-path", "parse_field_path({s:?}) [{what}] failed: {e}"),
                }
                let want: Vec<i32> = ctx.ancestors(i).into_iter().rev().chain([i]).map(|k| ctx.nodes[k].id).collect();
                match base.resolve(s) {
                    Some(fs) => {
                        let got: Vec<i32> = fs.iter().map(|f| f.id).collect();
                        ensure!(got == want, "resolve", "resolve({s:?}) [{what}] = ids {got:?}, expected {want:?}; model {}", model_short(ctx));
                    }
                    None => fail!("resolve", "resolve({s:?}) [{what}] found nothing, expected ids {want:?}; model {}", model_short(ctx)),
                }
                let got = base.field(s).map(|f| f.id);
                ensure!(got == Some(id), "resolve-field", "field({s:?}) = {got:?}, expected {id}");
                match FieldRef::ByPath(s).into_id(base) {
                    Ok(g) => ensure!(g == id, "resolve-fieldref", "FieldRef::ByPath({s:?}) = {g}, expected {id}"),
                    Err(e) => fail!("resolve-fieldref", "FieldRef::ByPath({s:?}) failed: {e}"),
                }
            }
            let esc = escape_field_path_for_project(&canonical);
            ensure!(esc == quoted, "escape-field-path", "escape_field_path_for_project({canonical:?}) = {esc:?}, expected {quoted:?}");
            match base.field_path(id) {
                Ok(fp) => ensure!(fp == canonical, "field-path", "field_path({id}) = {fp:?}, expected {canonical:?}"),
                Err(e) => fail!("field-path", "field_path({id}) failed: {e}"),
            }
            let anc: Option<Vec<i32>> = base.field_ancestry_by_id(id).map(|v| v.iter().map(|f| f.id).collect());
            let want: Vec<i32> = ctx.ancestors(i).into_iter().rev().chain([i]).map(|k| ctx.nodes[k].id).collect();
            ensure!(anc.as_ref() == Some(&want), "field-ancestry", "field_ancestry_by_id({id}) = {anc:?}, expected {want:?}");
            // a path that differs in the case of its last segment names this field only if the names are equal
            let last = names.last().unwrap();
            let flipped: String = last.chars().map(|c| if c.is_lowercase() { c.to_uppercase().next().unwrap() } else { c.to_lowercase().next().unwrap() }).collect();
            if &flipped != last {
                let mut alt = names.clone();
                *alt.last_mut().unwrap() = flipped.clone();
                let siblings: Vec<usize> = match ctx.nodes[i].parent {
                    Some(p) => ctx.nodes[p].children.clone(),
                    None => (0..ctx.nodes.len()).filter(|k| ctx.nodes[*k].parent.is_none()).collect(),
                };
                let want = siblings.iter().find(|k| ctx.nodes[**k].name == flipped).map(|k| ctx.nodes[*k].id);
                let s = fmt_path(&alt, 0);
                let got = base.field(&s).map(|f| f.id);
                ensure!(got == want, "resolve-case", "field({s:?}) = {got:?}, expected {want:?} (names are case sensitive)");
                if want.is_some() {
                    obs.label("case-sibling");
                }
            }
        }
        Ok(())
    }
}

/// outcome of comparing one name-based operation: the narrow classification of the known
/// "top-level name is parsed as a path" defect
fn reparse_class(names: impl IntoIterator<Item = String>) -> bool {
    names.into_iter().any(|n| path_unsafe(&n))
}

macro_rules! known_or_fail {
    ($env:expr, $obs:expr, $id:expr, $kind:expr, $($arg:tt)*) => {{
        let detail = format!($($arg)*);
        if $env.known($id) {
            $obs.known_hit($id, detail);
        } else {
            return Err(Failure::new($kind, detail));
        }
    }};
}

impl Property for C43 {
    type Input = Input;
    fn id(&self) -> &'static str {
        "C43"
    }
    fn rule(&self) -> String {
        "A schema of 1-4 top-level fields, depth <= 4 (struct, list / large list of struct or primitive, 25 leaf types incl. fixed-size list, dictionary, decimals, timestamps with zones), names from a pool / alphabet with '.', '`', space, unicode and case variants (unique among siblings, no dot at top level), ids either pre-order or a generated partial assignment with holes completed by set_field_id(max). 1-5 operations: project by formatted / fully quoted paths, project_by_ids (both modes), project_by_schema (arrow sub-schema, reversed order, unknown field), exclude, intersection (base x sub, sub x sub), merge (+ new fields, type change, then set_field_id), Projection built by 1-5 union/subtract/intersect steps. Every result is compared with the set operation on the model tree (ids, structure, name, type, nullability, metadata); every field path is round-tripped through format/parse/resolve; Arrow and protobuf conversions are compared for identity. Non-trivial = a nested field name contains '.' or '`' and some operation kept a strict, non-empty subset of a struct's children; distinct by (field count, depth, special-name classes, op kinds)."
            .into()
    }
    fn assumptions(&self) -> Vec<String> {
        vec![
            "field names are non-empty and unique among siblings; top-level names contain no '.' (Schema::validate)".into(),
            "schemas handed to union_schema / subtract_schema / intersection / exclude are sub-schemas of the base (documented panic otherwise)".into(),
            "project_by_ids(ids, false) keeps all children of a selected struct none of whose descendants is selected (Field::project_by_ids doc example)".into(),
            "a Projection whose id set contains a struct without any selected descendant is documented as invalid in Field::apply_projection; its to_schema() panic is reported as a known finding candidate, not asserted as a set result".into(),
            "field order of results is not compared (only ids, structure and attributes)".into(),
            "fixed-size-list items are named 'item' and nullable (the logical type string does not store them)".into(),
        ]
    }
    fn cases(&self, tier: Tier) -> u32 {
        tier.pick(200_000, 4_000_000)
    }
    fn strategy(&self, _tier: Tier) -> BoxedStrategy<Input> {
        let ids = prop_oneof![
            2 => Just(IdPlan::Preorder),
            3 => (prop::collection::vec(prop::option::weighted(0.7, 0u8..40), 1..12), prop::option::of(0u8..60)).prop_map(|(explicit, max_existing)| IdPlan::Custom { explicit, max_existing }),
        ];
        (prop::bool::weighted(0.03), any::<u8>(), ids, prop::collection::vec(op_strategy(), 1..5))
            .prop_flat_map(|(tz, schema_meta, ids, ops)| (prop::collection::vec(fspec_strategy(tz), 1..5), Just(schema_meta), Just(ids), Just(ops)))
            .prop_map(|(fields, schema_meta, ids, ops)| Input { fields, schema_meta, ids, ops })
            .boxed()
    }

    fn check(&self, input: &Input, obs: &mut Obs, env: &Env) -> CheckResult {
        // -- the timestamp-with-colon-zone class is checked on its own --------
        if has_tz_colon(&input.fields) {
            obs.label("tz-colon");
            let arrow = arrow_schema(&input.fields, input.schema_meta);
            let r = catch_unwind(AssertUnwindSafe(|| Schema::try_from(&arrow).map(|s| ArrowSchema::from(&s))));
            match r {
                Ok(Ok(back)) => ensure!(back == arrow, "arrow-roundtrip", "schema with a '+05:30' timestamp changed on the Arrow round trip"),
                Ok(Err(_)) => obs.rejected += 1,
                Err(_) => known_or_fail!(env, obs, K_TZ, "timestamp-tz-colon-panic", "Schema::try_from accepts Timestamp(ms, \"+05:30\") but converting the field back to Arrow panics"),
            }
            return Ok(());
        }

        let (ctx, arrow) = self.build(input, obs)?;
        let n = ctx.nodes.len();
        let depth = ctx.nodes.iter().map(|m| m.depth).max().unwrap_or(0);
        obs.label(format!("depth-{depth}"));
        let nested_special: BTreeSet<&'static str> = ctx
            .nodes
            .iter()
            .filter(|m| m.parent.is_some())
            .flat_map(|m| {
                let mut v = vec![];
                if m.name.contains('.') {
                    v.push("dot");
                }
                if m.name.contains('`') {
                    v.push("backtick");
                }
                if m.name.starts_with('`') && m.name.ends_with('`') && m.name.len() >= 2 {
                    v.push("wrapped");
                }
                v
            })
            .collect();
        for s in &nested_special {
            obs.label(format!("nested-name-{s}"));
        }
        if ctx.nodes.iter().any(|m| m.parent.is_none() && m.name.contains('`')) {
            obs.label("top-name-backtick");
        }
        if ctx.nodes.iter().any(|m| !m.name.is_ascii()) {
            obs.label("name-unicode");
        }
        for k in [Kind::Struct, Kind::List, Kind::LargeList] {
            if ctx.nodes.iter().any(|m| m.kind == k) {
                obs.label(format!("has-{k:?}"));
            }
        }

        self.check_conversions(&ctx, &arrow)?;
        self.check_paths(&ctx, obs)?;

        let mut strict_subset = false;
        let mut opkinds: Vec<&'static str> = vec![];
        let top_bt = ctx.nodes.iter().any(|m| m.parent.is_none() && m.name.contains('`'));
        if top_bt {
            // with a back-ticked top-level name the known defect may also surface as a panic inside lance
            match catch_unwind(AssertUnwindSafe(|| self.run_ops(&ctx, input, obs, env, &mut opkinds, &mut strict_subset))) {
                Ok(r) => r?,
                Err(e) => {
                    let m = e.downcast_ref::<String>().cloned().or_else(|| e.downcast_ref::<&str>().map(|s| s.to_string())).unwrap_or_default();
                    known_or_fail!(env, obs, K_REPARSE, "toplevel-name-reparsed", "panic while a top-level name contains a backtick: {m}");
                }
            }
        } else {
            self.run_ops(&ctx, input, obs, env, &mut opkinds, &mut strict_subset)?;
        }

        if !nested_special.is_empty() && strict_subset {
            let mut ok = opkinds.clone();
            ok.sort_unstable();
            ok.dedup();
            obs.label("nontrivial");
            obs.nontrivial(format!("n{n}|d{depth}|{nested_special:?}|{ok:?}|{}", matches!(input.ids, IdPlan::Custom { .. })));
        }
        Ok(())
    }
}

impl C43 {
    fn run_ops(&self, ctx: &Ctx, input: &Input, obs: &mut Obs, env: &Env, opkinds: &mut Vec<&'static str>, strict_out: &mut bool) -> CheckResult {
        let n = ctx.nodes.len();
        let base = &ctx.base;
        let top_names = |s: &Set| -> Vec<String> { s.iter().filter(|i| ctx.nodes[**i].parent.is_none()).map(|i| ctx.nodes[*i].name.clone()).collect() };
        let mut strict_subset = false;
        let mut note_subset = |s: &Set| {
            for i in s {
                let ch = &ctx.nodes[*i].children;
                if ctx.nodes[*i].kind == Kind::Struct && ch.len() >= 2 {
                    let k = ch.iter().filter(|c| s.contains(c)).count();
                    if k > 0 && k < ch.len() {
                        strict_subset = true;
                    }
                }
            }
        };
        
        for (oi, op) in input.ops.iter().enumerate() {
            obs.inner += 1;
            match op {
                Op::Project { cols, unknown } => {
                    opkinds.push("project");
                    let mut expected = Set::new();
                    let mut paths = vec![];
                    let mut tops = vec![];
                    for c in cols {
                        let (i, p) = ctx.path(c);
                        expected.extend(ctx.column_set(i));
                        tops.push(ctx.nodes[ctx.top_of(i)].name.clone());
                        paths.push(p);
                    }
                    let reparse = reparse_class(tops);
                    if let Some(u) = unknown {
                        obs.label("project-unknown-column");
                        let mut with_unknown = paths.clone();
                        with_unknown.insert(*u as usize % (paths.len() + 1), "no such column".to_string());
                        match base.project(&with_unknown) {
                            Err(_) => obs.rejected += 1,
                            Ok(_) => fail!("project-unknown-accepted", "op#{oi}: project({with_unknown:?}) accepted an unknown top-level column"),
                        }
                        match base.project_or_drop(&with_unknown) {
                            Ok(s) if !reparse => check_sub(ctx, &s, &expected, "project-or-drop")?,
                            _ => {}
                        }
                    }
                    let r = base.project(&paths);
                    let outcome: CheckResult = match r {
                        Ok(s) => check_sub(ctx, &s, &expected, "project").and_then(|_| if parent_ids_consistent(&s) { check_pb(&s, "project result") } else { Ok(()) }),
                        Err(e) => Err(Failure::new("project-error", format!("project({paths:?}) of existing columns failed: {e}"))),
                    };
                    if let Err(f) = outcome {
                        if reparse {
                            known_or_fail!(env, obs, K_REPARSE, "toplevel-name-reparsed", "op#{oi} project({paths:?}): {} [{}]", f.msg, f.kind);
                        } else {
                            return Err(Failure::new(f.kind, format!("op#{oi} paths {paths:?}: {}", f.msg)));
                        }
                    }
                    note_subset(&expected);
                }
                Op::ProjectByIds { picks, all_children, unknown_id } => {
                    opkinds.push("project-by-ids");
                    let chosen: Set = picks.iter().map(|p| idx(*p, n)).collect();
                    let mut ids: Vec<i32> = chosen.iter().map(|i| ctx.nodes[*i].id).collect();
                    if *unknown_id {
                        ids.push(ctx.nodes.iter().map(|m| m.id).max().unwrap() + 7);
                    }
                    let mut expected = ctx.upclose(&chosen);
                    for c in &chosen {
                        let has_selected_desc = ctx.subtree(*c).skip(1).any(|d| chosen.contains(&d));
                        if *all_children || !has_selected_desc {
                            expected.extend(ctx.subtree(*c));
                        }
                    }
                    let s = base.project_by_ids(&ids, *all_children);
                    check_sub(ctx, &s, &expected, "project-by-ids").map_err(|f| Failure::new(f.kind, format!("op#{oi} ids {ids:?} all_children={all_children}: {}", f.msg)))?;
                    if parent_ids_consistent(&s) {
                        check_pb(&s, "project_by_ids result")?;
                    }
                    note_subset(&expected);
                }
                Op::ProjectBySchema { sub, ignore_missing, take_self, unknown } => {
                    opkinds.push("project-by-schema");
                    let sel = ctx.sel(&sub.picks);
                    let mut a = arrow_sub(ctx, &sel, sub.reverse);
                    if *unknown {
                        let mut fs: Vec<ArrowField> = a.fields().iter().map(|f| f.as_ref().clone()).collect();
                        fs.push(ArrowField::new("no such column", DataType::Int32, true));
                        a = ArrowSchema::new(fs);
                    }
                    let reparse = reparse_class(top_names(&sel));
                    let on_missing = if *ignore_missing { OnMissing::Ignore } else { OnMissing::Error };
                    let on_mismatch = if *take_self { OnTypeMismatch::TakeSelf } else { OnTypeMismatch::Error };
                    let r = base.project_by_schema(&a, on_missing, on_mismatch);
                    let outcome: CheckResult = match r {
                        Ok(s) => {
                            if *unknown && !*ignore_missing {
                                Err(Failure::new("project-by-schema-unknown-accepted", "an unknown top-level field was accepted with OnMissing::Error".to_string()))
                            } else {
                                check_sub(ctx, &s, &sel, "project-by-schema")
                            }
                        }
                        Err(e) => {
                            if *unknown && !*ignore_missing {
                                obs.rejected += 1;
                                Ok(())
                            } else {
                                Err(Failure::new("project-by-schema-error", format!("project_by_schema of a sub-schema failed: {e}")))
                            }
                        }
                    };
                    if let Err(f) = outcome {
                        if reparse {
                            known_or_fail!(env, obs, K_REPARSE, "toplevel-name-reparsed", "op#{oi} project_by_schema({}): {} [{}]", short(&prune(ctx, &sel)), f.msg, f.kind);
                        } else {
                            return Err(Failure::new(f.kind, format!("op#{oi} sub {}: {}", short(&prune(ctx, &sel)), f.msg)));
                        }
                    }
                    note_subset(&sel);
                }
                Op::Exclude { sub } => {
                    opkinds.push("exclude");
                    let sel = ctx.sel(&sub.picks);
                    let other = prune(ctx, &sel);
                    // leaves of the base that `other` does not contain, with their ancestors
                    let leaves: Set = (0..n).filter(|i| ctx.nodes[*i].children.is_empty() && !sel.contains(i)).collect();
                    let expected = ctx.upclose(&leaves);
                    // exclude looks every top-level name of *self* up in `other`
                    let reparse = reparse_class(top_names(&(0..n).collect()));
                    // a top-level list whose struct item is only partly covered by `other`
                    let partial_top_list = (0..n).any(|i| {
                        ctx.nodes[i].parent.is_none() && matches!(ctx.nodes[i].kind, Kind::List | Kind::LargeList) && sel.contains(&i) && ctx.subtree(i).any(|d| expected.contains(&d))
                    });
                    let outcome: CheckResult = match base.exclude(&other) {
                        Ok(s) => check_sub(ctx, &s, &expected, "exclude"),
                        Err(e) => Err(Failure::new("exclude-error", format!("exclude of a sub-schema failed: {e}"))),
                    };
                    if let Err(f) = outcome {
                        if reparse {
                            known_or_fail!(env, obs, K_REPARSE, "toplevel-name-reparsed", "op#{oi} exclude({}): {} [{}]", short(&other), f.msg, f.kind);
                        } else if partial_top_list {
                            known_or_fail!(env, obs, K_EXCL_LIST, "exclude-toplevel-list", "op#{oi} exclude({}): {} [{}]", short(&other), f.msg, f.kind);
                        } else {
                            return Err(Failure::new(f.kind, format!("op#{oi} other {}: {}", short(&other), f.msg)));
                        }
                    }
                    note_subset(&expected);
                }
                Op::Intersection { a, b } => {
                    opkinds.push("intersection");
                    let sa = ctx.sel(&a.picks);
                    let (left, right, expected, lsel, rsel) = match b {
                        None => {
                            let all: Set = (0..n).collect();
                            (base.clone(), prune(ctx, &sa), sa.clone(), all, sa.clone())
                        }
                        Some(b) => {
                            let sb = ctx.sel(&b.picks);
                            let e: Set = sa.intersection(&sb).copied().collect();
                            (prune(ctx, &sa), prune(ctx, &sb), e, sa.clone(), sb)
                        }
                    };
                    let reparse = reparse_class(top_names(&rsel));
                    // a large list in both operands whose selected descendants differ
                    let large_differs = (0..n).any(|i| {
                        ctx.nodes[i].kind == Kind::LargeList && lsel.contains(&i) && rsel.contains(&i) && ctx.subtree(i).any(|d| lsel.contains(&d) != rsel.contains(&d))
                    });
                    let outcome: CheckResult = match left.intersection(&right) {
                        Ok(s) => check_sub(ctx, &s, &expected, "intersection"),
                        Err(e) => Err(Failure::new("intersection-error", format!("intersection of two sub-schemas of one schema failed: {e}"))),
                    };
                    if let Err(f) = outcome {
                        if reparse {
                            known_or_fail!(env, obs, K_REPARSE, "toplevel-name-reparsed", "op#{oi} {} ∩ {}: {} [{}]", short(&left), short(&right), f.msg, f.kind);
                        } else if large_differs {
                            known_or_fail!(env, obs, K_INTER_LARGE, "intersection-large-list", "op#{oi} {} ∩ {}: {} [{}]", short(&left), short(&right), f.msg, f.kind);
                        } else {
                            return Err(Failure::new(f.kind, format!("op#{oi} {} ∩ {}: {}", short(&left), short(&right), f.msg)));
                        }
                    }
                    note_subset(&expected);
                }
                Op::Merge { sub, adds, retype, max_existing } => {
                    opkinds.push("merge");
                    self.check_merge(ctx, oi, sub, adds, retype, max_existing, obs, env)?;
                }
                Op::Projection { start_full, steps } => {
                    opkinds.push("projection");
                    let s = self.check_projection(ctx, oi, *start_full, steps, obs, env)?;
                    note_subset(&ctx.upclose(&s));
                }
            }
        }
        if strict_subset {
            *strict_out = true;
        }
        Ok(())
    }
}

impl C43 {
    #[allow(clippy::too_many_arguments)]
    fn check_merge(&self, ctx: &Ctx, oi: usize, sub: &Sub, adds: &[Add], retype: &Option<u16>, max_existing: &Option<u8>, obs: &mut Obs, env: &Env) -> CheckResult {
        let n = ctx.nodes.len();
        let base = &ctx.base;
        let sel = ctx.sel(&sub.picks);
        // other = sub-schema of the base + new fields under structs of the selection / at top level
        let mut other = arrow_sub(ctx, &sel, sub.reverse);
        // expected new fields: (path of names, arrow field)
        let mut new_paths: Vec<(Vec<String>, ArrowField)> = vec![];
        let struct_nodes: Vec<usize> = sel.iter().copied().filter(|i| ctx.nodes[*i].kind == Kind::Struct).collect();
        fn add_under(fields: &ArrowFields, path: &[String], newf: &ArrowField) -> ArrowFields {
            // path = names from this level down to the struct that receives `newf`
            let mut v: Vec<ArrowField> = fields.iter().map(|f| f.as_ref().clone()).collect();
            if path.is_empty() {
                v.push(newf.clone());
                return ArrowFields::from(v);
            }
            for f in v.iter_mut() {
                if f.name() == &path[0] {
                    let dt = match f.data_type() {
                        DataType::Struct(ch) => DataType::Struct(add_under(ch, &path[1..], newf)),
                        DataType::List(item) => {
                            let inner = add_under(&ArrowFields::from(vec![item.as_ref().clone()]), &path[1..], newf);
                            DataType::List(inner[0].clone())
                        }
                        DataType::LargeList(item) => {
                            let inner = add_under(&ArrowFields::from(vec![item.as_ref().clone()]), &path[1..], newf);
                            DataType::LargeList(inner[0].clone())
                        }
                        other => other.clone(),
                    };
                    *f = ArrowField::new(f.name(), dt, f.is_nullable()).with_metadata(f.metadata().clone());
                }
            }
            ArrowFields::from(v)
        }
        for (k, a) in adds.iter().enumerate() {
            let slot = idx(a.parent, struct_nodes.len() + 1);
            let mut name = format!("new{k}{}", a.field.name.raw());
            let path: Vec<String> = if slot == struct_nodes.len() {
                name = name.replace('.', "·");
                vec![]
            } else {
                ctx.path_names(struct_nodes[slot])
            };
            let newf = arrow_field(&a.field, name.clone());
            let fields = add_under(other.fields(), &path, &newf);
            other = ArrowSchema::new(fields);
            let mut full = path.clone();
            full.push(name);
            new_paths.push((full, newf));
        }
        if !adds.is_empty() {
            obs.label("merge-adds");
        }
        // optional type change of one overlapping leaf
        let mut retyped = false;
        if let Some(r) = retype {
            let leaves: Vec<usize> = sel.iter().copied().filter(|i| ctx.nodes[*i].kind == Kind::Leaf && matches!(ctx.nodes[*i].dt, DataType::Int32 | DataType::Utf8 | DataType::Float32)).collect();
            if !leaves.is_empty() {
                let l = leaves[idx(*r, leaves.len())];
                let path = ctx.path_names(l);
                fn retype_at(fields: &ArrowFields, path: &[String]) -> ArrowFields {
                    let v: Vec<ArrowField> = fields
                        .iter()
                        .map(|f| {
                            if f.name() != &path[0] {
                                return f.as_ref().clone();
                            }
                            let dt = if path.len() == 1 {
                                DataType::Int16
                            } else {
                                match f.data_type() {
                                    DataType::Struct(ch) => DataType::Struct(retype_at(ch, &path[1..])),
                                    DataType::List(item) => DataType::List(retype_at(&ArrowFields::from(vec![item.as_ref().clone()]), &path[1..])[0].clone()),
                                    DataType::LargeList(item) => DataType::LargeList(retype_at(&ArrowFields::from(vec![item.as_ref().clone()]), &path[1..])[0].clone()),
                                    o => o.clone(),
                                }
                            };
                            ArrowField::new(f.name(), dt, f.is_nullable()).with_metadata(f.metadata().clone())
                        })
                        .collect();
                    ArrowFields::from(v)
                }
                other = ArrowSchema::new(retype_at(other.fields(), &path));
                retyped = true;
                obs.label("merge-type-change");
            }
        }
        let reparse = reparse_class(other.fields().iter().map(|f| f.name().clone())) || reparse_class(ctx.nodes.iter().filter(|m| m.parent.is_none()).map(|m| m.name.clone()));
        let merged = match base.merge(&other) {
            Ok(m) => m,
            Err(e) => {
                if retyped {
                    obs.rejected += 1;
                    return Ok(());
                }
                if reparse {
                    known_or_fail!(env, obs, K_REPARSE, "toplevel-name-reparsed", "op#{oi} merge: failed: {e}");
                    return Ok(());
                }
                fail!("merge-error", "op#{oi}: merge with a compatible schema {other:?} failed: {e}");
            }
        };
        let outcome = (|| -> CheckResult {
            // (a) every base field is kept with its id and attributes
            let kept = Schema {
                fields: {
                    fn keep(f: &Field) -> Option<Field> {
                        if f.id < 0 {
                            return None;
                        }
                        let mut c = f.clone();
                        c.children = f.children.iter().filter_map(keep).collect();
                        Some(c)
                    }
                    merged.fields.iter().filter_map(keep).collect()
                },
                metadata: HashMap::new(),
            };
            check_sub(ctx, &kept, &(0..n).collect(), "merge")?;
            // (b) the new fields are exactly the added ones, under the right parents, with their attributes
            let mut got_new: Vec<(Vec<String>, ArrowField)> = vec![];
            fn collect_new(f: &Field, path: &mut Vec<String>, out: &mut Vec<(Vec<String>, ArrowField)>) {
                path.push(f.name.clone());
                if f.id < 0 {
                    out.push((path.clone(), ArrowField::from(f)));
                } else {
                    for c in &f.children {
                        collect_new(c, path, out);
                    }
                }
                path.pop();
            }
            for f in &merged.fields {
                collect_new(f, &mut vec![], &mut got_new);
            }
            let mut want_new = new_paths.clone();
            got_new.sort_by(|a, b| a.0.cmp(&b.0));
            want_new.sort_by(|a, b| a.0.cmp(&b.0));
            ensure!(got_new == want_new, "merge-new-fields", "op#{oi}: new fields after merge {got_new:?}, expected {want_new:?}");
            // (c) set_field_id completes the ids above everything that exists
            let mut m2 = merged.clone();
            let floor = max_existing.map(|m| m as i32);
            m2.set_field_id(floor);
            let ids = m2.field_ids();
            let uniq: BTreeSet<i32> = ids.iter().copied().collect();
            ensure!(uniq.len() == ids.len() && ids.iter().all(|i| *i >= 0), "merge-set-field-id", "op#{oi}: ids after merge + set_field_id are not unique / assigned: {ids:?}");
            let base_max = ctx.nodes.iter().map(|m| m.id).max().unwrap();
            let lim = base_max.max(floor.unwrap_or(-1));
            fn check_ids(f: &Field, ctx: &Ctx, lim: i32, orig: &Field) -> bool {
                (if orig.id >= 0 { f.id == orig.id } else { f.id > lim }) && f.children.iter().zip(&orig.children).all(|(a, b)| check_ids(a, ctx, lim, b))
            }
            ensure!(m2.fields.iter().zip(&merged.fields).all(|(a, b)| check_ids(a, ctx, lim, b)), "merge-set-field-id", "op#{oi}: set_field_id({floor:?}) changed an existing id or reused an id <= {lim}: {}", short(&m2));
            ensure!(parent_ids_consistent(&m2), "merge-set-field-id-parent", "op#{oi}: parent ids inconsistent after merge + set_field_id");
            check_pb(&m2, "merge result")?;
            Ok(())
        })();
        if let Err(f) = outcome {
            if reparse {
                known_or_fail!(env, obs, K_REPARSE, "toplevel-name-reparsed", "op#{oi} merge with {other:?}: {} [{}]", f.msg, f.kind);
            } else {
                return Err(f);
            }
        }
        Ok(())
    }

    fn check_projection(&self, ctx: &Ctx, oi: usize, start_full: bool, steps: &[PStep], obs: &mut Obs, env: &Env) -> Result<Set, Failure> {
        let n = ctx.nodes.len();
        let basearc: Arc<Schema> = Arc::new(ctx.base.clone());
        let mut proj = if start_full { Projection::full(basearc.clone()) } else { Projection::empty(basearc.clone()) };
        let mut s: Set = if start_full { (0..n).collect() } else { Set::new() };
        let mut row_id = false;
        let mut row_addr = false;
        let mut reparse_hit = false;
        let cols_set = |ps: &[Pick]| -> (Set, Vec<String>) {
            let mut set = Set::new();
            let mut paths = vec![];
            for p in ps {
                let (i, path) = ctx.path(p);
                set.extend(ctx.column_set(i));
                paths.push(path);
            }
            (set, paths)
        };
        for (si, st) in steps.iter().enumerate() {
            obs.inner += 1;
            let what = format!("op#{oi} step#{si} {st:?}");
            match st {
                PStep::UnionColumn(p) => {
                    let (i, path) = ctx.path(p);
                    proj = match proj.union_column(&path, OnMissing::Error) {
                        Ok(p) => p,
                        Err(e) => fail!("projection-union-column-error", "{what}: union_column({path:?}) failed: {e}"),
                    };
                    s.extend(ctx.column_set(i));
                }
                PStep::UnionColumns(ps) => {
                    let (set, paths) = cols_set(ps);
                    proj = match proj.union_columns(&paths, OnMissing::Error) {
                        Ok(p) => p,
                        Err(e) => fail!("projection-union-column-error", "{what}: union_columns({paths:?}) failed: {e}"),
                    };
                    s.extend(set);
                }
                PStep::UnionMissing { ignore } => {
                    let r = proj.clone().union_column("no such column", if *ignore { OnMissing::Ignore } else { OnMissing::Error });
                    match (r, ignore) {
                        (Ok(p), true) => proj = p,
                        (Err(_), false) => obs.rejected += 1,
                        (Ok(_), false) => fail!("projection-unknown-accepted", "{what}: unknown column accepted with OnMissing::Error"),
                        (Err(e), true) => fail!("projection-union-column-error", "{what}: unknown column with OnMissing::Ignore failed: {e}"),
                    }
                }
                PStep::UnionSchema(sub) => {
                    let sel = ctx.sel(&sub.picks);
                    proj = proj.union_schema(&prune(ctx, &sel));
                    s.extend(sel);
                }
                PStep::SubtractSchema(sub) => {
                    let sel = ctx.sel(&sub.picks);
                    proj = proj.subtract_schema(&prune(ctx, &sel));
                    s = s.difference(&sel).copied().collect();
                }
                PStep::UnionArrow(sub) | PStep::SubtractArrow(sub) => {
                    let sel = ctx.sel(&sub.picks);
                    let a = arrow_sub(ctx, &sel, sub.reverse);
                    let union = matches!(st, PStep::UnionArrow(_));
                    let r = if union { proj.clone().union_arrow_schema(&a, OnMissing::Error) } else { proj.clone().subtract_arrow_schema(&a, OnMissing::Error) };
                    let unsafe_names = reparse_class(a.fields().iter().map(|f| f.name().clone()));
                    match r {
                        Ok(p) => proj = p,
                        Err(e) => {
                            if unsafe_names {
                                known_or_fail!(env, obs, K_REPARSE, "toplevel-name-reparsed", "{what}: failed on a sub-schema of the base: {e}");
                                return Ok(s);
                            }
                            fail!("projection-arrow-schema-error", "{what}: failed on a sub-schema of the base: {e}");
                        }
                    }
                    if unsafe_names {
                        reparse_hit = true;
                    }
                    if union {
                        s.extend(sel);
                    } else {
                        s = s.difference(&sel).copied().collect();
                    }
                }
                PStep::UnionProj(ps) | PStep::SubtractProj(ps) | PStep::Intersect(ps) => {
                    let (set, paths) = cols_set(ps);
                    let other = match Projection::empty(basearc.clone()).union_columns(&paths, OnMissing::Error) {
                        Ok(p) => p,
                        Err(e) => fail!("projection-union-column-error", "{what}: union_columns({paths:?}) failed: {e}"),
                    };
                    match st {
                        PStep::UnionProj(_) => {
                            proj = proj.union_projection(&other);
                            s.extend(set);
                        }
                        PStep::SubtractProj(_) => {
                            proj = proj.subtract_projection(&other);
                            s = s.difference(&set).copied().collect();
                        }
                        _ => {
                            proj = proj.intersect(&other);
                            s = s.intersection(&set).copied().collect();
                            row_id = false;
                            row_addr = false;
                        }
                    }
                }
                PStep::UnionPred(p) | PStep::SubtractPred(p) => {
                    let idset: BTreeSet<i32> = match p {
                        Pred::IdIn(fr) => fr.iter().map(|f| ctx.nodes[idx(*f, n)].id).collect(),
                        _ => BTreeSet::new(),
                    };
                    let hit: Set = (0..n).filter(|i| eval_pred_model(ctx, p, *i, &idset)).collect();
                    if matches!(st, PStep::UnionPred(_)) {
                        proj = proj.union_predicate(|f| eval_pred_lance(p, f, &idset));
                        s.extend(hit);
                    } else {
                        proj = proj.subtract_predicate(|f| eval_pred_lance(p, f, &idset));
                        s = s.difference(&hit).copied().collect();
                    }
                }
                PStep::RowId => {
                    proj = match proj.union_column("_rowid", OnMissing::Error) {
                        Ok(p) => p,
                        Err(e) => fail!("projection-union-column-error", "{what}: {e}"),
                    };
                    row_id = true;
                }
                PStep::RowAddr => {
                    proj = proj.with_row_addr();
                    row_addr = true;
                }
            }
            let got: BTreeSet<i32> = proj.field_ids.iter().copied().collect();
            let want = ctx.ids(&s);
            if got != want {
                if reparse_hit {
                    known_or_fail!(env, obs, K_REPARSE, "toplevel-name-reparsed", "{what}: field ids {got:?}, set model {want:?}");
                    return Ok(s);
                }
                fail!("projection-set", "{what}: field ids {got:?}, set model {want:?}; model {}", model_short(ctx));
            }
            ensure!(proj.with_row_id == row_id && proj.with_row_addr == row_addr, "projection-row-flags", "{what}: row id/addr flags {}/{} expected {row_id}/{row_addr}", proj.with_row_id, proj.with_row_addr);
            ensure!(proj.is_empty() == (s.is_empty() && !row_id && !row_addr), "projection-is-empty", "{what}: is_empty() = {}", proj.is_empty());
            ensure!(proj.has_data_fields() == !s.is_empty(), "projection-has-data-fields", "{what}: has_data_fields() = {}", proj.has_data_fields());
        }
        // materialise
        if let Some(h) = ctx.hollow(&s) {
            obs.label("projection-hollow-struct");
            let r = catch_unwind(AssertUnwindSafe(|| proj.to_bare_schema()));
            match r {
                Err(_) => known_or_fail!(
                    env,
                    obs,
                    K_HOLLOW,
                    "projection-hollow-struct-panic",
                    "op#{oi}: projection {:?} (reached through {steps:?}) selects nested field {} without any of its children; to_bare_schema() panics",
                    ctx.ids(&s),
                    ctx.nodes[h].id
                ),
                Ok(sch) => {
                    // either reading (struct kept empty, or dropped) is a set result; everything else must be the up-closure
                    let got: BTreeSet<i32> = sch.field_ids().into_iter().collect();
                    let full = ctx.ids(&ctx.upclose(&s));
                    ensure!(got.is_subset(&full), "projection-to-schema-set", "op#{oi}: to_bare_schema has ids {got:?} outside {full:?}");
                }
            }
            return Ok(s);
        }
        let bare = proj.to_bare_schema();
        let expected = ctx.upclose(&s);
        check_sub(ctx, &bare, &expected, "projection-to-schema").map_err(|f| Failure::new(f.kind, format!("op#{oi} steps {steps:?}: {}", f.msg)))?;
        let full = proj.to_schema();
        let extra: Vec<&str> = full.fields.iter().filter(|f| f.id < 0).map(|f| f.name.as_str()).collect();
        let mut want_extra = vec![];
        if row_id {
            want_extra.push("_rowid");
        }
        if row_addr {
            want_extra.push("_rowaddr");
        }
        ensure!(extra == want_extra, "projection-row-columns", "op#{oi}: to_schema() has extra columns {extra:?}, expected {want_extra:?}");
        ensure!(full.fields.len() == bare.fields.len() + want_extra.len(), "projection-row-columns", "op#{oi}: to_schema() field count");
        if start_full && steps.is_empty() {
            ensure!(bare.fields == ctx.base.fields, "projection-full", "Projection::full is not the base schema");
        }
        Ok(s)
    }
}
