//! C03 (serialisability), C04 (no lost updates), C24 (index coverage under races).
//!
//! Concurrency is produced deterministically: a step marked `stale` runs on a
//! handle checked out at one of the last four versions with lance's own
//! retries off, i.e. the transaction is *executed at r* and *committed now*.
//! A run of consecutive stale steps is a batch of concurrent transactions
//! committed in the generated order.

use super::hist::*;
use crate::engine::*;
use crate::store::VStore;
use crate::world::*;
use futures::FutureExt;
use proptest::prelude::*;
use serde::{Deserialize, Serialize};
use std::collections::{BTreeMap, BTreeSet};

#[derive(Clone, Copy, PartialEq, Eq, Debug)]
pub enum Mode {
    C03,
    C04,
    C24,
}

#[derive(Clone, Debug, PartialEq, Eq, Serialize, Deserialize)]
pub struct Input {
    pub hist: HistInput,
    /// literal seeds for the indexed-query panel (C24)
    pub probes: Vec<u16>,
}

fn op_mix(mode: Mode) -> BoxedStrategy<Op> {
    match mode {
        Mode::C03 => any_op(),
        Mode::C04 => prop_oneof![2 => op_append(), 5 => op_delete(), 5 => op_update(), 5 => op_merge(), 1 => op_compact()].boxed(),
        Mode::C24 => prop_oneof![2 => op_append(), 2 => op_delete(), 5 => op_update(), 4 => op_merge(), 3 => op_compact(), 6 => op_create_index(), 2 => (0u8..3).prop_map(|mode| Op::OptimizeIndices { mode })].boxed(),
    }
}

fn strategy(mode: Mode) -> BoxedStrategy<Input> {
    let (steps, stale) = match mode {
        Mode::C03 => (10, 55),
        Mode::C04 => (8, 60),
        Mode::C24 => (8, 50),
    };
    (hist_strategy(COMMON_TYPES, V2_STORAGES, op_mix(mode), steps, stale), prop::collection::vec(0u16..40, 3..7))
        .prop_map(move |(mut hist, probes)| {
            // several fragments and some rows to fight over
            if hist.initial.len() < 4 {
                let extra: Vec<RowSeed> = (0..6).map(|i| RowSeed(vec![(i * 3 + 1) as u16; ROW_WIDTH])).collect();
                hist.initial.extend(extra);
            }
            if hist.init_file_rows > 6 {
                hist.init_file_rows = 3;
            }
            if mode == Mode::C24 && probes[0] % 3 == 0 {
                // race core (a third of the cases): an index is built from a handle that has seen neither a new fragment
                // nor the in-place rewrite of its column in an old and in the new fragment, and commits after both
                let ncols = hist.cfg.cols.len();
                let seed = |k: u16| RowSeed(vec![probes[0].wrapping_mul(7).wrapping_add(k); ROW_WIDTH]);
                hist.steps.push(Step { op: Op::Append { rows: vec![seed(1), seed(2)], splits: vec![], max_rows_per_file: 1000 }, stale: None });
                hist.steps.push(Step {
                    op: Op::Merge(MergeSpec {
                        key: ncols as u8, // uid
                        src: vec![(seed(3), Some(0)), (seed(4), Some(65535)), (seed(5), Some(30000))],
                        matched: 0,
                        insert_not_matched: false,
                        by_source: 0,
                        by_source_pred: RawPred::IsNull { col: 0 },
                        partial: Some(if ncols >= 3 { vec![0, 1] } else { vec![0] }),
                        use_index: false,
                    }),
                    stale: None,
                });
                hist.steps.push(Step { op: Op::CreateIndex { col: 0, kind: (probes[0] % 2) as u8, replace: true }, stale: Some(20000) });
            }
            Input { hist, probes }
        })
        .boxed()
}

pub async fn run(mode: Mode, input: &Input, obs: &mut Obs, env: &Env) -> CheckResult {
    let store = VStore::new();
    let h = &input.hist;
    let mut w = match World::create(store, "t", &h.cfg, &h.initial, h.init_file_rows as usize).await {
        Ok(w) => w,
        Err(_) => {
            obs.rejected += 1;
            return Ok(());
        }
    };
    // C03 reports the append-vs-non-nullable-add race itself (known finding); elsewhere it is excluded
    if mode == Mode::C03 {
        w.allow_nonnull_add_race = env.strict || !env.known("C03-append-vs-nonnull-add");
    }
    // per version: uids whose rows the creating transaction deleted or rewrote
    let mut affected: BTreeMap<u64, BTreeSet<i64>> = BTreeMap::new();
    let mut rebased = 0;
    let mut conflicts = 0;
    let mut intersecting_batches = 0;
    let mut race_on_indexed_col = false;
    let mut shapes: Vec<String> = vec![];
    for (i, step) in h.steps.iter().enumerate() {
        let before = w.latest;
        let known_before: Vec<u64> = w.versions.keys().copied().collect();
        let indices_before = w.state().indices.clone();
        let out = match w.apply(step, obs).await {
            Ok(o) => o,
            Err(f) => {
                if f.kind == "panic" && f.msg.contains("is declared as non-nullable but contains null values") && mode == Mode::C03 {
                    return Err(Failure::new("append-vs-nonnull-add", format!("step {i} ({}): rows written at an older schema lack a concurrently added non-nullable column; the table can no longer be scanned: {}", step.op.kind(), truncate_str(&f.msg, 200))));
                }
                return Err(Failure::new(f.kind, format!("step {i} ({}): {}", step.op.kind(), f.msg)));
            }
        };
        let what = format!("after step {i} ({}{})", step.op.kind(), if step.stale.is_some() { "*" } else { "" });
        match out {
            StepOutcome::Committed { new_version, rebased: was_rebased } => {
                let st = w.state().clone();
                let r = match std::panic::AssertUnwindSafe(verify_state(&w.ds, &st, &what)).catch_unwind().await {
                    Ok(r) => r,
                    Err(p) => {
                        let m = p.downcast_ref::<String>().cloned().or_else(|| p.downcast_ref::<&str>().map(|s| s.to_string())).unwrap_or_default();
                        Err(Failure::new("panic", format!("{what}: scan panicked: {m}")))
                    }
                };
                if let Err(f) = r {
                    if mode == Mode::C03 && f.msg.contains("non-nullable but contains null") {
                        return Err(Failure::new("append-vs-nonnull-add", f.msg));
                    }
                    return Err(Failure::new(if was_rebased { format!("rebased:{}", f.kind) } else { f.kind }, f.msg));
                }
                let e = w.last_effect.clone().unwrap_or_default();
                let mut mine: BTreeSet<i64> = e.delete.iter().copied().collect();
                mine.extend(e.update.keys().copied());
                if was_rebased {
                    rebased += 1;
                    // the read version: the engine picked it among the last 4 known versions
                    let lo = known_before.len().saturating_sub(3);
                    let read = known_before[lo + idx(step.stale.unwrap_or(0), known_before.len() - lo)];
                    // C04: no committed transaction since `read` touched a row this one touches
                    let mut overlap = false;
                    for v in (read + 1)..=before {
                        if let Some(a) = affected.get(&v) {
                            let common: Vec<&i64> = a.intersection(&mine).collect();
                            if !common.is_empty() {
                                overlap = true;
                                if mode == Mode::C04 || mode == Mode::C03 {
                                    return Err(Failure::new(
                                        "lost-update",
                                        format!("{what}: committed as v{new_version} from read version {read} although v{v} (committed in between) modified the same rows (uids {:?})", common),
                                    ));
                                }
                            }
                        }
                    }
                    if overlap {
                        intersecting_batches += 1;
                    }
                    shapes.push(format!("{}@{}", step.op.kind(), before - read));
                    // C24: did this or the interleaved transactions rewrite an indexed column?
                    if !indices_before.is_empty() && matches!(step.op, Op::Update { .. } | Op::Merge(_) | Op::CreateIndex { .. } | Op::OptimizeIndices { .. } | Op::Compact { .. }) {
                        race_on_indexed_col = true;
                    }
                }
                affected.insert(new_version, mine);
                if mode == Mode::C24 || mode == Mode::C03 {
                    check_indexed_queries(&w.ds, &st, &input.probes, false, obs, &what).await?;
                }
            }
            StepOutcome::Rejected(msg) => {
                if step.stale.is_some() {
                    conflicts += 1;
                    let lower = msg.to_lowercase();
                    if lower.contains("conflict") || lower.contains("contention") || lower.contains("preempted") || lower.contains("retry") {
                        obs.label("retryable-conflict");
                    } else {
                        obs.label(format!("stale-rejected-other:{}", step.op.kind()));
                    }
                }
                // a failed transaction has no visible effect
                let st = w.state().clone();
                verify_state(&w.ds, &st, &format!("{what} [rejected: {}]", truncate_str(&msg, 80))).await.map_err(|f| Failure::new(format!("failed-txn-visible:{}", f.kind), f.msg))?;
            }
            StepOutcome::NoOp => {}
        }
    }
    obs.label(format!("rebased-{}", rebased.min(5)));
    obs.label(format!("conflicts-{}", conflicts.min(5)));
    let _ = intersecting_batches;
    let nontrivial = match mode {
        Mode::C03 => rebased >= 1,
        Mode::C04 => conflicts + rebased >= 2,
        Mode::C24 => rebased >= 1 && race_on_indexed_col,
    };
    if nontrivial {
        obs.nontrivial(format!("{}|{}", op_kinds(&h.steps), shapes.join(",")));
    }
    Ok(())
}

pub struct C03;
pub struct C04;
pub struct C24;

impl Property for C03 {
    type Input = Input;
    fn id(&self) -> &'static str {
        "C03"
    }
    fn rule(&self) -> String {
        "Histories of 1-9 ops from the full op set (append, overwrite, delete, update, merge_insert, compaction with/without deferred remap, index create/drop/optimize, add/drop/alter column, config update, restore, tags) where 55% of the steps run on a stale handle (read version among the last four) with retries off: the transaction is executed at r and committed after the transactions published since r. Oracle: model-based serial replay - a transaction that returns Ok must leave exactly (effect computed on the model at r) applied on top of the model's latest state (multiset by uid over all columns, schema, config), indexed and un-indexed scans agree; one that returns Err must leave the latest version's contents unchanged; two committed concurrent transactions never both modify the same row. Non-trivial = >=1 transaction committed with r < latest (a real rebase); distinct by op-kind sequence + (op, distance to read version) of the rebased commits.".into()
    }
    fn assumptions(&self) -> Vec<String> {
        vec![
            "interleavings are at commit granularity: lance writers share nothing but storage, and all rebase/conflict logic depends only on the transactions committed since the read version".into(),
            "reserve-fragments and data-replacement transactions built by hand are not generated".into(),
        ]
    }
    fn cases(&self, tier: Tier) -> u32 {
        tier.pick(1200, 24000)
    }
    fn max_shrink_iters(&self) -> u32 {
        200
    }
    fn strategy(&self, _tier: Tier) -> BoxedStrategy<Input> {
        strategy(Mode::C03)
    }
    fn check(&self, input: &Input, obs: &mut Obs, env: &Env) -> CheckResult {
        env.block_on(run(Mode::C03, input, obs, env))
    }
}

impl Property for C04 {
    type Input = Input;
    fn id(&self) -> &'static str {
        "C04"
    }
    fn rule(&self) -> String {
        "Tables with >=6 rows in several fragments; histories of 1-7 ops from {append, delete, update (rewrite rows), merge_insert (full schema = rewrite rows, sub-schema = rewrite columns; update and delete clauses), compaction}, 60% on a stale handle with retries off, stable row ids on/off. For every committed stale transaction the set of uids it deleted or rewrote (computed by the model at its read version) must be disjoint from the sets of all transactions committed since its read version; the final table equals the model (no resurrected row, no row present as old and new image); a failed transaction leaves the table unchanged. Non-trivial = >=2 stale transactions were attempted (committed or conflicted); distinct by op-kind sequence.".into()
    }
    fn cases(&self, tier: Tier) -> u32 {
        tier.pick(1500, 30000)
    }
    fn max_shrink_iters(&self) -> u32 {
        200
    }
    fn strategy(&self, _tier: Tier) -> BoxedStrategy<Input> {
        strategy(Mode::C04)
    }
    fn check(&self, input: &Input, obs: &mut Obs, env: &Env) -> CheckResult {
        env.block_on(run(Mode::C04, input, obs, env))
    }
}

impl Property for C24 {
    type Input = Input;
    fn id(&self) -> &'static str {
        "C24"
    }
    fn rule(&self) -> String {
        "Tables with several fragments and BTree/Bitmap indices on non-nullable columns; histories of 1-7 ops from {create_index (replace on/off), optimize_indices, update (rewrite rows), merge_insert incl. sub-schema sources that rewrite the indexed column in place, compaction, append, delete}, 50% on a stale handle (so index creation/optimisation races with column-rewriting writes in both commit orders); a third of the cases end with a forced race core: append of a new fragment, a sub-schema merge_insert on uid that rewrites the first column(s) in place for rows of an old and of the new fragment, then create_index from a handle that has seen neither. After every commit, for every indexed column a panel of =,<,<=,>,>=,BETWEEN,IN,IS NULL predicates with generated literals must return the same uid set with use_scalar_index(true), with use_scalar_index(false) and in the model (which knows the new values). Non-trivial = a rebased commit of an index op or a write while an index existed; distinct by op-kind sequence.".into()
    }
    fn cases(&self, tier: Tier) -> u32 {
        tier.pick(1000, 20000)
    }
    fn max_shrink_iters(&self) -> u32 {
        200
    }
    fn strategy(&self, _tier: Tier) -> BoxedStrategy<Input> {
        strategy(Mode::C24)
    }
    fn check(&self, input: &Input, obs: &mut Obs, env: &Env) -> CheckResult {
        env.block_on(run(Mode::C24, input, obs, env))
    }
}
