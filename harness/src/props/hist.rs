//! Shared input type and strategy for history-based properties.
use crate::world::*;
use proptest::prelude::*;
use serde::{Deserialize, Serialize};

#[derive(Clone, Debug, PartialEq, Eq, Serialize, Deserialize)]
pub struct HistInput {
    pub cfg: TableCfg,
    pub initial: Vec<RowSeed>,
    pub init_file_rows: u16,
    pub steps: Vec<Step>,
}

/// indices into ColType::ALL
pub const SCALAR_TYPES: &[u8] = &[0, 1, 2, 3, 4, 5, 6, 7, 8, 9, 10, 11, 12, 13, 14];
pub const COMMON_TYPES: &[u8] = &[2, 3, 0, 9, 8, 10, 12];
/// storage versions 2.0, 2.1, 2.2
pub const V2_STORAGES: &[u8] = &[1, 2, 3];
pub const ALL_STORAGES: &[u8] = &[0, 1, 2, 3];

pub fn hist_strategy(types: &'static [u8], storages: &'static [u8], op: BoxedStrategy<Op>, max_steps: usize, stale_weight: u32) -> BoxedStrategy<HistInput> {
    (
        table_cfg(types, storages),
        prop::collection::vec(row_seed(), 0..16),
        prop_oneof![Just(3u16), Just(6), Just(1000)],
        prop::collection::vec(step_of(op, stale_weight), 1..max_steps),
    )
        .prop_map(|(cfg, initial, init_file_rows, steps)| HistInput { cfg, initial, init_file_rows, steps })
        .boxed()
}

pub fn op_kinds(steps: &[Step]) -> String {
    steps.iter().map(|s| if s.stale.is_some() { format!("{}*", s.op.kind()) } else { s.op.kind().to_string() }).collect::<Vec<_>>().join(",")
}
