use crate::engine::{Adapter, DynProp};
use std::sync::Arc;

pub mod c01;
pub mod c05;
pub mod c06;
pub mod c11;
pub mod c12;
pub mod c13;
pub mod c14;
pub mod c15;
pub mod c16;
pub mod c19;
pub mod c20;
pub mod c21;
pub mod c22;
pub mod c23;
pub mod c02;
pub mod c08;
pub mod c09;
pub mod c10;
pub mod c25;
pub mod c26;
pub mod c27;
pub mod c28;
pub mod c29;
pub mod c30;
pub mod c31;
pub mod c32;
pub mod c33;
pub mod c34;
pub mod c35;
pub mod c36;
pub mod c37;
pub mod c38;
pub mod c39;
pub mod c40;
pub mod c41;
pub mod c42;
pub mod c43;
pub mod conc;
pub mod hist;
pub mod rowmeta;

pub fn registry() -> Vec<Box<dyn DynProp>> {
    vec![
        Box::new(Adapter(Arc::new(c01::C01))),
        Box::new(Adapter(Arc::new(c05::C05))),
        Box::new(Adapter(Arc::new(c06::C06))),
        Box::new(Adapter(Arc::new(c12::C12))),
        Box::new(Adapter(Arc::new(c15::C15))),
        Box::new(Adapter(Arc::new(c16::C16))),
        Box::new(Adapter(Arc::new(rowmeta::C07))),
        Box::new(Adapter(Arc::new(rowmeta::C17))),
        Box::new(Adapter(Arc::new(rowmeta::C18))),
        Box::new(Adapter(Arc::new(c13::C13))),
        Box::new(Adapter(Arc::new(c14::C14))),
        Box::new(Adapter(Arc::new(conc::C03))),
        Box::new(Adapter(Arc::new(conc::C04))),
        Box::new(Adapter(Arc::new(conc::C24))),
        Box::new(Adapter(Arc::new(c19::C19))),
        Box::new(Adapter(Arc::new(c21::C21))),
        Box::new(Adapter(Arc::new(c22::C22))),
        Box::new(Adapter(Arc::new(c23::C23))),
        Box::new(Adapter(Arc::new(c11::C11))),
        Box::new(Adapter(Arc::new(c20::C20))),
        Box::new(Adapter(Arc::new(c29::C29))),
        Box::new(Adapter(Arc::new(c02::C02))),
        Box::new(Adapter(Arc::new(c08::C08))),
        Box::new(Adapter(Arc::new(c09::C09))),
        Box::new(Adapter(Arc::new(c10::C10))),
        Box::new(Adapter(Arc::new(c25::C25))),
        Box::new(Adapter(Arc::new(c26::C26))),
        Box::new(Adapter(Arc::new(c27::C27))),
        Box::new(Adapter(Arc::new(c28::C28))),
        Box::new(Adapter(Arc::new(c30::C30))),
        Box::new(Adapter(Arc::new(c31::C31))),
        Box::new(Adapter(Arc::new(c32::C32))),
        Box::new(Adapter(Arc::new(c33::C33))),
        Box::new(Adapter(Arc::new(c34::C34))),
        Box::new(Adapter(Arc::new(c35::C35))),
        Box::new(Adapter(Arc::new(c36::C36))),
        Box::new(Adapter(Arc::new(c37::C37))),
        Box::new(Adapter(Arc::new(c38::C38))),
        Box::new(Adapter(Arc::new(c39::C39))),
        Box::new(Adapter(Arc::new(c40::C40))),
        Box::new(Adapter(Arc::new(c41::C41))),
        Box::new(Adapter(Arc::new(c42::C42))),
        Box::new(Adapter(Arc::new(c43::C43))),
    ]
}
