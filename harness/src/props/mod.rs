use crate::engine::{Adapter, DynProp};
use std::sync::Arc;

pub mod c05;
pub mod c21;
pub mod c34;
pub mod hist;

pub fn registry() -> Vec<Box<dyn DynProp>> {
    vec![
        Box::new(Adapter(Arc::new(c05::C05))),
        Box::new(Adapter(Arc::new(c21::C21))),
        Box::new(Adapter(Arc::new(c34::C34))),
    ]
}
