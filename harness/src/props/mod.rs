use crate::engine::{Adapter, DynProp};
use std::sync::Arc;

pub mod c21;
pub mod c34;

pub fn registry() -> Vec<Box<dyn DynProp>> {
    vec![
        Box::new(Adapter(Arc::new(c21::C21))),
        Box::new(Adapter(Arc::new(c34::C34))),
    ]
}
