//! C07 (restore), C17 (version columns / change data feed), C18 (stable row ids):
//! three properties over the same kind of history on stable-row-id tables.
//! The uid column is the row identity: merge_insert is keyed on uid only, so an
//! updated row keeps its uid and must keep its row id.

use super::hist::*;
use crate::engine::*;
use crate::model::*;
use crate::store::VStore;
use crate::world::*;
use arrow_array::{Array, Int64Array, RecordBatch};
use futures::TryStreamExt;
use lance::dataset::ProjectionRequest;
use proptest::prelude::*;
use std::collections::{BTreeMap, BTreeSet, HashMap};

#[derive(Clone, Copy, PartialEq, Eq, Debug)]
pub enum Mode {
    C07,
    C17,
    C18,
}

#[derive(Clone, Debug, PartialEq, Eq)]
struct Meta {
    created: u64,
    updated: u64,
}

fn op_mix(mode: Mode) -> BoxedStrategy<Op> {
    let restore = any::<u16>().prop_map(|v| Op::Restore { v });
    match mode {
        Mode::C07 => prop_oneof![5 => op_append(), 2 => op_delete(), 3 => op_update(), 3 => op_merge(), 2 => op_compact(), 4 => restore, 1 => op_create_index(), 1 => op_overwrite()].boxed(),
        Mode::C17 => prop_oneof![5 => op_append(), 2 => op_delete(), 4 => op_update(), 5 => op_merge(), 2 => op_compact(), 1 => restore].boxed(),
        Mode::C18 => prop_oneof![5 => op_append(), 3 => op_delete(), 4 => op_update(), 4 => op_merge(), 3 => op_compact(), 1 => restore, 1 => op_create_index()].boxed(),
    }
}

fn strategy(mode: Mode) -> BoxedStrategy<HistInput> {
    let stale = match mode {
        Mode::C07 => 0,
        Mode::C17 => 8,
        Mode::C18 => 12,
    };
    (hist_strategy(COMMON_TYPES, V2_STORAGES, op_mix(mode), 8, stale), op_append(), op_append(), any::<u16>(), prop::bool::weighted(0.7))
        .prop_map(move |(mut h, a1, a2, v, with_core)| {
            if mode == Mode::C07 && with_core {
                // guaranteed shape: rows inserted, a restore of an earlier version, rows inserted again
                let split = h.steps.len() / 2;
                let tail: Vec<Step> = h.steps.split_off(split);
                h.steps.push(Step { op: a1, stale: None });
                h.steps.push(Step { op: Op::Restore { v: v / 2 }, stale: None });
                h.steps.push(Step { op: a2, stale: None });
                h.steps.extend(tail);
            }
            // C17 and C18 are about stable row ids; C07 covers both settings
            if mode != Mode::C07 {
                h.cfg.stable_row_ids = true;
            }
            // several fragments from the start
            if h.init_file_rows > 6 {
                h.init_file_rows = 3;
            }
            h
        })
        .boxed()
}

async fn delta_uids(ds: &lance::Dataset, begin: u64, end: u64) -> Result<(BTreeSet<i64>, BTreeSet<i64>), String> {
    let at_end = ds.checkout_version(end).await.map_err(|e| e.to_string())?;
    let delta = at_end.delta().with_begin_version(begin).with_end_version(end).build().map_err(|e| e.to_string())?;
    let collect = |batches: Vec<RecordBatch>| -> Result<BTreeSet<i64>, String> {
        let mut s = BTreeSet::new();
        for b in &batches {
            let u = b.column_by_name(UID).and_then(|c| c.as_any().downcast_ref::<Int64Array>().cloned()).ok_or_else(|| format!("delta batch lacks uid: {:?}", b.schema()))?;
            for i in 0..u.len() {
                if !s.insert(u.value(i)) {
                    return Err(format!("uid {} reported twice in one delta", u.value(i)));
                }
            }
        }
        Ok(s)
    };
    let ins: Vec<RecordBatch> = delta.get_inserted_rows().await.map_err(|e| e.to_string())?.try_collect().await.map_err(|e| e.to_string())?;
    let upd: Vec<RecordBatch> = delta.get_updated_rows().await.map_err(|e| e.to_string())?.try_collect().await.map_err(|e| e.to_string())?;
    Ok((collect(ins)?, collect(upd)?))
}

pub async fn run(mode: Mode, input: &HistInput, obs: &mut Obs, env: &Env) -> CheckResult {
    let store = VStore::new();
    let mut w = match World::create(store, "t", &input.cfg, &input.initial, input.init_file_rows as usize).await {
        Ok(w) => w,
        Err(_) => {
            obs.rejected += 1;
            return Ok(());
        }
    };
    w.merge_on_uid_only = true;
    let stable = input.cfg.stable_row_ids;
    // expected version metadata per version
    let mut meta: BTreeMap<u64, BTreeMap<i64, Meta>> = BTreeMap::new();
    let v0 = w.latest;
    meta.insert(v0, w.state().rows.iter().map(|r| (r.uid, Meta { created: v0, updated: v0 })).collect());
    // observed row ids per version, and the global binding row id -> uid
    let mut ids_at: BTreeMap<u64, BTreeMap<i64, u64>> = BTreeMap::new();
    let mut binding: HashMap<u64, i64> = HashMap::new();
    let mut extras: BTreeMap<u64, Vec<(String, String)>> = BTreeMap::new();
    let mut nt: BTreeSet<&'static str> = BTreeSet::new();
    let mut moved: BTreeSet<i64> = BTreeSet::new(); // uids that were compacted or updated already
    let mut restored = false;
    let mut inserted_between_and_after = (false, false);

    async fn observe(w: &World, stable: bool) -> Result<BTreeMap<i64, (u64, Option<u64>, Option<u64>)>, Failure> {
        if !stable {
            return Ok(BTreeMap::new());
        }
        let rows = scan_meta(&w.ds).await.map_err(|m| Failure::new("meta-scan-error", m))?;
        let mut out = BTreeMap::new();
        let mut seen = BTreeSet::new();
        for (uid, rid, c, u) in rows {
            if !seen.insert(rid) {
                return Err(Failure::new("duplicate-row-id", format!("v{}: row id {rid} is visible twice", w.latest)));
            }
            out.insert(uid, (rid, c, u));
        }
        Ok(out)
    }
    async fn index_list(ds: &lance::Dataset) -> Vec<(String, String)> {
        use lance_index::DatasetIndexExt;
        let mut v: Vec<(String, String)> = ds.load_indices().await.map(|i| i.iter().map(|x| (x.name.clone(), x.uuid.to_string())).collect()).unwrap_or_default();
        v.sort();
        v
    }

    let o = observe(&w, stable).await?;
    ids_at.insert(v0, o.iter().map(|(u, x)| (*u, x.0)).collect());
    for (u, x) in &o {
        binding.insert(x.0, *u);
    }
    extras.insert(v0, index_list(&w.ds).await);

    for (i, step) in input.steps.iter().enumerate() {
        let prev_v = w.latest;
        let out = w.apply(step, obs).await.map_err(|f| Failure::new(f.kind, format!("step {i} ({}): {}", step.op.kind(), f.msg)))?;
        let StepOutcome::Committed { new_version: v, rebased } = out else {
            // a rejected compaction may still have published reservation versions (contents = pre-state)
            for x in (prev_v + 1)..=w.latest {
                let m = meta[&prev_v].clone();
                meta.insert(x, m);
                if let Some(p) = ids_at.get(&prev_v).cloned() {
                    ids_at.insert(x, p);
                }
                let ex = extras[&prev_v].clone();
                extras.insert(x, ex);
            }
            continue;
        };
        let what = format!("after step {i} ({}{}) = v{v}", step.op.kind(), if rebased { ", rebased" } else { "" });
        let st = w.state().clone();
        verify_state(&w.ds, &st, &what).await?;
        let e = w.last_effect.clone().unwrap_or_default();
        extras.insert(v, index_list(&w.ds).await);

        // ---- expected metadata ----
        let prev = meta[&prev_v].clone();
        let mut cur: BTreeMap<i64, Meta>;
        if let Some(target) = e.restore {
            cur = meta[&target].clone();
            restored = true;
            // C07: the restored version equals the old one, including the index list
            if extras[&v].iter().map(|x| &x.0).collect::<Vec<_>>() != extras[&target].iter().map(|x| &x.0).collect::<Vec<_>>() {
                return Err(Failure::new("restore-index-list", format!("{what}: restored v{target} has indices {:?}, the new version has {:?}", extras[&target], extras[&v])));
            }
            if stable {
                let flag = w.ds.manifest().uses_stable_row_ids();
                if !flag {
                    if env.known("C07-restore-empty-drops-stable-row-ids") && st.rows.is_empty() {
                        obs.known_hit("C07-restore-empty-drops-stable-row-ids", what.clone());
                        return Ok(());
                    }
                    return Err(Failure::new(if st.rows.is_empty() { "restore-drops-stable-row-id-flag" } else { "restore-drops-stable-row-id-flag-nonempty" }, format!("{what}: the table was created with stable row ids; after restoring v{target} the manifest no longer uses them")));
                }
            }
            nt.insert("restore");
        } else if e.overwrite.is_some() {
            cur = st.rows.iter().map(|r| (r.uid, Meta { created: v, updated: v })).collect();
        } else {
            cur = prev.clone();
            for u in &e.delete {
                cur.remove(u);
            }
            for (u, newrow) in &e.update {
                if let Some(m) = cur.remove(u) {
                    cur.insert(newrow.uid, Meta { created: m.created, updated: v });
                    if moved.contains(u) {
                        nt.insert("update-of-moved-row");
                    }
                    moved.insert(newrow.uid);
                    if m.created > v0 {
                        nt.insert("update-of-row-created-later");
                    }
                }
            }
            for r in &e.insert {
                cur.insert(r.uid, Meta { created: v, updated: v });
                if restored {
                    inserted_between_and_after.1 = true;
                } else {
                    inserted_between_and_after.0 = true;
                }
            }
            if e.kind == "compact" {
                for u in cur.keys() {
                    moved.insert(*u);
                }
                nt.insert("compact");
            }
        }
        // intermediate (reservation) versions
        for x in (prev_v + 1)..v {
            meta.insert(x, prev.clone());
            if let Some(p) = ids_at.get(&prev_v).cloned() {
                ids_at.insert(x, p);
            }
            extras.insert(x, extras[&prev_v].clone());
        }
        meta.insert(v, cur.clone());

        if !stable {
            continue;
        }
        // ---- observed ----
        let o = observe(&w, stable).await.map_err(|f| Failure::new(f.kind, format!("{what}: {}", f.msg)))?;
        obs.inner += 1;
        let now_ids: BTreeMap<i64, u64> = o.iter().map(|(u, x)| (*u, x.0)).collect();
        ids_at.insert(v, now_ids.clone());

        // C18/C07: row id binding never changes; a surviving uid keeps its id
        if let Some(target) = e.restore {
            if ids_at[&target] != now_ids {
                return Err(Failure::new("restore-row-ids", format!("{what}: row ids after restore {:?} differ from v{target}'s {:?}", now_ids, ids_at[&target])));
            }
        } else if e.overwrite.is_none() {
            let before = &ids_at[&prev_v];
            for (u, rid) in &now_ids {
                // uid may have been replaced by an update that changed uid (not generated here), so lookup by uid
                if let Some(old) = before.get(u) {
                    if old != rid {
                        return Err(Failure::new("row-id-changed", format!("{what}: uid {u} had row id {old}, now {rid}")));
                    }
                }
            }
        }
        for (u, rid) in &now_ids {
            match binding.get(rid) {
                Some(old) if old != u => {
                    let kind = if restored { "row-id-reused-after-restore" } else { "row-id-reused" };
                    if kind == "row-id-reused-after-restore" && env.known("C07-restore-reuses-row-ids") {
                        obs.known_hit("C07-restore-reuses-row-ids", format!("{what}: row id {rid} was uid {old}, now uid {u}"));
                        return Ok(());
                    }
                    return Err(Failure::new(kind, format!("{what}: row id {rid} identified uid {old} in an earlier version and now identifies uid {u}")));
                }
                _ => {
                    binding.insert(*rid, *u);
                }
            }
        }

        if mode == Mode::C18 || mode == Mode::C07 {
            // looking a live row id up returns that row's current values
            let ids: Vec<u64> = o.values().map(|x| x.0).collect();
            if !ids.is_empty() {
                let names = {
                    let mut n = vec![UID.to_string()];
                    n.extend(st.schema.names());
                    n
                };
                let b = w.ds.take_rows(&ids, ProjectionRequest::from_columns(names.iter(), w.ds.schema())).await.map_err(|e2| Failure::new("take-rows-by-id-error", format!("{what}: {e2}")))?;
                let got = batches_to_rows(&[b], &st.schema.names()).map_err(|m| Failure::new("take-decode", m))?;
                let want: Vec<Row> = o.keys().map(|u| st.rows.iter().find(|r| r.uid == *u).cloned().unwrap_or(Row { uid: *u, vals: vec![] })).collect();
                if got != want {
                    return Err(Failure::new("row-id-lookup", format!("{what}: take_rows(all live row ids) returned {:?}, expected {:?}", got, want)));
                }
            }
            // ids of rows deleted by this step resolve to nothing
            let gone: Vec<u64> = e.delete.iter().filter_map(|u| ids_at[&prev_v].get(u).copied()).filter(|rid| !now_ids.values().any(|x| x == rid)).collect();
            if !gone.is_empty() {
                if let Ok(b) = w.ds.take_rows(&gone, ProjectionRequest::from_columns([UID], w.ds.schema())).await {
                    if b.num_rows() != 0 {
                        return Err(Failure::new("deleted-row-id-resolves", format!("{what}: row ids {gone:?} of deleted rows resolve to {} rows", b.num_rows())));
                    }
                }
            }
        }

        if mode == Mode::C17 {
            // version columns
            for (u, (rid, c, up)) in &o {
                let Some(m) = cur.get(u) else { return Err(Failure::new("meta-unknown-uid", format!("{what}: uid {u} visible but not in the model"))) };
                if *c != Some(m.created) {
                    let kind = if rebased { "created-at-version-rebased" } else { "created-at-version" };
                    if env.known("C17-created-at-after-update") && e.restore.is_none() {
                        obs.known_hit("C17-created-at-after-update", format!("{what}: uid {u} created {:?} expected {}", c, m.created));
                        return Ok(());
                    }
                    return Err(Failure::new(kind, format!("{what}: uid {u} (row id {rid}) reports _row_created_at_version {:?}, expected {}", c, m.created)));
                }
                if *up != Some(m.updated) {
                    let kind = if rebased { "updated-at-version-rebased" } else { "updated-at-version" };
                    if rebased && env.known("C17-updated-at-stale-after-rebase") {
                        obs.known_hit("C17-updated-at-stale-after-rebase", format!("{what}: uid {u} updated {:?} expected {}", up, m.updated));
                        return Ok(());
                    }
                    return Err(Failure::new(kind, format!("{what}: uid {u} (row id {rid}) reports _row_last_updated_at_version {:?}, expected {}", up, m.updated)));
                }
            }
        }
    }

    if mode == Mode::C17 && stable {
        // change data feed between all version pairs that share a lineage (no restore / overwrite in between is required by the model below)
        let versions: Vec<u64> = meta.keys().copied().collect();
        for (bi, b) in versions.iter().enumerate() {
            for e in versions.iter().skip(bi + 1) {
                let end_meta = &meta[e];
                let want_ins: BTreeSet<i64> = end_meta.iter().filter(|(_, m)| m.created > *b && m.created <= *e).map(|(u, _)| *u).collect();
                let want_upd: BTreeSet<i64> = end_meta.iter().filter(|(_, m)| m.created <= *b && m.updated > *b && m.updated <= *e).map(|(u, _)| *u).collect();
                match delta_uids(&w.ds, *b, *e).await {
                    Ok((ins, upd)) => {
                        obs.inner += 1;
                        if ins != want_ins {
                            return Err(Failure::new("delta-inserted", format!("delta({b},{e}) inserted rows {ins:?}, model {want_ins:?}")));
                        }
                        if upd != want_upd {
                            return Err(Failure::new("delta-updated", format!("delta({b},{e}) updated rows {upd:?}, model {want_upd:?}")));
                        }
                    }
                    Err(m) => return Err(Failure::new("delta-error", format!("delta({b},{e}): {m}"))),
                }
            }
        }
    }
    match mode {
        Mode::C07 => {
            if restored && inserted_between_and_after.0 && inserted_between_and_after.1 {
                obs.nontrivial(op_kinds(&input.steps));
            }
        }
        Mode::C17 => {
            if nt.contains("update-of-row-created-later") && w.ds.count_fragments() >= 1 {
                obs.nontrivial(op_kinds(&input.steps));
            }
        }
        Mode::C18 => {
            if nt.contains("update-of-moved-row") {
                obs.nontrivial(op_kinds(&input.steps));
            }
        }
    }
    for k in nt {
        obs.label(k);
    }
    Ok(())
}

pub struct C07;
pub struct C17;
pub struct C18;

impl Property for C07 {
    type Input = HistInput;
    fn id(&self) -> &'static str {
        "C07"
    }
    fn rule(&self) -> String {
        "Histories of 1-9 ops (append, delete, update, merge_insert on uid, compaction, restore(v) of a generated earlier version with weight 4, overwrite, index create) with stable row ids on and off. After a restore the new latest version must equal the model state of v (schema, rows, config), list the same index names as v and (stable row ids) show exactly v's uid->row id map and still use stable row ids; over the whole history the binding row id -> uid observed in any version's scan is never re-bound (ids handed out after a restore must be fresh); every live row id resolves to its row's current values. Non-trivial = a restore with rows inserted between v and the restore and more rows inserted after it; distinct by op-kind sequence.".into()
    }
    fn cases(&self, tier: Tier) -> u32 {
        tier.pick(900, 18000)
    }
    fn max_shrink_iters(&self) -> u32 {
        200
    }
    fn strategy(&self, _tier: Tier) -> BoxedStrategy<HistInput> {
        strategy(Mode::C07)
    }
    fn check(&self, input: &HistInput, obs: &mut Obs, env: &Env) -> CheckResult {
        env.block_on(run(Mode::C07, input, obs, env))
    }
}

impl Property for C17 {
    type Input = HistInput;
    fn id(&self) -> &'static str {
        "C17"
    }
    fn rule(&self) -> String {
        "Stable-row-id tables with >=2 fragments; histories of 1-9 ops (append, delete, update = rewrite rows, merge_insert on uid with full or sub-schema source = rewrite rows / rewrite columns, compaction, occasional restore; 8% on a stale handle). The model keeps per uid the creation version and last-update version per the documented rules; after every commit the scan of _rowid,_row_created_at_version,_row_last_updated_at_version must equal the model, and at the end delta(begin,end) for ALL version pairs must return exactly the model's inserted and updated-but-not-inserted uid sets. Non-trivial = an update/upsert of a row created after the first version; distinct by op-kind sequence.".into()
    }
    fn cases(&self, tier: Tier) -> u32 {
        tier.pick(900, 18000)
    }
    fn max_shrink_iters(&self) -> u32 {
        200
    }
    fn strategy(&self, _tier: Tier) -> BoxedStrategy<HistInput> {
        strategy(Mode::C17)
    }
    fn check(&self, input: &HistInput, obs: &mut Obs, env: &Env) -> CheckResult {
        env.block_on(run(Mode::C17, input, obs, env))
    }
}

impl Property for C18 {
    type Input = HistInput;
    fn id(&self) -> &'static str {
        "C18"
    }
    fn rule(&self) -> String {
        "Stable-row-id tables; histories of 1-9 ops (append, delete, update, merge_insert on uid, compaction, restore, index create; 12% on a stale handle = concurrent writers). After every commit: no two visible rows share a row id; a surviving uid keeps its row id (through updates, upserts and compaction); take_rows(all live ids) returns each row's current values; ids of rows deleted by the step resolve to nothing; a row id is never re-bound to another uid. Non-trivial = an update of a row that was already moved (compacted or updated before); distinct by op-kind sequence.".into()
    }
    fn cases(&self, tier: Tier) -> u32 {
        tier.pick(900, 18000)
    }
    fn max_shrink_iters(&self) -> u32 {
        200
    }
    fn strategy(&self, _tier: Tier) -> BoxedStrategy<HistInput> {
        strategy(Mode::C18)
    }
    fn check(&self, input: &HistInput, obs: &mut Obs, env: &Env) -> CheckResult {
        env.block_on(run(Mode::C18, input, obs, env))
    }
}
