//! Controlled in-memory object store (DESIGN §1.2).
//!
//! Data semantics are delegated to `object_store::memory::InMemory` (whose
//! futures never suspend); this wrapper adds: atomic native rename /
//! rename_if_not_exists, an exact call log, a counter of mutating calls, fault
//! plans (crash / fail before or after the effect), optional gates (every call
//! of a gated actor parks until released by a driver), object ages and listing
//! order under generator control, and snapshot / restore of the whole store.

use async_trait::async_trait;
use bytes::Bytes;
use futures::stream::BoxStream;
use futures::{FutureExt, StreamExt};
use lance_io::object_store::{ObjectStore as LanceObjectStore, ObjectStoreParams, ObjectStoreProvider, ObjectStoreRegistry};
use object_store::memory::InMemory;
use object_store::path::Path;
use object_store::{
    Error as OSError, GetOptions, GetResult, ListResult, MultipartUpload, ObjectMeta, ObjectStore, PutMultipartOptions, PutOptions, PutPayload, PutResult,
    Result as OSResult, UploadPart,
};
use serde::{Deserialize, Serialize};
use std::collections::{BTreeMap, HashMap, HashSet};
use std::sync::{Arc, Mutex};
use url::Url;

#[derive(Clone, Copy, Debug, PartialEq, Eq, Serialize, Deserialize)]
pub enum FaultKind {
    /// the call never happens; the caller is parked forever (process death)
    CrashBefore,
    /// the call is applied, then the caller is parked forever
    CrashAfter,
    /// the call fails and has no effect
    FailNoEffect,
    /// the call is applied but an error is returned ("lost response")
    FailAfterEffect,
}

#[derive(Clone, Debug)]
pub struct Fault {
    pub actor: Option<u32>,
    /// index of the mutating call (0-based, counted per actor since `arm`)
    pub k: u64,
    pub kind: FaultKind,
}

#[derive(Clone, Debug, PartialEq, Eq)]
pub struct Call {
    pub actor: u32,
    pub op: &'static str,
    pub path: String,
    pub to: Option<String>,
    pub mutating: bool,
    /// index among the actor's mutating calls, if mutating
    pub k: Option<u64>,
    pub outcome: &'static str,
}

#[derive(Clone, Copy, Debug, PartialEq, Eq, Serialize, Deserialize)]
pub enum ListOrder {
    Lexical,
    Reverse,
    /// deterministic shuffle keyed by the given value
    Shuffled(u64),
}

pub struct PendingGate {
    pub id: u64,
    pub actor: u32,
    pub op: &'static str,
    pub path: String,
    tx: Option<tokio::sync::oneshot::Sender<()>>,
}

struct State {
    log: Vec<Call>,
    log_enabled: bool,
    mutations: HashMap<u32, u64>,
    faults: Vec<Fault>,
    crashed: HashSet<u32>,
    crash_all: bool,
    ages: HashMap<Path, chrono::Duration>,
    list_order: ListOrder,
    gated: HashSet<u32>,
    pending: Vec<PendingGate>,
    next_gate: u64,
    /// first bytes ever visible at each path matching the watch predicate, and any later change
    watch_first: BTreeMap<String, Vec<u8>>,
    watch_violations: Vec<String>,
    watch_manifests: bool,
}

struct Shared {
    mem: Mutex<Arc<InMemory>>,
    st: Mutex<State>,
    crash_notify: tokio::sync::Notify,
    gate_notify: tokio::sync::Notify,
}

#[derive(Clone)]
pub struct VStore {
    sh: Arc<Shared>,
    pub actor: u32,
}

impl std::fmt::Debug for VStore {
    fn fmt(&self, f: &mut std::fmt::Formatter<'_>) -> std::fmt::Result {
        write!(f, "VStore(actor={})", self.actor)
    }
}

impl std::fmt::Display for VStore {
    fn fmt(&self, f: &mut std::fmt::Formatter<'_>) -> std::fmt::Result {
        write!(f, "VStore(actor={})", self.actor)
    }
}

pub struct Snapshot {
    mem: InMemory,
    ages: HashMap<Path, chrono::Duration>,
}

fn generic(msg: &str) -> OSError {
    OSError::Generic {
        store: "VStore",
        source: msg.to_string().into(),
    }
}

enum Pre {
    Go { k: Option<u64>, after: Option<(FaultKind, bool)> },
    Fail,
    Park,
}

impl VStore {
    pub fn new() -> Self {
        Self {
            sh: Arc::new(Shared {
                mem: Mutex::new(Arc::new(InMemory::new())),
                st: Mutex::new(State {
                    log: vec![],
                    log_enabled: false,
                    mutations: HashMap::new(),
                    faults: vec![],
                    crashed: HashSet::new(),
                    crash_all: false,
                    ages: HashMap::new(),
                    list_order: ListOrder::Lexical,
                    gated: HashSet::new(),
                    pending: vec![],
                    next_gate: 0,
                    watch_first: BTreeMap::new(),
                    watch_violations: vec![],
                    watch_manifests: false,
                }),
                crash_notify: tokio::sync::Notify::new(),
                gate_notify: tokio::sync::Notify::new(),
            }),
            actor: 0,
        }
    }

    /// a handle on the same store acting as another actor (writer / reader)
    pub fn as_actor(&self, actor: u32) -> Self {
        Self { sh: self.sh.clone(), actor }
    }

    fn mem(&self) -> Arc<InMemory> {
        self.sh.mem.lock().unwrap().clone()
    }

    // ---- control plane ---------------------------------------------------

    pub fn snapshot(&self) -> Snapshot {
        Snapshot {
            mem: self.mem().fork(),
            ages: self.sh.st.lock().unwrap().ages.clone(),
        }
    }

    pub fn restore(&self, s: &Snapshot) {
        *self.sh.mem.lock().unwrap() = Arc::new(s.mem.fork());
        self.sh.st.lock().unwrap().ages = s.ages.clone();
    }

    /// reset counters, faults, crash state, log
    pub fn disarm(&self) {
        let mut st = self.sh.st.lock().unwrap();
        st.faults.clear();
        st.crashed.clear();
        st.crash_all = false;
        st.mutations.clear();
        st.gated.clear();
        st.pending.clear();
    }

    pub fn arm(&self, faults: Vec<Fault>) {
        let mut st = self.sh.st.lock().unwrap();
        st.faults = faults;
        st.crashed.clear();
        st.crash_all = false;
        st.mutations.clear();
    }

    pub fn enable_log(&self, on: bool) {
        let mut st = self.sh.st.lock().unwrap();
        st.log_enabled = on;
        st.log.clear();
    }

    pub fn take_log(&self) -> Vec<Call> {
        std::mem::take(&mut self.sh.st.lock().unwrap().log)
    }

    pub fn mutation_count(&self, actor: u32) -> u64 {
        *self.sh.st.lock().unwrap().mutations.get(&actor).unwrap_or(&0)
    }

    pub fn has_crashed(&self) -> bool {
        let st = self.sh.st.lock().unwrap();
        st.crash_all || !st.crashed.is_empty()
    }

    /// resolves once some fault plan crashed an actor
    pub async fn crashed(&self) {
        loop {
            let n = self.sh.crash_notify.notified();
            if self.has_crashed() {
                return;
            }
            n.await;
        }
    }

    pub fn set_list_order(&self, o: ListOrder) {
        self.sh.st.lock().unwrap().list_order = o;
    }

    pub fn list_order(&self) -> ListOrder {
        self.sh.st.lock().unwrap().list_order
    }

    /// make every object currently in the store look `by` older
    pub fn age_all(&self, by: chrono::Duration) {
        let metas = self.all_objects();
        let mut st = self.sh.st.lock().unwrap();
        for m in metas {
            let e = st.ages.entry(m.location).or_insert_with(chrono::Duration::zero);
            *e = *e + by;
        }
    }

    pub fn age_path(&self, p: &Path, by: chrono::Duration) {
        let mut st = self.sh.st.lock().unwrap();
        let e = st.ages.entry(p.clone()).or_insert_with(chrono::Duration::zero);
        *e = *e + by;
    }

    /// all objects (un-aged metadata is adjusted), lexical order
    pub fn all_objects(&self) -> Vec<ObjectMeta> {
        let mem = self.mem();
        let mut v: Vec<ObjectMeta> = futures::executor::block_on(mem.list(None).collect::<Vec<_>>())
            .into_iter()
            .filter_map(|r| r.ok())
            .collect();
        v.sort_by(|a, b| a.location.cmp(&b.location));
        v
    }

    pub fn paths(&self) -> Vec<String> {
        self.all_objects().into_iter().map(|m| m.location.to_string()).collect()
    }

    pub fn read(&self, p: &Path) -> Option<Bytes> {
        let mem = self.mem();
        let r = mem.get(p).now_or_never()?.ok()?;
        r.bytes().now_or_never()?.ok()
    }

    pub fn write_raw(&self, p: &Path, b: Bytes) {
        let mem = self.mem();
        mem.put(p, b.into()).now_or_never().unwrap().unwrap();
    }

    pub fn delete_raw(&self, p: &Path) {
        let mem = self.mem();
        let _ = mem.delete(p).now_or_never().unwrap();
        self.sh.st.lock().unwrap().ages.remove(p);
    }

    /// content map of the whole store (for before/after diffs)
    pub fn dump(&self) -> BTreeMap<String, Bytes> {
        self.all_objects()
            .into_iter()
            .filter_map(|m| self.read(&m.location).map(|b| (m.location.to_string(), b)))
            .collect()
    }

    pub fn delete_prefix(&self, prefix: &str) {
        for m in self.all_objects() {
            if m.location.as_ref().starts_with(prefix) {
                self.delete_raw(&m.location);
            }
        }
    }

    pub fn copy_prefix(&self, from: &str, to: &str) {
        for m in self.all_objects() {
            let s = m.location.to_string();
            if let Some(rest) = s.strip_prefix(from) {
                if let Some(b) = self.read(&m.location) {
                    self.write_raw(&Path::from(format!("{to}{rest}")), b);
                }
            }
        }
    }

    // ---- manifest immutability monitor (C02) -----------------------------

    pub fn watch_manifests(&self, on: bool) {
        let mut st = self.sh.st.lock().unwrap();
        st.watch_manifests = on;
        st.watch_first.clear();
        st.watch_violations.clear();
    }

    pub fn watch_violations(&self) -> Vec<String> {
        self.sh.st.lock().unwrap().watch_violations.clone()
    }

    fn is_final_manifest(path: &str) -> bool {
        // .../_versions/<n>.manifest  (either naming scheme), not staging / detached
        let Some(i) = path.rfind("_versions/") else { return false };
        let name = &path[i + "_versions/".len()..];
        name.ends_with(".manifest") && !name.starts_with('d') && name.trim_end_matches(".manifest").chars().all(|c| c.is_ascii_digit())
    }

    fn after_visible_change(&self, path: &Path) {
        let watching = self.sh.st.lock().unwrap().watch_manifests;
        if !watching {
            return;
        }
        let p = path.to_string();
        if !Self::is_final_manifest(&p) {
            return;
        }
        let now = self.read(path);
        let mut st = self.sh.st.lock().unwrap();
        match (st.watch_first.get(&p).cloned(), now) {
            (None, Some(b)) => {
                st.watch_first.insert(p, b.to_vec());
            }
            (Some(first), Some(b)) => {
                if first != b.to_vec() {
                    st.watch_violations.push(format!("published manifest {p} changed content ({} -> {} bytes)", first.len(), b.len()));
                }
            }
            (Some(_), None) => {
                // deletion of a published manifest is cleanup's business, not a commit's; recorded separately
                st.watch_violations.push(format!("published manifest {p} was deleted"));
            }
            (None, None) => {}
        }
    }

    // ---- gates -----------------------------------------------------------

    pub fn gate_actor(&self, actor: u32) {
        self.sh.st.lock().unwrap().gated.insert(actor);
    }

    pub fn ungate_all(&self) {
        let mut st = self.sh.st.lock().unwrap();
        st.gated.clear();
        for mut p in st.pending.drain(..) {
            if let Some(tx) = p.tx.take() {
                let _ = tx.send(());
            }
        }
    }

    /// (id, actor, op, path) of parked calls, canonical order
    pub fn pending(&self) -> Vec<(u64, u32, &'static str, String)> {
        let st = self.sh.st.lock().unwrap();
        let mut v: Vec<_> = st.pending.iter().map(|p| (p.id, p.actor, p.op, p.path.clone())).collect();
        v.sort_by(|a, b| (a.1, a.2, &a.3, a.0).cmp(&(b.1, b.2, &b.3, b.0)));
        v
    }

    pub fn release(&self, id: u64) -> bool {
        let mut st = self.sh.st.lock().unwrap();
        if let Some(i) = st.pending.iter().position(|p| p.id == id) {
            let mut p = st.pending.remove(i);
            if let Some(tx) = p.tx.take() {
                let _ = tx.send(());
            }
            true
        } else {
            false
        }
    }

    async fn gate(&self, op: &'static str, path: &Path) {
        let rx = {
            let mut st = self.sh.st.lock().unwrap();
            if !st.gated.contains(&self.actor) {
                return;
            }
            let (tx, rx) = tokio::sync::oneshot::channel();
            let id = st.next_gate;
            st.next_gate += 1;
            st.pending.push(PendingGate { id, actor: self.actor, op, path: path.to_string(), tx: Some(tx) });
            rx
        };
        self.sh.gate_notify.notify_waiters();
        let _ = rx.await;
    }

    // ---- data plane helpers ----------------------------------------------

    fn pre(&self, op: &'static str, path: &Path, to: Option<&Path>, mutating: bool) -> Pre {
        let mut st = self.sh.st.lock().unwrap();
        if st.crash_all || st.crashed.contains(&self.actor) {
            return Pre::Park;
        }
        let mut k = None;
        let mut decision = Pre::Go { k: None, after: None };
        if mutating {
            let c = st.mutations.entry(self.actor).or_insert(0);
            let this = *c;
            *c += 1;
            k = Some(this);
            decision = Pre::Go { k, after: None };
            if let Some(i) = st.faults.iter().position(|f| f.k == this && f.actor.map(|a| a == self.actor).unwrap_or(true)) {
                let f = st.faults.remove(i);
                match f.kind {
                    FaultKind::CrashBefore => {
                        if f.actor.is_some() {
                            st.crashed.insert(self.actor);
                        } else {
                            st.crash_all = true;
                        }
                        decision = Pre::Park;
                    }
                    FaultKind::FailNoEffect => decision = Pre::Fail,
                    FaultKind::CrashAfter | FaultKind::FailAfterEffect => decision = Pre::Go { k, after: Some((f.kind, f.actor.is_some())) },
                }
            }
        }
        if st.log_enabled {
            let outcome = match &decision {
                Pre::Go { after: None, .. } => "ok",
                Pre::Go { after: Some((FaultKind::CrashAfter, _)), .. } => "crash-after",
                Pre::Go { after: Some(_), .. } => "fail-after-effect",
                Pre::Fail => "fail-no-effect",
                Pre::Park => "crash-before",
            };
            let c = Call { actor: self.actor, op, path: path.to_string(), to: to.map(|t| t.to_string()), mutating, k, outcome };
            st.log.push(c);
        }
        decision
    }

    /// apply the post-effect part of a fault: returns Err to hand to the caller, or parks
    async fn post(&self, after: Option<(FaultKind, bool)>) -> OSResult<()> {
        match after {
            None => Ok(()),
            Some((FaultKind::FailAfterEffect, _)) => Err(generic("injected: response lost after the effect was applied")),
            Some((_, actor_scoped)) => {
                {
                    let mut st = self.sh.st.lock().unwrap();
                    if actor_scoped {
                        st.crashed.insert(self.actor);
                    } else {
                        st.crash_all = true;
                    }
                }
                self.sh.crash_notify.notify_waiters();
                futures::future::pending::<()>().await;
                unreachable!()
            }
        }
    }

    async fn park(&self) -> ! {
        self.sh.crash_notify.notify_waiters();
        futures::future::pending::<()>().await;
        unreachable!()
    }

    fn adjust(&self, mut m: ObjectMeta) -> ObjectMeta {
        let st = self.sh.st.lock().unwrap();
        if let Some(a) = st.ages.get(&m.location) {
            m.last_modified = m.last_modified - *a;
        }
        m
    }

}

impl Default for VStore {
    fn default() -> Self {
        Self::new()
    }
}

#[derive(Debug)]
struct VUpload {
    store: VStore,
    path: Path,
    inner: Box<dyn MultipartUpload>,
    /// whether any fault is actor scoped
    _p: (),
}

#[async_trait]
impl MultipartUpload for VUpload {
    fn put_part(&mut self, data: PutPayload) -> UploadPart {
        let store = self.store.clone();
        let path = self.path.clone();
        let fut = self.inner.put_part(data);
        Box::pin(async move {
            store.gate("put_part", &path).await;
            match store.pre("put_part", &path, None, false) {
                Pre::Park => store.park().await,
                Pre::Fail => Err(generic("injected failure")),
                Pre::Go { .. } => fut.await,
            }
        })
    }

    async fn complete(&mut self) -> OSResult<PutResult> {
        self.store.gate("complete", &self.path).await;
        match self.store.pre("complete", &self.path, None, true) {
            Pre::Park => self.store.park().await,
            Pre::Fail => Err(generic("injected failure (no effect)")),
            Pre::Go { after, .. } => {
                let r = self.inner.complete().await;
                self.store.sh.st.lock().unwrap().ages.remove(&self.path);
                self.store.after_visible_change(&self.path);
                self.store.post(after).await?;
                r
            }
        }
    }

    async fn abort(&mut self) -> OSResult<()> {
        match self.store.pre("abort", &self.path, None, false) {
            Pre::Park => self.store.park().await,
            _ => self.inner.abort().await,
        }
    }
}

macro_rules! mutating_op {
    ($self:ident, $op:expr, $path:expr, $to:expr, $body:expr) => {{
        $self.gate($op, $path).await;
        match $self.pre($op, $path, $to, true) {
            Pre::Park => $self.park().await,
            Pre::Fail => Err(generic("injected failure (no effect)")),
            Pre::Go { after, .. } => {
                let r = $body;
                if r.is_ok() {
                    $self.post(after).await?;
                }
                r
            }
        }
    }};
}

#[async_trait]
impl ObjectStore for VStore {
    async fn put_opts(&self, location: &Path, payload: PutPayload, opts: PutOptions) -> OSResult<PutResult> {
        mutating_op!(self, "put", location, None, {
            let r = self.mem().put_opts(location, payload, opts).now_or_never().expect("InMemory never suspends");
            if r.is_ok() {
                self.sh.st.lock().unwrap().ages.remove(location);
                self.after_visible_change(location);
            }
            r
        })
    }

    async fn put_multipart_opts(&self, location: &Path, opts: PutMultipartOptions) -> OSResult<Box<dyn MultipartUpload>> {
        self.gate("put_multipart", location).await;
        match self.pre("put_multipart", location, None, false) {
            Pre::Park => self.park().await,
            Pre::Fail => Err(generic("injected failure")),
            Pre::Go { .. } => {
                let inner = self.mem().put_multipart_opts(location, opts).now_or_never().expect("InMemory never suspends")?;
                Ok(Box::new(VUpload { store: self.clone(), path: location.clone(), inner, _p: () }))
            }
        }
    }

    async fn get_opts(&self, location: &Path, options: GetOptions) -> OSResult<GetResult> {
        let op = if options.head { "head" } else { "get" };
        self.gate(op, location).await;
        match self.pre(op, location, None, false) {
            Pre::Park => self.park().await,
            Pre::Fail => Err(generic("injected failure")),
            Pre::Go { .. } => {
                let mut r = self.mem().get_opts(location, options).now_or_never().expect("InMemory never suspends")?;
                r.meta = self.adjust(r.meta);
                Ok(r)
            }
        }
    }

    async fn delete(&self, location: &Path) -> OSResult<()> {
        mutating_op!(self, "delete", location, None, {
            let r = self.mem().delete(location).now_or_never().expect("InMemory never suspends");
            if r.is_ok() {
                self.sh.st.lock().unwrap().ages.remove(location);
                self.after_visible_change(location);
            }
            r
        })
    }

    fn list(&self, prefix: Option<&Path>) -> BoxStream<'static, OSResult<ObjectMeta>> {
        let this = self.clone();
        let prefix = prefix.cloned();
        let s = futures::stream::once(async move {
            let p = prefix.clone().unwrap_or_else(|| Path::from(""));
            this.gate("list", &p).await;
            match this.pre("list", &p, None, false) {
                Pre::Park => this.park().await,
                Pre::Fail => vec![Err(generic("injected failure"))],
                Pre::Go { .. } => {
                    let mem = this.mem();
                    let mut v: Vec<OSResult<ObjectMeta>> = mem.list(prefix.as_ref()).collect::<Vec<_>>().now_or_never().expect("InMemory never suspends");
                    let order = this.sh.st.lock().unwrap().list_order;
                    let key = |r: &OSResult<ObjectMeta>| r.as_ref().map(|m| m.location.to_string()).unwrap_or_default();
                    v.sort_by(|a, b| key(a).cmp(&key(b)));
                    match order {
                        ListOrder::Lexical => {}
                        ListOrder::Reverse => v.reverse(),
                        ListOrder::Shuffled(seed) => {
                            let h = |s: &str| {
                                use std::hash::{Hash, Hasher};
                                let mut hh = std::collections::hash_map::DefaultHasher::new();
                                seed.hash(&mut hh);
                                s.hash(&mut hh);
                                hh.finish()
                            };
                            v.sort_by_key(|r| h(&key(r)));
                        }
                    }
                    v.into_iter().map(|r| r.map(|m| this.adjust(m))).collect()
                }
            }
        })
        .flat_map(futures::stream::iter);
        s.boxed()
    }

    async fn list_with_delimiter(&self, prefix: Option<&Path>) -> OSResult<ListResult> {
        let p = prefix.cloned().unwrap_or_else(|| Path::from(""));
        self.gate("list_delim", &p).await;
        match self.pre("list_delim", &p, None, false) {
            Pre::Park => self.park().await,
            Pre::Fail => Err(generic("injected failure")),
            Pre::Go { .. } => {
                let mut r = self.mem().list_with_delimiter(prefix).now_or_never().expect("InMemory never suspends")?;
                r.objects = r.objects.into_iter().map(|m| self.adjust(m)).collect();
                Ok(r)
            }
        }
    }

    async fn copy(&self, from: &Path, to: &Path) -> OSResult<()> {
        mutating_op!(self, "copy", from, Some(to), {
            let r = self.mem().copy(from, to).now_or_never().expect("InMemory never suspends");
            if r.is_ok() {
                self.sh.st.lock().unwrap().ages.remove(to);
                self.after_visible_change(to);
            }
            r
        })
    }

    async fn copy_if_not_exists(&self, from: &Path, to: &Path) -> OSResult<()> {
        mutating_op!(self, "copy_if_not_exists", from, Some(to), {
            let r = self.mem().copy_if_not_exists(from, to).now_or_never().expect("InMemory never suspends");
            if r.is_ok() {
                self.sh.st.lock().unwrap().ages.remove(to);
                self.after_visible_change(to);
            }
            r
        })
    }

    /// native, atomic rename: one storage call
    async fn rename(&self, from: &Path, to: &Path) -> OSResult<()> {
        mutating_op!(self, "rename", from, Some(to), {
            let mem = self.mem();
            let r = mem.copy(from, to).now_or_never().expect("InMemory never suspends");
            let r = match r {
                Ok(()) => mem.delete(from).now_or_never().expect("InMemory never suspends"),
                e => e,
            };
            if r.is_ok() {
                let mut st = self.sh.st.lock().unwrap();
                st.ages.remove(to);
                st.ages.remove(from);
                drop(st);
                self.after_visible_change(to);
            }
            r
        })
    }

    /// native, atomic rename-if-not-exists: one storage call
    async fn rename_if_not_exists(&self, from: &Path, to: &Path) -> OSResult<()> {
        mutating_op!(self, "rename_if_not_exists", from, Some(to), {
            let mem = self.mem();
            let r = mem.copy_if_not_exists(from, to).now_or_never().expect("InMemory never suspends");
            let r = match r {
                Ok(()) => mem.delete(from).now_or_never().expect("InMemory never suspends"),
                e => e,
            };
            if r.is_ok() {
                let mut st = self.sh.st.lock().unwrap();
                st.ages.remove(to);
                st.ages.remove(from);
                drop(st);
                self.after_visible_change(to);
            }
            r
        })
    }
}

// ---------------------------------------------------------------------------
// provider / registry glue

#[derive(Debug)]
pub struct VProvider {
    pub store: VStore,
    pub list_is_lexically_ordered: bool,
    pub block_size: Option<usize>,
}

#[async_trait]
impl ObjectStoreProvider for VProvider {
    async fn new_store(&self, base_path: Url, params: &ObjectStoreParams) -> lance_core::Result<LanceObjectStore> {
        Ok(LanceObjectStore::new(
            Arc::new(self.store.clone()),
            base_path,
            params.block_size.or(self.block_size),
            None,
            params.use_constant_size_upload_parts,
            // a store must not claim an ordering it does not deliver
            params.list_is_lexically_ordered.unwrap_or(self.list_is_lexically_ordered) && self.store.list_order() == ListOrder::Lexical,
            8,
            0,
            None,
        ))
    }

    fn extract_path(&self, url: &Url) -> lance_core::Result<Path> {
        Ok(Path::from(url.path()))
    }

    fn calculate_object_store_prefix(&self, scheme: &str, _authority: &str, _o: Option<&HashMap<String, String>>) -> lance_core::Result<String> {
        Ok(format!("{scheme}$a{}", self.store.actor))
    }
}

pub const SCHEME: &str = "vs";

/// registry in which `vs://` resolves to this store
pub fn registry_for(store: &VStore, lexical: bool) -> Arc<ObjectStoreRegistry> {
    let reg = ObjectStoreRegistry::default();
    reg.insert(SCHEME, Arc::new(VProvider { store: store.clone(), list_is_lexically_ordered: lexical, block_size: None }));
    Arc::new(reg)
}

pub fn uri(table: &str) -> String {
    format!("{SCHEME}:///{table}")
}
