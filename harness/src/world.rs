//! The history engine (DESIGN §1.3): generated operation histories applied to a
//! real lance table on a `VStore` and to the reference model.

use crate::engine::{idx, Env, Failure, Obs};
use crate::model::*;
use crate::store::{self, VStore};
use arrow_array::{RecordBatch, RecordBatchIterator};
use futures::TryStreamExt;
use lance::dataset::builder::DatasetBuilder;
use lance::dataset::optimize::{compact_files, CompactionOptions};
use lance::dataset::{ColumnAlteration, NewColumnTransform, UpdateBuilder, WriteMode, WriteParams};
use lance_index::DatasetIndexExt;
use lance::session::Session;
use lance::Dataset;
use lance_encoding::version::LanceFileVersion;
use lance_index::optimize::OptimizeOptions;
use lance_index::scalar::ScalarIndexParams;
use lance_index::IndexType;
use lance_table::io::commit::{CommitHandler, ConditionalPutCommitHandler, RenameCommitHandler};
use proptest::prelude::*;
use serde::{Deserialize, Serialize};
use std::collections::{BTreeMap, BTreeSet, HashMap};
use std::sync::Arc;

// ---------------------------------------------------------------------------
// generated (raw) inputs

pub const ROW_WIDTH: usize = 6;

#[derive(Clone, Debug, PartialEq, Eq, Serialize, Deserialize)]
pub struct RowSeed(pub Vec<u16>);

#[derive(Clone, Debug, PartialEq, Eq, Serialize, Deserialize)]
pub enum RawPred {
    Cmp { col: u8, op: u8, lit: u16 },
    IsNull { col: u8 },
    IsNotNull { col: u8 },
    Between { col: u8, lo: u16, hi: u16, neg: bool },
    In { col: u8, lits: Vec<u16>, neg: bool },
    BoolCol { col: u8, form: u8 },
    Like { col: u8, lit: u16 },
    Not(Box<RawPred>),
    And(Box<RawPred>, Box<RawPred>),
    Or(Box<RawPred>, Box<RawPred>),
    Const(bool),
}

#[derive(Clone, Debug, PartialEq, Eq, Serialize, Deserialize)]
pub enum RawSet {
    /// col = literal (possibly NULL when nullable)
    Lit(u16),
    /// col = col + small int (ints only; otherwise falls back to Lit)
    AddInt(u8),
    /// col = other column of the same type (falls back to Lit)
    CopyCol(u8),
}

#[derive(Clone, Debug, PartialEq, Eq, Serialize, Deserialize)]
pub struct TableCfg {
    pub cols: Vec<(u8, bool)>, // (type index into ColType::ALL, nullable)
    pub stable_row_ids: bool,
    /// 0 = legacy 0.1, 1 = 2.0, 2 = 2.1, 3 = 2.2
    pub storage: u8,
    pub v2_manifest: bool,
    /// 0 conditional put, 1 rename-if-not-exists
    pub handler: u8,
}

#[derive(Clone, Debug, PartialEq, Eq, Serialize, Deserialize)]
pub enum Op {
    Append { rows: Vec<RowSeed>, splits: Vec<u16>, max_rows_per_file: u16 },
    Overwrite { rows: Vec<RowSeed>, max_rows_per_file: u16 },
    Delete { pred: RawPred },
    Update { pred: Option<RawPred>, sets: Vec<(u8, RawSet)> },
    Compact { target_rows: u16, materialize: bool, threshold_pct: u8, defer_remap: bool, max_rows_per_group: u16 },
    CreateIndex { col: u8, kind: u8, replace: bool },
    DropIndex { which: u8 },
    OptimizeIndices { mode: u8 },
    AddColumn { kind: u8, ty: u8, src: u8, lit: u16 },
    DropColumn { col: u8 },
    AlterColumn { col: u8, action: u8 },
    UpdateConfig { key: u8, val: Option<u8> },
    Restore { v: u16 },
    Tag { action: u8, name: u8, v: u16 },
    Reopen,
}

impl Op {
    pub fn kind(&self) -> &'static str {
        match self {
            Op::Append { .. } => "append",
            Op::Overwrite { .. } => "overwrite",
            Op::Delete { .. } => "delete",
            Op::Update { .. } => "update",
            Op::Compact { .. } => "compact",
            Op::CreateIndex { .. } => "create_index",
            Op::DropIndex { .. } => "drop_index",
            Op::OptimizeIndices { .. } => "optimize_indices",
            Op::AddColumn { .. } => "add_column",
            Op::DropColumn { .. } => "drop_column",
            Op::AlterColumn { .. } => "alter_column",
            Op::UpdateConfig { .. } => "update_config",
            Op::Restore { .. } => "restore",
            Op::Tag { .. } => "tag",
            Op::Reopen => "reopen",
        }
    }
}

#[derive(Clone, Debug, PartialEq, Eq, Serialize, Deserialize)]
pub struct Step {
    pub op: Op,
    /// run the op on a handle checked out at this earlier version (fraction) with retries off
    pub stale: Option<u16>,
}

// ---------------------------------------------------------------------------
// strategies

pub fn row_seed() -> impl Strategy<Value = RowSeed> {
    prop::collection::vec(0u16..40, ROW_WIDTH).prop_map(RowSeed)
}

pub fn rows(max: usize) -> impl Strategy<Value = Vec<RowSeed>> {
    prop::collection::vec(row_seed(), 1..max)
}

pub fn raw_pred() -> impl Strategy<Value = RawPred> {
    let leaf = prop_oneof![
        6 => (any::<u8>(), 0u8..6, 0u16..40).prop_map(|(col, op, lit)| RawPred::Cmp { col, op, lit }),
        2 => any::<u8>().prop_map(|col| RawPred::IsNull { col }),
        2 => any::<u8>().prop_map(|col| RawPred::IsNotNull { col }),
        2 => (any::<u8>(), 0u16..40, 0u16..40, any::<bool>()).prop_map(|(col, lo, hi, neg)| RawPred::Between { col, lo, hi, neg }),
        2 => (any::<u8>(), prop::collection::vec(0u16..40, 1..4), any::<bool>()).prop_map(|(col, lits, neg)| RawPred::In { col, lits, neg }),
        1 => (any::<u8>(), 0u8..5).prop_map(|(col, form)| RawPred::BoolCol { col, form }),
        1 => (any::<u8>(), 0u16..40).prop_map(|(col, lit)| RawPred::Like { col, lit }),
    ];
    leaf.prop_recursive(3, 8, 2, |inner| {
        prop_oneof![
            2 => inner.clone().prop_map(|a| RawPred::Not(Box::new(a))),
            2 => (inner.clone(), inner.clone()).prop_map(|(a, b)| RawPred::And(Box::new(a), Box::new(b))),
            2 => (inner.clone(), inner).prop_map(|(a, b)| RawPred::Or(Box::new(a), Box::new(b))),
        ]
    })
}

pub fn table_cfg(types: &'static [u8], storages: &'static [u8]) -> impl Strategy<Value = TableCfg> {
    (
        prop::collection::vec((prop::sample::select(types), any::<bool>()), 1..5),
        any::<bool>(),
        prop::sample::select(storages),
        any::<bool>(),
        0u8..2,
    )
        .prop_map(|(cols, stable_row_ids, storage, v2_manifest, handler)| TableCfg { cols, stable_row_ids, storage, v2_manifest, handler })
}

pub fn op_append() -> impl Strategy<Value = Op> {
    (rows(14), prop::collection::vec(any::<u16>(), 0..3), prop_oneof![Just(3u16), Just(5), Just(1000)]).prop_map(|(rows, splits, m)| Op::Append { rows, splits, max_rows_per_file: m })
}
pub fn op_overwrite() -> impl Strategy<Value = Op> {
    (rows(10), prop_oneof![Just(4u16), Just(1000)]).prop_map(|(rows, m)| Op::Overwrite { rows, max_rows_per_file: m })
}
pub fn op_delete() -> impl Strategy<Value = Op> {
    raw_pred().prop_map(|pred| Op::Delete { pred })
}
pub fn raw_set() -> impl Strategy<Value = RawSet> {
    prop_oneof![3 => (0u16..40).prop_map(RawSet::Lit), 1 => (1u8..4).prop_map(RawSet::AddInt), 1 => any::<u8>().prop_map(RawSet::CopyCol)]
}
pub fn op_update() -> impl Strategy<Value = Op> {
    (prop::option::weighted(0.85, raw_pred()), prop::collection::vec((any::<u8>(), raw_set()), 1..3)).prop_map(|(pred, sets)| Op::Update { pred, sets })
}
pub fn op_compact() -> impl Strategy<Value = Op> {
    (prop_oneof![Just(4u16), Just(8), Just(50), Just(1000)], any::<bool>(), 0u8..100, any::<bool>(), prop_oneof![Just(2u16), Just(1024)])
        .prop_map(|(target_rows, materialize, threshold_pct, defer_remap, max_rows_per_group)| Op::Compact { target_rows, materialize, threshold_pct, defer_remap, max_rows_per_group })
}
pub fn op_create_index() -> impl Strategy<Value = Op> {
    (any::<u8>(), 0u8..2, any::<bool>()).prop_map(|(col, kind, replace)| Op::CreateIndex { col, kind, replace })
}
pub fn op_schema() -> impl Strategy<Value = Op> {
    prop_oneof![
        3 => (0u8..3, any::<u8>(), any::<u8>(), 0u16..40).prop_map(|(kind, ty, src, lit)| Op::AddColumn { kind, ty, src, lit }),
        2 => any::<u8>().prop_map(|col| Op::DropColumn { col }),
        2 => (any::<u8>(), 0u8..3).prop_map(|(col, action)| Op::AlterColumn { col, action }),
    ]
}
pub fn op_misc() -> impl Strategy<Value = Op> {
    prop_oneof![
        2 => (0u8..3, prop::option::of(0u8..3)).prop_map(|(key, val)| Op::UpdateConfig { key, val }),
        2 => any::<u16>().prop_map(|v| Op::Restore { v }),
        2 => (0u8..3, 0u8..3, any::<u16>()).prop_map(|(action, name, v)| Op::Tag { action, name, v }),
        1 => Just(Op::Reopen),
        1 => (0u8..3).prop_map(|mode| Op::OptimizeIndices { mode }),
        1 => any::<u8>().prop_map(|which| Op::DropIndex { which }),
    ]
}

/// the general-purpose op mix
pub fn any_op() -> BoxedStrategy<Op> {
    prop_oneof![
        5 => op_append(),
        1 => op_overwrite(),
        4 => op_delete(),
        4 => op_update(),
        3 => op_compact(),
        2 => op_create_index(),
        3 => op_schema(),
        3 => op_misc(),
    ]
    .boxed()
}

pub fn step_of(op: BoxedStrategy<Op>, stale_weight: u32) -> BoxedStrategy<Step> {
    (op, prop_oneof![(100 - stale_weight) => Just(None), stale_weight => any::<u16>().prop_map(Some)])
        .prop_map(|(op, stale)| Step { op, stale })
        .boxed()
}

// ---------------------------------------------------------------------------
// model state

#[derive(Clone, Debug, PartialEq)]
pub struct VersionState {
    pub schema: TableSchema,
    /// rows as a multiset; kept in physical (scan) order while `ordered`
    pub rows: Vec<Row>,
    pub ordered: bool,
    pub config: BTreeMap<String, String>,
    /// index name -> column name
    pub indices: BTreeMap<String, String>,
}

#[derive(Clone, Debug, Default)]
pub struct Effect {
    pub kind: &'static str,
    pub delete: BTreeSet<i64>,
    /// uid -> new values (whole row under the schema at the read version)
    pub update: BTreeMap<i64, Vec<Val>>,
    pub insert: Vec<Row>,
    pub overwrite: Option<(TableSchema, Vec<Row>)>,
    pub add_col: Option<(ColSpec, BTreeMap<i64, Val>)>,
    pub drop_col: Option<u32>,
    pub rename: Option<(u32, String)>,
    pub set_nullable: Option<(u32, bool)>,
    pub config_set: BTreeMap<String, Option<String>>,
    pub index_add: Option<(String, String)>,
    pub index_drop: Option<String>,
    pub restore: Option<u64>,
    /// schema at the read version (to map `update` values onto a changed schema)
    pub read_schema: TableSchema,
    /// rewrites physical order (rows move)
    pub reorders: bool,
}

impl Effect {
    pub fn touches_rows(&self) -> bool {
        !self.delete.is_empty() || !self.update.is_empty() || !self.insert.is_empty() || self.overwrite.is_some()
    }
}

pub fn apply_effect(base: &VersionState, e: &Effect, versions: &BTreeMap<u64, VersionState>) -> Result<VersionState, String> {
    if let Some(v) = e.restore {
        return versions.get(&v).cloned().ok_or_else(|| format!("restore of unknown version {v}"));
    }
    let mut s = base.clone();
    if let Some((schema, rows)) = &e.overwrite {
        s.schema = schema.clone();
        s.rows = rows.clone();
        s.ordered = true;
        s.indices.clear();
        return Ok(s);
    }
    if !e.delete.is_empty() {
        s.rows.retain(|r| !e.delete.contains(&r.uid));
    }
    if !e.update.is_empty() {
        // map by column name from the read schema to the current schema
        let mut moved = vec![];
        let mut kept = vec![];
        for r in s.rows.drain(..) {
            if let Some(newvals) = e.update.get(&r.uid) {
                let mut nr = r.clone();
                for (i, c) in e.read_schema.cols.iter().enumerate() {
                    if let Some((j, _)) = s.schema.col_by_cid(c.cid) {
                        nr.vals[j] = newvals[i].clone();
                    }
                }
                moved.push(nr);
            } else {
                kept.push(r);
            }
        }
        kept.extend(moved);
        s.rows = kept;
        s.ordered = false;
    }
    if !e.insert.is_empty() {
        for r in &e.insert {
            let mut vals = vec![Val::Null; s.schema.cols.len()];
            for (i, c) in e.read_schema.cols.iter().enumerate() {
                if let Some((j, _)) = s.schema.col_by_cid(c.cid) {
                    vals[j] = r.vals[i].clone();
                }
            }
            s.rows.push(Row { uid: r.uid, vals });
        }
    }
    if let Some((spec, values)) = &e.add_col {
        if s.schema.col(&spec.name).is_some() {
            return Err(format!("column {} added twice", spec.name));
        }
        s.schema.cols.push(spec.clone());
        for r in &mut s.rows {
            r.vals.push(values.get(&r.uid).cloned().unwrap_or(Val::Null));
        }
    }
    if let Some(cid) = &e.drop_col {
        let Some((i, c)) = s.schema.col_by_cid(*cid) else { return Err(format!("dropped column (cid {cid}) does not exist")) };
        let name = c.name.clone();
        s.schema.cols.remove(i);
        for r in &mut s.rows {
            r.vals.remove(i);
        }
        s.indices.retain(|_, c| *c != name);
    }
    if let Some((cid, to)) = &e.rename {
        let Some((i, c)) = s.schema.col_by_cid(*cid) else { return Err(format!("renamed column (cid {cid}) does not exist")) };
        let from = c.name.clone();
        s.schema.cols[i].name = to.clone();
        for c in s.indices.values_mut() {
            if *c == from {
                *c = to.clone();
            }
        }
    }
    if let Some((cid, nullable)) = &e.set_nullable {
        let Some((i, _)) = s.schema.col_by_cid(*cid) else { return Err(format!("altered column (cid {cid}) does not exist")) };
        s.schema.cols[i].nullable = *nullable;
    }
    for (k, v) in &e.config_set {
        match v {
            Some(v) => {
                s.config.insert(k.clone(), v.clone());
            }
            None => {
                s.config.remove(k);
            }
        }
    }
    if let Some((name, col)) = &e.index_add {
        s.indices.insert(name.clone(), col.clone());
    }
    if let Some(name) = &e.index_drop {
        s.indices.remove(name);
    }
    if e.reorders {
        s.ordered = false;
    }
    Ok(s)
}

// ---------------------------------------------------------------------------
// resolution of raw predicates against a schema

fn pick_col<'a>(schema: &'a TableSchema, col: u8) -> (String, ColType, bool) {
    // index ncols selects uid
    let n = schema.cols.len() + 1;
    let i = col as usize % n;
    if i == schema.cols.len() {
        (UID.to_string(), ColType::I64, false)
    } else {
        let c = &schema.cols[i];
        (c.name.clone(), c.ty, c.nullable)
    }
}

fn uid_lit(seed: u16) -> Val {
    Val::I((seed % 40) as i128)
}

pub fn resolve_pred(p: &RawPred, schema: &TableSchema) -> BExpr {
    let lit = |ty: ColType, name: &str, seed: u16| if name == UID { uid_lit(seed) } else { finite(lit_from_seed(ty, seed)) };
    match p {
        RawPred::Cmp { col, op, lit: l } => {
            let (name, ty, _) = pick_col(schema, *col);
            if ty == ColType::Bool {
                return BExpr::Cmp { col: name, ty, op: if op % 2 == 0 { CmpOp::Eq } else { CmpOp::Ne }, lit: Val::B(l % 2 == 1) };
            }
            let v = lit(ty, &name, *l);
            BExpr::Cmp { col: name, ty, op: CmpOp::ALL[*op as usize % 6], lit: v }
        }
        RawPred::IsNull { col } => BExpr::IsNull { col: pick_col(schema, *col).0 },
        RawPred::IsNotNull { col } => BExpr::IsNotNull { col: pick_col(schema, *col).0 },
        RawPred::Between { col, lo, hi, neg } => {
            let (name, ty, _) = pick_col(schema, *col);
            if ty == ColType::Bool {
                return BExpr::IsNotNull { col: name };
            }
            let a = lit(ty, &name, *lo);
            let b = lit(ty, &name, *hi);
            BExpr::Between { col: name, ty, lo: a, hi: b, negated: *neg }
        }
        RawPred::In { col, lits, neg } => {
            let (name, ty, _) = pick_col(schema, *col);
            if ty == ColType::Bool {
                return BExpr::BoolCol { col: name, form: BoolForm::IsTrue };
            }
            let list = lits.iter().map(|l| lit(ty, &name, *l)).collect();
            BExpr::InList { col: name, ty, list, negated: *neg }
        }
        RawPred::BoolCol { col, form } => {
            // find a boolean column starting from col
            let n = schema.cols.len();
            for k in 0..n {
                let c = &schema.cols[(*col as usize + k) % n.max(1)];
                if c.ty == ColType::Bool {
                    let form = [BoolForm::Plain, BoolForm::IsTrue, BoolForm::IsFalse, BoolForm::IsNotTrue, BoolForm::IsNotFalse][*form as usize % 5];
                    return BExpr::BoolCol { col: c.name.clone(), form };
                }
            }
            BExpr::IsNotNull { col: pick_col(schema, *col).0 }
        }
        RawPred::Like { col, lit: l } => {
            let n = schema.cols.len();
            for k in 0..n {
                let c = &schema.cols[(*col as usize + k) % n.max(1)];
                if c.ty.is_string() {
                    let prefix = match lit_from_seed(c.ty, *l) {
                        Val::S(s) => s.chars().filter(|ch| *ch != '%' && *ch != '_' && *ch != '\\').take(2).collect(),
                        _ => String::new(),
                    };
                    return BExpr::LikePrefix { col: c.name.clone(), prefix };
                }
            }
            BExpr::IsNull { col: pick_col(schema, *col).0 }
        }
        RawPred::Not(a) => BExpr::Not(Box::new(resolve_pred(a, schema))),
        RawPred::And(a, b) => BExpr::And(Box::new(resolve_pred(a, schema)), Box::new(resolve_pred(b, schema))),
        RawPred::Or(a, b) => BExpr::Or(Box::new(resolve_pred(a, schema)), Box::new(resolve_pred(b, schema))),
        RawPred::Const(b) => BExpr::Const(*b),
    }
}

/// literals must be finite (NaN / inf are not SQL literals)
fn finite(v: Val) -> Val {
    match v {
        Val::F(b) if !f64::from_bits(b).is_finite() => Val::f(2.5),
        v => v,
    }
}

pub fn row_from_seed(schema: &TableSchema, uid: i64, seed: &RowSeed) -> Row {
    let vals = schema.cols.iter().enumerate().map(|(i, c)| val_from_seed(c.ty, c.nullable, seed.0[i % seed.0.len()].wrapping_add(i as u16 * 3))).collect();
    Row { uid, vals }
}

// ---------------------------------------------------------------------------
// the world

pub struct World {
    pub store: VStore,
    pub session: Arc<Session>,
    pub handler: Arc<dyn CommitHandler>,
    pub uri: String,
    pub cfg: TableCfg,
    pub ds: Dataset,
    pub versions: BTreeMap<u64, VersionState>,
    pub latest: u64,
    pub next_uid: i64,
    pub tags: BTreeMap<String, u64>,
    pub col_counter: u32,
    /// kinds of the ops applied so far (for classification)
    pub history: Vec<String>,
    pub rebased_commits: u32,
    /// allow scalar indices on nullable columns (C19 / C12 only)
    pub index_nullable_cols: bool,
    /// generate stale row writes racing a non-nullable column add (C03 only)
    pub allow_nonnull_add_race: bool,
}

pub enum StepOutcome {
    Committed { new_version: u64, rebased: bool },
    Rejected(String),
    /// no new version expected (reopen, rejected-by-construction no-op)
    NoOp,
}

pub fn storage_version(s: u8) -> LanceFileVersion {
    match s % 4 {
        0 => LanceFileVersion::Legacy,
        1 => LanceFileVersion::V2_0,
        2 => LanceFileVersion::V2_1,
        _ => LanceFileVersion::V2_2,
    }
}

pub fn new_session(store: &VStore) -> Arc<Session> {
    Arc::new(Session::new(64 << 20, 64 << 20, store::registry_for(store, true)))
}

pub fn handler_of(h: u8) -> Arc<dyn CommitHandler> {
    match h % 2 {
        0 => Arc::new(ConditionalPutCommitHandler),
        _ => Arc::new(RenameCommitHandler),
    }
}

fn lerr(e: lance::Error) -> String {
    format!("{e}")
}

pub fn batches_of(schema: &TableSchema, rows: &[Row], splits: &[u16]) -> Vec<RecordBatch> {
    let mut cuts: Vec<usize> = splits.iter().map(|s| idx(*s, rows.len() + 1)).collect();
    cuts.push(rows.len());
    cuts.sort_unstable();
    let mut out = vec![];
    let mut prev = 0;
    for c in cuts {
        if c > prev {
            out.push(rows_to_batch(schema, &rows[prev..c]));
        }
        prev = c;
    }
    if out.is_empty() {
        out.push(rows_to_batch(schema, &[]));
    }
    out
}

pub fn mk_write_params(handler: &Arc<dyn CommitHandler>, cfg: &TableCfg, session: &Arc<Session>, mode: WriteMode, max_rows_per_file: usize) -> WriteParams {
    WriteParams {
        mode,
        max_rows_per_file: max_rows_per_file.max(1),
        max_rows_per_group: 1024.min(max_rows_per_file.max(1)),
        commit_handler: Some(handler.clone()),
        data_storage_version: Some(storage_version(cfg.storage)),
        enable_stable_row_ids: cfg.stable_row_ids,
        enable_v2_manifest_paths: cfg.v2_manifest,
        session: Some(session.clone()),
        auto_cleanup: None,
        ..Default::default()
    }
}

impl World {
    pub fn write_params(&self, mode: WriteMode, max_rows_per_file: usize) -> WriteParams {
        mk_write_params(&self.handler, &self.cfg, &self.session, mode, max_rows_per_file)
    }

    pub fn schema_of_cfg(cfg: &TableCfg) -> TableSchema {
        TableSchema {
            cols: cfg
                .cols
                .iter()
                .enumerate()
                .map(|(i, (t, n))| ColSpec { name: format!("c{i}"), ty: ColType::ALL[*t as usize % ColType::ALL.len()], nullable: *n, cid: i as u32 + 1 })
                .collect(),
        }
    }

    /// create the table with `initial` rows
    pub async fn create(store: VStore, name: &str, cfg: &TableCfg, initial: &[RowSeed], max_rows_per_file: usize) -> Result<World, String> {
        let session = new_session(&store);
        let handler = handler_of(cfg.handler);
        let schema = Self::schema_of_cfg(cfg);
        let rows: Vec<Row> = initial.iter().enumerate().map(|(i, s)| row_from_seed(&schema, i as i64, s)).collect();
        let uri = store::uri(name);
        let arrow = Arc::new(schema.arrow());
        let batches = batches_of(&schema, &rows, &[]);
        let reader = RecordBatchIterator::new(batches.into_iter().map(Ok), arrow);
        let params = mk_write_params(&handler, cfg, &session, WriteMode::Create, max_rows_per_file);
        let ds = Dataset::write(reader, &uri, Some(params)).await.map_err(lerr)?;
        let v = ds.version().version;
        let mut w = World {
            store,
            session,
            handler,
            uri: uri.clone(),
            cfg: cfg.clone(),
            ds,
            versions: BTreeMap::new(),
            latest: 0,
            next_uid: rows.len() as i64,
            tags: BTreeMap::new(),
            col_counter: cfg.cols.len() as u32 + 1,
            history: vec!["create".into()],
            rebased_commits: 0,
            index_nullable_cols: false,
            allow_nonnull_add_race: false,
        };
        w.versions.insert(v, VersionState { schema, rows, ordered: true, config: BTreeMap::new(), indices: BTreeMap::new() });
        w.latest = v;
        Ok(w)
    }

    pub fn state(&self) -> &VersionState {
        &self.versions[&self.latest]
    }

    pub async fn open_fresh(&self, version: Option<u64>) -> Result<Dataset, String> {
        let session = new_session(&self.store);
        let mut b = DatasetBuilder::from_uri(&self.uri).with_session(session).with_commit_handler(self.handler.clone());
        if let Some(v) = version {
            b = b.with_version(v);
        }
        b.load().await.map_err(lerr)
    }

    pub async fn open_warm(&self, version: Option<u64>) -> Result<Dataset, String> {
        let mut b = DatasetBuilder::from_uri(&self.uri).with_session(self.session.clone()).with_commit_handler(self.handler.clone());
        if let Some(v) = version {
            b = b.with_version(v);
        }
        b.load().await.map_err(lerr)
    }

    /// Apply one step.  On `Ok(Committed)` the model has a new latest version.
    pub async fn apply(&mut self, step: &Step, obs: &mut Obs) -> Result<StepOutcome, Failure> {
        // pick the handle and the model state the op is computed on
        let known: Vec<u64> = self.versions.keys().copied().collect();
        let (read_version, stale) = match step.stale {
            Some(f) if known.len() > 1 && !matches!(step.op, Op::Reopen | Op::Tag { .. }) => {
                // only among the last 3 versions: older handles mostly conflict
                let lo = known.len().saturating_sub(3);
                let v = known[lo + idx(f, known.len() - lo)];
                (v, v != self.latest)
            }
            _ => (self.latest, false),
        };
        let mut handle = if stale {
            match self.ds.checkout_version(read_version).await {
                Ok(d) => d,
                Err(e) => return Ok(StepOutcome::Rejected(format!("checkout {read_version}: {e}"))),
            }
        } else {
            self.ds.clone()
        };
        let at = self.versions[&read_version].clone();
        let before_latest = self.latest;
        if stale && !self.allow_nonnull_add_race && matches!(step.op, Op::Append { .. } | Op::Update { .. }) {
            // Known finding C03-append-vs-nonnull-add: rows written at an older schema lack a
            // concurrently added non-nullable column and the table becomes unreadable.  Other
            // properties exclude exactly this shape; C03 reports it.
            let latest_schema = &self.versions[&self.latest].schema;
            if latest_schema.cols.iter().any(|c| !c.nullable && at.schema.col(&c.name).is_none()) {
                obs.label("excluded:stale-write-vs-nonnull-add");
                return Ok(StepOutcome::NoOp);
            }
        }

        let (res, effect) = self.run_op(&step.op, &mut handle, &at, stale, obs).await?;
        if std::env::var("VERIF_TRACE").is_ok() {
            eprintln!("[trace] {} stale={stale} read_version={read_version} latest={} -> {:?} effect={}", step.op.kind(), self.latest, res, effect.as_ref().map(|e| e.kind).unwrap_or("-"));
        }
        let effect = match effect {
            Some(e) => e,
            None => return Ok(StepOutcome::NoOp),
        };
        match res {
            Err(msg) => {
                obs.rejected += 1;
                // the table must be unchanged
                self.refresh().await?;
                let now = self.ds.version().version;
                if now != before_latest {
                    if effect.kind == "compact" {
                        // a failed compaction may have published fragment-reservation versions;
                        // their contents must equal the pre-state (checked by the caller's verify)
                        let base = self.versions[&before_latest].clone();
                        for v in (before_latest + 1)..=now {
                            self.versions.insert(v, base.clone());
                        }
                        self.latest = now;
                        obs.label("failed-compaction-left-reservation-versions");
                        return Ok(StepOutcome::Rejected(msg));
                    }
                    return Err(Failure::new("failed-op-changed-table", format!("{} returned Err({msg}) but latest moved {before_latest} -> {now}", step.op.kind())));
                }
                Ok(StepOutcome::Rejected(msg))
            }
            Ok(()) => {
                self.refresh().await?;
                let now = self.ds.version().version;
                if now == before_latest {
                    // some ops are legitimately no-ops (delete matching nothing may still commit; compaction with nothing to do)
                    if effect.kind == "compact" || effect.kind == "optimize_indices" || effect.kind == "noop" {
                        return Ok(StepOutcome::NoOp);
                    }
                    return Err(Failure::new("ok-without-version", format!("{} returned Ok but no new version was published (latest {now})", step.op.kind())));
                }
                let base = self.versions[&before_latest].clone();
                let new_state = apply_effect(&base, &effect, &self.versions).map_err(|m| Failure::new("unserialisable-commit", format!("{}: {m}", step.op.kind())))?;
                // intermediate versions (compaction's reservation commits) equal the pre-state
                for v in (before_latest + 1)..now {
                    self.versions.insert(v, base.clone());
                }
                self.versions.insert(now, new_state);
                self.latest = now;
                self.history.push(step.op.kind().to_string());
                if stale {
                    self.rebased_commits += 1;
                    obs.label("rebased-commit");
                }
                Ok(StepOutcome::Committed { new_version: now, rebased: stale })
            }
        }
    }

    pub async fn refresh(&mut self) -> Result<(), Failure> {
        self.ds.checkout_latest().await.map_err(|e| Failure::new("checkout-latest-error", format!("{e}")))
    }

    /// run the op against lance; returns (lance result, model effect computed at `at`)
    async fn run_op(&mut self, op: &Op, h: &mut Dataset, at: &VersionState, stale: bool, obs: &mut Obs) -> Result<(Result<(), String>, Option<Effect>), Failure> {
        let mut e = Effect { read_schema: at.schema.clone(), ..Default::default() };
        match op {
            Op::Append { rows, splits, max_rows_per_file } => {
                e.kind = "append";
                let rs: Vec<Row> = rows.iter().map(|s| self.fresh_row(&at.schema, s)).collect();
                let arrow = Arc::new(at.schema.arrow());
                let batches = batches_of(&at.schema, &rs, splits);
                let reader = RecordBatchIterator::new(batches.into_iter().map(Ok), arrow);
                let params = self.write_params(WriteMode::Append, *max_rows_per_file as usize);
                let r = h.append(reader, Some(params)).await.map_err(lerr);
                e.insert = rs;
                Ok((r, Some(e)))
            }
            Op::Overwrite { rows, max_rows_per_file } => {
                e.kind = "overwrite";
                let rs: Vec<Row> = rows.iter().map(|s| self.fresh_row(&at.schema, s)).collect();
                let arrow = Arc::new(at.schema.arrow());
                let batches = batches_of(&at.schema, &rs, &[]);
                let reader = RecordBatchIterator::new(batches.into_iter().map(Ok), arrow);
                let params = self.write_params(WriteMode::Overwrite, *max_rows_per_file as usize);
                // Dataset::write with Overwrite on the handle's uri
                let r = lance::dataset::InsertBuilder::new(Arc::new(h.clone())).with_params(&params).execute_stream(reader).await.map(|_| ()).map_err(lerr);
                e.overwrite = Some((at.schema.clone(), rs));
                Ok((r, Some(e)))
            }
            Op::Delete { pred } => {
                e.kind = "delete";
                let p = resolve_pred(pred, &at.schema);
                let sql = p.sql();
                for r in &at.rows {
                    if eval_row(&p, &at.schema, r) == Some(true) {
                        e.delete.insert(r.uid);
                    }
                }
                obs.label(if e.delete.is_empty() { "delete-none" } else if e.delete.len() == at.rows.len() { "delete-all" } else { "delete-some" });
                let r = if stale {
                    lance::dataset::DeleteBuilder::new(Arc::new(h.clone()), sql).conflict_retries(0).execute().await.map(|_| ()).map_err(lerr)
                } else {
                    h.delete(&sql).await.map_err(lerr)
                };
                Ok((r, Some(e)))
            }
            Op::Update { pred, sets } => {
                e.kind = "update";
                let p = pred.as_ref().map(|p| resolve_pred(p, &at.schema));
                if at.schema.cols.is_empty() {
                    return Ok((Ok(()), None));
                }
                // resolve SET clauses: distinct target columns
                let mut targets: BTreeMap<usize, (String, Box<dyn Fn(&Row) -> Val>)> = BTreeMap::new();
                for (c, s) in sets {
                    let i = *c as usize % at.schema.cols.len();
                    if targets.contains_key(&i) {
                        continue;
                    }
                    let spec = at.schema.cols[i].clone();
                    let (sql, f): (String, Box<dyn Fn(&Row) -> Val>) = match s {
                        RawSet::AddInt(k)
                            if spec.ty.is_int()
                                && !matches!(spec.ty, ColType::Date32 | ColType::TsUs)
                                && at.rows.iter().all(|r| match (&r.vals[i], spec.ty.int_range()) {
                                    // arithmetic overflow is outside the property's domain: only generated when no row can overflow
                                    (Val::I(x), Some((lo, hi))) => *x + (*k as i128) >= lo && *x + (*k as i128) <= hi,
                                    _ => true,
                                }) =>
                        {
                            let k = *k as i128;
                            let (lo, hi) = spec.ty.int_range().unwrap();
                            let name = spec.name.clone();
                            // guard against overflow in SQL as the model does: CASE keeps the value at the bounds
                            let _ = (lo, hi);
                            (format!("{} + {}", quote_ident(&name), k), Box::new(move |r: &Row| match &r.vals[i] {
                                Val::I(x) => Val::I(x + k),
                                _ => Val::Null,
                            }))
                        }
                        RawSet::CopyCol(o) => {
                            let j = *o as usize % at.schema.cols.len();
                            let other = at.schema.cols[j].clone();
                            if other.ty == spec.ty && (spec.nullable || !other.nullable) && j != i {
                                (quote_ident(&other.name), Box::new(move |r: &Row| r.vals[j].clone()))
                            } else {
                                let v = finite(val_from_seed(spec.ty, spec.nullable, *o as u16));
                                (lit_sql(&v, spec.ty), Box::new(move |_r: &Row| v.clone()))
                            }
                        }
                        RawSet::Lit(_) | RawSet::AddInt(_) => {
                            let seed = match s {
                                RawSet::Lit(l) => *l,
                                RawSet::AddInt(l) => *l as u16,
                                _ => 0,
                            };
                            let v = finite(val_from_seed(spec.ty, spec.nullable, seed));
                            let sql = if v.is_null() { "NULL".to_string() } else { lit_sql(&v, spec.ty) };
                            (sql, Box::new(move |_r: &Row| v.clone()))
                        }
                    };
                    targets.insert(i, (sql, f));
                }
                let mut overflow = false;
                for r in &at.rows {
                    let hit = match &p {
                        None => true,
                        Some(p) => eval_row(p, &at.schema, r) == Some(true),
                    };
                    if hit {
                        let mut nv = r.vals.clone();
                        for (i, (_, f)) in &targets {
                            let v = f(r);
                            if let (Val::I(x), Some((lo, hi))) = (&v, at.schema.cols[*i].ty.int_range()) {
                                if *x < lo || *x > hi {
                                    overflow = true;
                                }
                            }
                            nv[*i] = v;
                        }
                        e.update.insert(r.uid, nv);
                    }
                }
                obs.label(if e.update.is_empty() { "update-none" } else { "update-some" });
                let mut b = UpdateBuilder::new(Arc::new(h.clone()));
                if let Some(p) = &p {
                    b = match b.update_where(&p.sql()) {
                        Ok(b) => b,
                        Err(err) => return Ok((Err(lerr(err)), Some(e))),
                    };
                }
                for (i, (sql, _)) in &targets {
                    b = match b.set(&at.schema.cols[*i].name, sql) {
                        Ok(b) => b,
                        Err(err) => return Ok((Err(lerr(err)), Some(e))),
                    };
                }
                if stale {
                    b = b.conflict_retries(0);
                }
                let r = match b.build() {
                    Ok(job) => job.execute().await.map_err(lerr),
                    Err(err) => Err(lerr(err)),
                };
                let r = match r {
                    Ok(res) => {
                        if overflow {
                            return Err(Failure::new("update-overflow-accepted", "an UPDATE whose result overflows the column type was accepted".to_string()));
                        }
                        if res.rows_updated != e.update.len() as u64 {
                            return Err(Failure::new("update-rows-updated", format!("rows_updated = {} but the model updates {} rows", res.rows_updated, e.update.len())));
                        }
                        Ok(())
                    }
                    Err(m) => Err(m),
                };
                if overflow && r.is_err() {
                    obs.label("update-overflow-rejected");
                }
                Ok((r, Some(e)))
            }
            Op::Compact { target_rows, materialize, threshold_pct, defer_remap, max_rows_per_group } => {
                e.kind = "compact";
                // the rewritten rows get new, higher fragment ids: physical order changes
                e.reorders = true;
                let opts = CompactionOptions {
                    target_rows_per_fragment: *target_rows as usize,
                    max_rows_per_group: *max_rows_per_group as usize,
                    materialize_deletions: *materialize,
                    materialize_deletions_threshold: *threshold_pct as f32 / 100.0,
                    defer_index_remap: *defer_remap,
                    num_threads: Some(1),
                    ..Default::default()
                };
                let r = compact_files(h, opts, None).await.map(|_| ()).map_err(lerr);
                Ok((r, Some(e)))
            }
            Op::CreateIndex { col, kind, replace } => {
                e.kind = "create_index";
                if at.schema.cols.is_empty() {
                    return Ok((Ok(()), None));
                }
                let n = at.schema.cols.len();
                let start = *col as usize % n;
                // NULL handling of indexed predicates is C19's subject: elsewhere only non-nullable columns are indexed
                let Some(c) = (0..n).map(|k| &at.schema.cols[(start + k) % n]).find(|c| self.index_nullable_cols || !c.nullable) else {
                    obs.label("create-index-skipped-nullable");
                    return Ok((Ok(()), None));
                };
                let name = format!("{}_idx", c.name);
                let params = match kind % 2 {
                    0 => ScalarIndexParams::for_builtin(lance_index::scalar::BuiltinIndexType::BTree),
                    _ => ScalarIndexParams::for_builtin(lance_index::scalar::BuiltinIndexType::Bitmap),
                };
                let ty = if kind % 2 == 0 { IndexType::BTree } else { IndexType::Bitmap };
                let r = h.create_index(&[c.name.as_str()], ty, Some(name.clone()), &params, *replace).await.map_err(lerr);
                e.index_add = Some((name, c.name.clone()));
                Ok((r, Some(e)))
            }
            Op::DropIndex { which } => {
                e.kind = "drop_index";
                if at.indices.is_empty() {
                    return Ok((Ok(()), None));
                }
                let name = at.indices.keys().nth(*which as usize % at.indices.len()).unwrap().clone();
                let r = h.drop_index(&name).await.map_err(lerr);
                e.index_drop = Some(name);
                Ok((r, Some(e)))
            }
            Op::OptimizeIndices { mode } => {
                e.kind = "optimize_indices";
                let opts = match mode % 3 {
                    0 => OptimizeOptions::append(),
                    1 => OptimizeOptions::merge(2),
                    _ => OptimizeOptions::default(),
                };
                let r = h.optimize_indices(&opts).await.map_err(lerr);
                Ok((r, Some(e)))
            }
            Op::AddColumn { kind, ty, src, lit } => {
                e.kind = "add_column";
                self.col_counter += 1;
                let name = format!("n{}", self.col_counter);
                match kind % 3 {
                    0 => {
                        // all nulls
                        let t = ColType::ALL[*ty as usize % ColType::ALL.len()];
                        let spec = ColSpec { name: name.clone(), ty: t, nullable: true, cid: self.col_counter };
                        let schema = Arc::new(arrow_schema::Schema::new(vec![arrow_schema::Field::new(&name, t.arrow(), true)]));
                        let r = h.add_columns(NewColumnTransform::AllNulls(schema), None, None).await.map_err(lerr);
                        e.add_col = Some((spec, BTreeMap::new()));
                        Ok((r, Some(e)))
                    }
                    1 if !at.schema.cols.is_empty() => {
                        // copy of an existing column via SQL
                        let j = *src as usize % at.schema.cols.len();
                        let s = at.schema.cols[j].clone();
                        let spec = ColSpec { name: name.clone(), ty: s.ty, nullable: s.nullable, cid: self.col_counter };
                        let vals: BTreeMap<i64, Val> = at.rows.iter().map(|r| (r.uid, r.vals[j].clone())).collect();
                        let r = h.add_columns(NewColumnTransform::SqlExpressions(vec![(name.clone(), quote_ident(&s.name))]), None, None).await.map_err(lerr);
                        e.add_col = Some((spec, vals));
                        Ok((r, Some(e)))
                    }
                    _ => {
                        // literal expression over uid: uid + k  (Int64)
                        let k = (*lit % 5) as i128;
                        let spec = ColSpec { name: name.clone(), ty: ColType::I64, nullable: false, cid: self.col_counter };
                        let vals: BTreeMap<i64, Val> = at.rows.iter().map(|r| (r.uid, Val::I(r.uid as i128 + k))).collect();
                        let r = h.add_columns(NewColumnTransform::SqlExpressions(vec![(name.clone(), format!("uid + {k}"))]), None, None).await.map_err(lerr);
                        e.add_col = Some((spec, vals));
                        Ok((r, Some(e)))
                    }
                }
            }
            Op::DropColumn { col } => {
                e.kind = "drop_column";
                if at.schema.cols.len() <= 1 {
                    return Ok((Ok(()), None));
                }
                let c = at.schema.cols[*col as usize % at.schema.cols.len()].clone();
                let r = h.drop_columns(&[c.name.as_str()]).await.map_err(lerr);
                e.drop_col = Some(c.cid);
                Ok((r, Some(e)))
            }
            Op::AlterColumn { col, action } => {
                e.kind = "alter_column";
                if at.schema.cols.is_empty() {
                    return Ok((Ok(()), None));
                }
                let c = at.schema.cols[*col as usize % at.schema.cols.len()].clone();
                match action % 3 {
                    0 => {
                        self.col_counter += 1;
                        let to = format!("r{}", self.col_counter);
                        let r = h.alter_columns(&[ColumnAlteration::new(c.name.clone()).rename(to.clone())]).await.map_err(lerr);
                        e.rename = Some((c.cid, to));
                        Ok((r, Some(e)))
                    }
                    1 => {
                        // make nullable (always legal)
                        if c.nullable {
                            return Ok((Ok(()), None));
                        }
                        let r = h.alter_columns(&[ColumnAlteration::new(c.name.clone()).set_nullable(true)]).await.map_err(lerr);
                        e.set_nullable = Some((c.cid, true));
                        Ok((r, Some(e)))
                    }
                    _ => {
                        // make non-nullable: must be rejected when the column holds a NULL
                        if !c.nullable {
                            return Ok((Ok(()), None));
                        }
                        let (i, _) = at.schema.col(&c.name).unwrap();
                        let has_null = at.rows.iter().any(|r| r.vals[i].is_null());
                        let r = h.alter_columns(&[ColumnAlteration::new(c.name.clone()).set_nullable(false)]).await.map_err(lerr);
                        if r.is_ok() && has_null {
                            obs.label("alter-non-nullable-with-nulls-accepted");
                        }
                        e.set_nullable = Some((c.cid, false));
                        Ok((r, Some(e)))
                    }
                }
            }
            Op::UpdateConfig { key, val } => {
                e.kind = "update_config";
                let k = format!("verif.k{}", key % 3);
                let v = val.map(|v| format!("v{v}"));
                let r = h.update_config([(k.as_str(), v.as_deref())]).await.map(|_| ()).map_err(lerr);
                e.config_set.insert(k, v);
                Ok((r, Some(e)))
            }
            Op::Restore { v } => {
                e.kind = "restore";
                let known: Vec<u64> = self.versions.keys().copied().collect();
                let target = known[idx(*v, known.len())];
                if target == self.latest {
                    return Ok((Ok(()), None));
                }
                let mut old = match self.ds.checkout_version(target).await {
                    Ok(d) => d,
                    Err(err) => return Ok((Err(lerr(err)), Some(e))),
                };
                let r = old.restore().await.map_err(lerr);
                e.restore = Some(target);
                Ok((r, Some(e)))
            }
            Op::Tag { action, name, v } => {
                let known: Vec<u64> = self.versions.keys().copied().collect();
                let target = known[idx(*v, known.len())];
                let tag = format!("t{}", name % 3);
                match action % 3 {
                    0 => {
                        let r = self.ds.tags().create(&tag, target).await;
                        match (r, self.tags.contains_key(&tag)) {
                            (Ok(()), false) => {
                                self.tags.insert(tag, target);
                            }
                            (Ok(()), true) => return Err(Failure::new("tag-create-duplicate-accepted", format!("tag {tag} created twice"))),
                            (Err(_), true) => obs.rejected += 1,
                            (Err(err), false) => return Err(Failure::new("tag-create-error", format!("create tag {tag} -> {target}: {err}"))),
                        }
                    }
                    1 => {
                        let r = self.ds.tags().update(&tag, target).await;
                        match (r, self.tags.contains_key(&tag)) {
                            (Ok(()), true) => {
                                self.tags.insert(tag, target);
                            }
                            (Ok(()), false) => return Err(Failure::new("tag-update-missing-accepted", format!("update of missing tag {tag} accepted"))),
                            (Err(_), false) => obs.rejected += 1,
                            (Err(err), true) => return Err(Failure::new("tag-update-error", format!("update tag {tag} -> {target}: {err}"))),
                        }
                    }
                    _ => {
                        let r = self.ds.tags().delete(&tag).await;
                        match (r, self.tags.contains_key(&tag)) {
                            (Ok(()), true) => {
                                self.tags.remove(&tag);
                            }
                            (Ok(()), false) => return Err(Failure::new("tag-delete-missing-accepted", format!("delete of missing tag {tag} accepted"))),
                            (Err(_), false) => obs.rejected += 1,
                            (Err(err), true) => return Err(Failure::new("tag-delete-error", format!("delete tag {tag}: {err}"))),
                        }
                    }
                }
                self.history.push("tag".into());
                Ok((Ok(()), None))
            }
            Op::Reopen => {
                self.session = new_session(&self.store);
                self.ds = self.open_warm(None).await.map_err(|m| Failure::new("reopen-error", m))?;
                self.history.push("reopen".into());
                Ok((Ok(()), None))
            }
        }
    }

    fn fresh_row(&mut self, schema: &TableSchema, seed: &RowSeed) -> Row {
        let uid = self.next_uid;
        self.next_uid += 1;
        row_from_seed(schema, uid, seed)
    }
}

// ---------------------------------------------------------------------------
// observations

pub async fn scan_rows(ds: &Dataset, schema: &TableSchema, ordered: bool) -> Result<Vec<Row>, String> {
    let mut sc = ds.scan();
    if ordered {
        sc.scan_in_order(true);
    }
    let stream = sc.try_into_stream().await.map_err(lerr)?;
    let batches: Vec<RecordBatch> = stream.try_collect().await.map_err(lerr)?;
    batches_to_rows(&batches, &schema.names())
}

pub fn sorted(mut rows: Vec<Row>) -> Vec<Row> {
    rows.sort();
    rows
}

pub fn diff_rows(got: &[Row], want: &[Row]) -> String {
    let g: BTreeSet<&Row> = got.iter().collect();
    let w: BTreeSet<&Row> = want.iter().collect();
    let extra: Vec<&&Row> = g.difference(&w).take(5).collect();
    let missing: Vec<&&Row> = w.difference(&g).take(5).collect();
    format!("got {} rows, want {}; unexpected {:?}; missing {:?}", got.len(), want.len(), extra, missing)
}

/// compare the dataset's schema with the model's
pub fn check_schema(ds: &Dataset, want: &TableSchema) -> Result<(), Failure> {
    let arrow: arrow_schema::Schema = ds.schema().into();
    let got: Vec<(String, arrow_schema::DataType, bool)> = arrow.fields().iter().map(|f| (f.name().clone(), f.data_type().clone(), f.is_nullable())).collect();
    let mut exp = vec![(UID.to_string(), arrow_schema::DataType::Int64, false)];
    for c in &want.cols {
        exp.push((c.name.clone(), c.ty.arrow(), c.nullable));
    }
    if got != exp {
        return Err(Failure::new("schema-mismatch", format!("dataset schema {got:?} but model {exp:?}")));
    }
    Ok(())
}

/// full comparison of one dataset handle against a model state
pub async fn verify_state(ds: &Dataset, st: &VersionState, what: &str) -> Result<(), Failure> {
    check_schema(ds, &st.schema)?;
    let got = scan_rows(ds, &st.schema, st.ordered).await.map_err(|m| Failure::new("scan-error", format!("{what}: {m}")))?;
    if st.ordered {
        if got != st.rows {
            return Err(Failure::new("rows-mismatch-ordered", format!("{what}: {}", diff_rows(&got, &st.rows))));
        }
    } else if sorted(got.clone()) != sorted(st.rows.clone()) {
        return Err(Failure::new("rows-mismatch", format!("{what}: {}", diff_rows(&got, &st.rows))));
    }
    let n = ds.count_rows(None).await.map_err(|e| Failure::new("count-rows-error", format!("{what}: {e}")))?;
    if n != st.rows.len() {
        return Err(Failure::new("count-rows-mismatch", format!("{what}: count_rows = {n}, model {}", st.rows.len())));
    }
    let cfg: BTreeMap<String, String> = ds.config().iter().filter(|(k, _)| k.starts_with("verif.")).map(|(k, v)| (k.clone(), v.clone())).collect();
    if cfg != st.config {
        return Err(Failure::new("config-mismatch", format!("{what}: config {cfg:?}, model {:?}", st.config)));
    }
    Ok(())
}

