//! The history engine (DESIGN §1.3): generated operation histories applied to a
//! real lance table on a `VStore` and to the reference model.

use crate::engine::{idx, Env, Failure, Obs};
use crate::model::*;
use crate::store::{self, VStore};
use arrow_array::{RecordBatch, RecordBatchIterator};
use futures::TryStreamExt;
use lance::dataset::builder::DatasetBuilder;
use lance::dataset::optimize::{compact_files, CompactionOptions};
use lance::dataset::{ColumnAlteration, NewColumnTransform, UpdateBuilder, WriteMode, WriteParams};
use lance_index::DatasetIndexExt;
use lance::session::Session;
use lance::Dataset;
use lance_encoding::version::LanceFileVersion;
use lance_index::optimize::OptimizeOptions;
use lance_index::scalar::ScalarIndexParams;
use lance_index::IndexType;
use lance_table::io::commit::{CommitHandler, ConditionalPutCommitHandler, RenameCommitHandler};
use proptest::prelude::*;
use serde::{Deserialize, Serialize};
use std::collections::{BTreeMap, BTreeSet, HashMap};
use std::sync::Arc;

// ---------------------------------------------------------------------------
// generated (raw) inputs

pub const ROW_WIDTH: usize = 6;

#[derive(Clone, Debug, PartialEq, Eq, Serialize, Deserialize)]
pub struct RowSeed(pub Vec<u16>);

#[derive(Clone, Debug, PartialEq, Eq, Serialize, Deserialize)]
pub enum RawPred {
    Cmp { col: u8, op: u8, lit: u16 },
    IsNull { col: u8 },
    IsNotNull { col: u8 },
    Between { col: u8, lo: u16, hi: u16, neg: bool },
    In { col: u8, lits: Vec<u16>, neg: bool },
    BoolCol { col: u8, form: u8 },
    Like { col: u8, lit: u16 },
    Not(Box<RawPred>),
    And(Box<RawPred>, Box<RawPred>),
    Or(Box<RawPred>, Box<RawPred>),
    Const(bool),
}

#[derive(Clone, Debug, PartialEq, Eq, Serialize, Deserialize)]
pub enum RawSet {
    /// col = literal (possibly NULL when nullable)
    Lit(u16),
    /// col = col + small int (ints only; otherwise falls back to Lit)
    AddInt(u8),
    /// col = other column of the same type (falls back to Lit)
    CopyCol(u8),
}

#[derive(Clone, Debug, PartialEq, Eq, Serialize, Deserialize)]
pub struct TableCfg {
    pub cols: Vec<(u8, bool)>, // (type index into ColType::ALL, nullable)
    pub stable_row_ids: bool,
    /// 0 = legacy 0.1, 1 = 2.0, 2 = 2.1, 3 = 2.2
    pub storage: u8,
    pub v2_manifest: bool,
    /// 0 conditional put, 1 rename-if-not-exists
    pub handler: u8,
}

#[derive(Clone, Debug, PartialEq, Eq, Serialize, Deserialize)]
pub struct MergeSpec {
    /// key column pick (index ncols = uid)
    pub key: u8,
    /// source rows: value seeds, and optionally "copy the key of the i-th existing row"
    pub src: Vec<(RowSeed, Option<u16>)>,
    /// 0 UpdateAll, 1 DoNothing, 2 Fail
    pub matched: u8,
    pub insert_not_matched: bool,
    /// 0 Keep, 1 Delete, 2 DeleteIf(pred)
    pub by_source: u8,
    pub by_source_pred: RawPred,
    /// sub-schema source: the non-key columns to include (fractions); None = full schema
    pub partial: Option<Vec<u8>>,
    pub use_index: bool,
}

#[derive(Clone, Debug, PartialEq, Eq, Serialize, Deserialize)]
pub enum Op {
    Append { rows: Vec<RowSeed>, splits: Vec<u16>, max_rows_per_file: u16 },
    Overwrite { rows: Vec<RowSeed>, max_rows_per_file: u16 },
    Delete { pred: RawPred },
    Update { pred: Option<RawPred>, sets: Vec<(u8, RawSet)> },
    Merge(MergeSpec),
    Compact { target_rows: u16, materialize: bool, threshold_pct: u8, defer_remap: bool, max_rows_per_group: u16 },
    CompactTasks { target_rows: u16, materialize: bool, threshold_pct: u8, defer_remap: bool, picks: Vec<u16>, reverse: bool, split_commits: bool },
    JoinColumn { keys: Vec<u16>, ty: u8, seed: u16 },
    CreateIndex { col: u8, kind: u8, replace: bool },
    DropIndex { which: u8 },
    OptimizeIndices { mode: u8 },
    AddColumn { kind: u8, ty: u8, src: u8, lit: u16 },
    DropColumn { col: u8 },
    AlterColumn { col: u8, action: u8 },
    UpdateConfig { key: u8, val: Option<u8> },
    Restore { v: u16 },
    Tag { action: u8, name: u8, v: u16 },
    Reopen,
}

impl Op {
    pub fn kind(&self) -> &'static str {
        match self {
            Op::Append { .. } => "append",
            Op::Overwrite { .. } => "overwrite",
            Op::Delete { .. } => "delete",
            Op::Update { .. } => "update",
            Op::Merge(_) => "merge_insert",
            Op::Compact { .. } => "compact",
            Op::CompactTasks { .. } => "compact_tasks",
            Op::JoinColumn { .. } => "join_column",
            Op::CreateIndex { .. } => "create_index",
            Op::DropIndex { .. } => "drop_index",
            Op::OptimizeIndices { .. } => "optimize_indices",
            Op::AddColumn { .. } => "add_column",
            Op::DropColumn { .. } => "drop_column",
            Op::AlterColumn { .. } => "alter_column",
            Op::UpdateConfig { .. } => "update_config",
            Op::Restore { .. } => "restore",
            Op::Tag { .. } => "tag",
            Op::Reopen => "reopen",
        }
    }
}

#[derive(Clone, Debug, PartialEq, Eq, Serialize, Deserialize)]
pub struct Step {
    pub op: Op,
    /// run the op on a handle checked out at this earlier version (fraction) with retries off
    pub stale: Option<u16>,
}

// ---------------------------------------------------------------------------
// strategies

pub fn row_seed() -> impl Strategy<Value = RowSeed> {
    prop::collection::vec(0u16..40, ROW_WIDTH).prop_map(RowSeed)
}

pub fn rows(max: usize) -> impl Strategy<Value = Vec<RowSeed>> {
    prop::collection::vec(row_seed(), 1..max)
}

pub fn raw_pred() -> impl Strategy<Value = RawPred> {
    let leaf = prop_oneof![
        6 => (any::<u8>(), 0u8..6, 0u16..40).prop_map(|(col, op, lit)| RawPred::Cmp { col, op, lit }),
        2 => any::<u8>().prop_map(|col| RawPred::IsNull { col }),
        2 => any::<u8>().prop_map(|col| RawPred::IsNotNull { col }),
        2 => (any::<u8>(), 0u16..40, 0u16..40, any::<bool>()).prop_map(|(col, lo, hi, neg)| RawPred::Between { col, lo, hi, neg }),
        2 => (any::<u8>(), prop::collection::vec(0u16..40, 1..4), any::<bool>()).prop_map(|(col, lits, neg)| RawPred::In { col, lits, neg }),
        1 => (any::<u8>(), 0u8..5).prop_map(|(col, form)| RawPred::BoolCol { col, form }),
        1 => (any::<u8>(), 0u16..40).prop_map(|(col, lit)| RawPred::Like { col, lit }),
    ];
    leaf.prop_recursive(3, 8, 2, |inner| {
        prop_oneof![
            2 => inner.clone().prop_map(|a| RawPred::Not(Box::new(a))),
            2 => (inner.clone(), inner.clone()).prop_map(|(a, b)| RawPred::And(Box::new(a), Box::new(b))),
            2 => (inner.clone(), inner).prop_map(|(a, b)| RawPred::Or(Box::new(a), Box::new(b))),
        ]
    })
}

pub fn table_cfg(types: &'static [u8], storages: &'static [u8]) -> impl Strategy<Value = TableCfg> {
    (
        prop::collection::vec((prop::sample::select(types), any::<bool>()), 1..5),
        any::<bool>(),
        prop::sample::select(storages),
        any::<bool>(),
        0u8..2,
    )
        .prop_map(|(cols, stable_row_ids, storage, v2_manifest, handler)| TableCfg { cols, stable_row_ids, storage, v2_manifest, handler })
}

pub fn op_append() -> impl Strategy<Value = Op> {
    (rows(14), prop::collection::vec(any::<u16>(), 0..3), prop_oneof![Just(3u16), Just(5), Just(1000)]).prop_map(|(rows, splits, m)| Op::Append { rows, splits, max_rows_per_file: m })
}
pub fn op_overwrite() -> impl Strategy<Value = Op> {
    (rows(10), prop_oneof![Just(4u16), Just(1000)]).prop_map(|(rows, m)| Op::Overwrite { rows, max_rows_per_file: m })
}
pub fn op_delete() -> impl Strategy<Value = Op> {
    raw_pred().prop_map(|pred| Op::Delete { pred })
}
pub fn raw_set() -> impl Strategy<Value = RawSet> {
    prop_oneof![3 => (0u16..40).prop_map(RawSet::Lit), 1 => (1u8..4).prop_map(RawSet::AddInt), 1 => any::<u8>().prop_map(RawSet::CopyCol)]
}
pub fn op_update() -> impl Strategy<Value = Op> {
    (prop::option::weighted(0.85, raw_pred()), prop::collection::vec((any::<u8>(), raw_set()), 1..3)).prop_map(|(pred, sets)| Op::Update { pred, sets })
}
pub fn op_merge() -> impl Strategy<Value = Op> {
    (
        any::<u8>(),
        prop::collection::vec((row_seed(), prop::option::weighted(0.6, any::<u16>())), 1..8),
        prop_oneof![4 => Just(0u8), 2 => Just(1u8), 1 => Just(2u8)],
        prop::bool::weighted(0.7),
        prop_oneof![5 => Just(0u8), 1 => Just(1u8), 1 => Just(2u8)],
        raw_pred(),
        prop::option::weighted(0.3, prop::collection::vec(any::<u8>(), 0..3)),
        any::<bool>(),
    )
        .prop_map(|(key, src, matched, insert_not_matched, by_source, by_source_pred, partial, use_index)| {
            Op::Merge(MergeSpec { key, src, matched, insert_not_matched, by_source, by_source_pred, partial, use_index })
        })
}
pub fn op_compact() -> impl Strategy<Value = Op> {
    (prop_oneof![Just(4u16), Just(8), Just(50), Just(1000)], any::<bool>(), 0u8..100, any::<bool>(), prop_oneof![Just(2u16), Just(1024)])
        .prop_map(|(target_rows, materialize, threshold_pct, defer_remap, max_rows_per_group)| Op::Compact { target_rows, materialize, threshold_pct, defer_remap, max_rows_per_group })
}
pub fn op_compact_tasks() -> impl Strategy<Value = Op> {
    (prop_oneof![Just(4u16), Just(8), Just(50)], any::<bool>(), 0u8..100, any::<bool>(), prop::collection::vec(any::<u16>(), 0..4), any::<bool>(), any::<bool>())
        .prop_map(|(target_rows, materialize, threshold_pct, defer_remap, picks, reverse, split_commits)| Op::CompactTasks { target_rows, materialize, threshold_pct, defer_remap, picks, reverse, split_commits })
}
pub fn op_join_column() -> impl Strategy<Value = Op> {
    (prop::collection::vec(any::<u16>(), 0..8), any::<u8>(), 0u16..40).prop_map(|(keys, ty, seed)| Op::JoinColumn { keys, ty, seed })
}
pub fn op_create_index() -> impl Strategy<Value = Op> {
    (any::<u8>(), 0u8..2, any::<bool>()).prop_map(|(col, kind, replace)| Op::CreateIndex { col, kind, replace })
}
pub fn op_schema() -> impl Strategy<Value = Op> {
    prop_oneof![
        3 => (0u8..4, any::<u8>(), any::<u8>(), 0u16..40).prop_map(|(kind, ty, src, lit)| Op::AddColumn { kind, ty, src, lit }),
        2 => any::<u8>().prop_map(|col| Op::DropColumn { col }),
        3 => (any::<u8>(), 0u8..8).prop_map(|(col, action)| Op::AlterColumn { col, action }),
        1 => op_join_column(),
    ]
}
pub fn op_misc() -> impl Strategy<Value = Op> {
    prop_oneof![
        2 => (0u8..3, prop::option::of(0u8..3)).prop_map(|(key, val)| Op::UpdateConfig { key, val }),
        2 => any::<u16>().prop_map(|v| Op::Restore { v }),
        2 => (0u8..3, 0u8..3, any::<u16>()).prop_map(|(action, name, v)| Op::Tag { action, name, v }),
        1 => Just(Op::Reopen),
        1 => (0u8..3).prop_map(|mode| Op::OptimizeIndices { mode }),
        1 => any::<u8>().prop_map(|which| Op::DropIndex { which }),
    ]
}

/// the general-purpose op mix
pub fn any_op() -> BoxedStrategy<Op> {
    prop_oneof![
        5 => op_append(),
        1 => op_overwrite(),
        4 => op_delete(),
        4 => op_update(),
        3 => op_merge(),
        3 => op_compact(),
        2 => op_create_index(),
        3 => op_schema(),
        3 => op_misc(),
    ]
    .boxed()
}

pub fn step_of(op: BoxedStrategy<Op>, stale_weight: u32) -> BoxedStrategy<Step> {
    (op, prop_oneof![(100 - stale_weight) => Just(None), stale_weight => any::<u16>().prop_map(Some)])
        .prop_map(|(op, stale)| Step { op, stale })
        .boxed()
}

// ---------------------------------------------------------------------------
// model state

#[derive(Clone, Debug, PartialEq)]
pub struct VersionState {
    pub schema: TableSchema,
    /// rows as a multiset; kept in physical (scan) order while `ordered`
    pub rows: Vec<Row>,
    pub ordered: bool,
    pub config: BTreeMap<String, String>,
    /// index name -> column name
    pub indices: BTreeMap<String, String>,
}

#[derive(Clone, Debug, Default)]
pub struct Effect {
    pub kind: &'static str,
    pub delete: BTreeSet<i64>,
    /// uid -> new row (uid and values under the schema at the read version)
    pub update: BTreeMap<i64, Row>,
    pub insert: Vec<Row>,
    pub overwrite: Option<(TableSchema, Vec<Row>)>,
    pub add_col: Option<(ColSpec, BTreeMap<i64, Val>)>,
    /// second column added by the same add_columns call
    pub add_col2: Option<(ColSpec, BTreeMap<i64, Val>)>,
    pub drop_col: Option<u32>,
    pub rename: Option<(u32, String)>,
    pub set_nullable: Option<(u32, bool)>,
    pub cast: Option<(u32, ColType)>,
    pub config_set: BTreeMap<String, Option<String>>,
    pub index_add: Option<(String, String)>,
    pub index_drop: Option<String>,
    pub restore: Option<u64>,
    /// schema at the read version (to map `update` values onto a changed schema)
    pub read_schema: TableSchema,
    /// rewrites physical order (rows move)
    pub reorders: bool,
    /// column values rewritten in place (sub-schema merge_insert): rows keep their addresses
    pub in_place: bool,
}

impl Effect {
    pub fn touches_rows(&self) -> bool {
        !self.delete.is_empty() || !self.update.is_empty() || !self.insert.is_empty() || self.overwrite.is_some()
    }
}

pub fn apply_effect(base: &VersionState, e: &Effect, versions: &BTreeMap<u64, VersionState>) -> Result<VersionState, String> {
    if let Some(v) = e.restore {
        return versions.get(&v).cloned().ok_or_else(|| format!("restore of unknown version {v}"));
    }
    let mut s = base.clone();
    if let Some((schema, rows)) = &e.overwrite {
        s.schema = schema.clone();
        s.rows = rows.clone();
        s.ordered = true;
        s.indices.clear();
        return Ok(s);
    }
    if !e.delete.is_empty() {
        s.rows.retain(|r| !e.delete.contains(&r.uid));
    }
    if !e.update.is_empty() {
        // map by column name from the read schema to the current schema
        let mut moved = vec![];
        let mut kept = vec![];
        for r in s.rows.drain(..) {
            if let Some(newrow) = e.update.get(&r.uid) {
                let mut nr = r.clone();
                nr.uid = newrow.uid;
                for (i, c) in e.read_schema.cols.iter().enumerate() {
                    if let Some((j, _)) = s.schema.col_by_cid(c.cid) {
                        nr.vals[j] = newrow.vals[i].clone();
                    }
                }
                moved.push(nr);
            } else {
                kept.push(r);
            }
        }
        kept.extend(moved);
        s.rows = kept;
        s.ordered = false;
    }
    if !e.insert.is_empty() {
        for r in &e.insert {
            let mut vals = vec![Val::Null; s.schema.cols.len()];
            for (i, c) in e.read_schema.cols.iter().enumerate() {
                if let Some((j, _)) = s.schema.col_by_cid(c.cid) {
                    vals[j] = r.vals[i].clone();
                }
            }
            s.rows.push(Row { uid: r.uid, vals });
        }
    }
    if let Some((spec, values)) = &e.add_col {
        if s.schema.col(&spec.name).is_some() {
            return Err(format!("column {} added twice", spec.name));
        }
        s.schema.cols.push(spec.clone());
        for r in &mut s.rows {
            r.vals.push(values.get(&r.uid).cloned().unwrap_or(Val::Null));
        }
    }
    if let Some((spec, values)) = &e.add_col2 {
        if s.schema.col(&spec.name).is_some() {
            return Err(format!("column {} added twice", spec.name));
        }
        s.schema.cols.push(spec.clone());
        for r in &mut s.rows {
            r.vals.push(values.get(&r.uid).cloned().unwrap_or(Val::Null));
        }
    }
    if let Some(cid) = &e.drop_col {
        let Some((i, c)) = s.schema.col_by_cid(*cid) else { return Err(format!("dropped column (cid {cid}) does not exist")) };
        let name = c.name.clone();
        s.schema.cols.remove(i);
        for r in &mut s.rows {
            r.vals.remove(i);
        }
        s.indices.retain(|_, c| *c != name);
    }
    if let Some((cid, to)) = &e.rename {
        let Some((i, c)) = s.schema.col_by_cid(*cid) else { return Err(format!("renamed column (cid {cid}) does not exist")) };
        let from = c.name.clone();
        s.schema.cols[i].name = to.clone();
        for c in s.indices.values_mut() {
            if *c == from {
                *c = to.clone();
            }
        }
    }
    if let Some((cid, nullable)) = &e.set_nullable {
        let Some((i, _)) = s.schema.col_by_cid(*cid) else { return Err(format!("altered column (cid {cid}) does not exist")) };
        s.schema.cols[i].nullable = *nullable;
    }
    if let Some((cid, to)) = &e.cast {
        let Some((i, _)) = s.schema.col_by_cid(*cid) else { return Err(format!("cast column (cid {cid}) does not exist")) };
        s.schema.cols[i].ty = *to;
        let name = s.schema.cols[i].name.clone();
        // the index on a cast column is dropped (the field is rewritten)
        s.indices.retain(|_, c| *c != name);
    }
    for (k, v) in &e.config_set {
        match v {
            Some(v) => {
                s.config.insert(k.clone(), v.clone());
            }
            None => {
                s.config.remove(k);
            }
        }
    }
    if let Some((name, col)) = &e.index_add {
        s.indices.insert(name.clone(), col.clone());
    }
    if let Some(name) = &e.index_drop {
        s.indices.remove(name);
    }
    if e.reorders || e.kind == "merge_insert" {
        s.ordered = false;
    }
    Ok(s)
}

// ---------------------------------------------------------------------------
// resolution of raw predicates against a schema

fn pick_col<'a>(schema: &'a TableSchema, col: u8) -> (String, ColType, bool) {
    // index ncols selects uid
    let n = schema.cols.len() + 1;
    let i = col as usize % n;
    if i == schema.cols.len() {
        (UID.to_string(), ColType::I64, false)
    } else {
        let c = &schema.cols[i];
        (c.name.clone(), c.ty, c.nullable)
    }
}

fn uid_lit(seed: u16) -> Val {
    Val::I((seed % 40) as i128)
}

pub fn resolve_pred(p: &RawPred, schema: &TableSchema) -> BExpr {
    let lit = |ty: ColType, name: &str, seed: u16| if name == UID { uid_lit(seed) } else { finite(lit_from_seed(ty, seed)) };
    match p {
        RawPred::Cmp { col, op, lit: l } => {
            let (name, ty, _) = pick_col(schema, *col);
            if ty == ColType::Bool {
                return BExpr::Cmp { col: name, ty, op: if op % 2 == 0 { CmpOp::Eq } else { CmpOp::Ne }, lit: Val::B(l % 2 == 1) };
            }
            let mut v = lit(ty, &name, *l);
            if crate::model::WIDE_LITS.with(|m| m.get()) && name != UID && l % 5 == 4 {
                // a literal just outside the column type's range (the comparison is still well defined)
                if let (Some((lo, hi)), true) = (ty.int_range(), matches!(ty, ColType::I8 | ColType::I16 | ColType::I32 | ColType::U8 | ColType::U32)) {
                    v = Val::I(match (l / 5) % 4 {
                        0 => hi + 1,
                        1 => lo - 1,
                        2 => hi + 1 + (hi - lo + 1) + 1, // wraps onto lo + 1 under a truncating conversion
                        _ => -1 - (l % 3) as i128 + lo.min(0),
                    });
                }
            }
            BExpr::Cmp { col: name, ty, op: CmpOp::ALL[*op as usize % 6], lit: v }
        }
        RawPred::IsNull { col } => BExpr::IsNull { col: pick_col(schema, *col).0 },
        RawPred::IsNotNull { col } => BExpr::IsNotNull { col: pick_col(schema, *col).0 },
        RawPred::Between { col, lo, hi, neg } => {
            let (name, ty, _) = pick_col(schema, *col);
            if ty == ColType::Bool {
                return BExpr::IsNotNull { col: name };
            }
            let a = lit(ty, &name, *lo);
            let b = lit(ty, &name, *hi);
            BExpr::Between { col: name, ty, lo: a, hi: b, negated: *neg }
        }
        RawPred::In { col, lits, neg } => {
            let (name, ty, _) = pick_col(schema, *col);
            if ty == ColType::Bool {
                return BExpr::BoolCol { col: name, form: BoolForm::IsTrue };
            }
            let list = lits.iter().map(|l| lit(ty, &name, *l)).collect();
            BExpr::InList { col: name, ty, list, negated: *neg }
        }
        RawPred::BoolCol { col, form } => {
            // find a boolean column starting from col
            let n = schema.cols.len();
            for k in 0..n {
                let c = &schema.cols[(*col as usize + k) % n.max(1)];
                if c.ty == ColType::Bool {
                    let form = [BoolForm::Plain, BoolForm::IsTrue, BoolForm::IsFalse, BoolForm::IsNotTrue, BoolForm::IsNotFalse][*form as usize % 5];
                    return BExpr::BoolCol { col: c.name.clone(), form };
                }
            }
            BExpr::IsNotNull { col: pick_col(schema, *col).0 }
        }
        RawPred::Like { col, lit: l } => {
            let n = schema.cols.len();
            for k in 0..n {
                let c = &schema.cols[(*col as usize + k) % n.max(1)];
                if c.ty.is_string() {
                    let prefix = match lit_from_seed(c.ty, *l) {
                        Val::S(s) => s.chars().filter(|ch| *ch != '%' && *ch != '_' && *ch != '\\').take(2).collect(),
                        _ => String::new(),
                    };
                    // the seed also picks the form: LIKE, NOT LIKE, ILIKE, NOT ILIKE
                    return BExpr::LikePrefix { col: c.name.clone(), prefix, negated: (*l / 3) % 2 == 1, ci: (*l / 6) % 2 == 1 };
                }
            }
            BExpr::IsNull { col: pick_col(schema, *col).0 }
        }
        RawPred::Not(a) => BExpr::Not(Box::new(resolve_pred(a, schema))),
        RawPred::And(a, b) => BExpr::And(Box::new(resolve_pred(a, schema)), Box::new(resolve_pred(b, schema))),
        RawPred::Or(a, b) => BExpr::Or(Box::new(resolve_pred(a, schema)), Box::new(resolve_pred(b, schema))),
        RawPred::Const(b) => BExpr::Const(*b),
    }
}

/// literals must be finite (NaN / inf are not SQL literals)
fn finite(v: Val) -> Val {
    match v {
        Val::F(b) if !f64::from_bits(b).is_finite() => Val::f(2.5),
        v => v,
    }
}

pub fn row_from_seed(schema: &TableSchema, uid: i64, seed: &RowSeed) -> Row {
    let vals = schema.cols.iter().enumerate().map(|(i, c)| val_from_seed(c.ty, c.nullable, seed.0[i % seed.0.len()].wrapping_add(i as u16 * 3))).collect();
    Row { uid, vals }
}

// ---------------------------------------------------------------------------
// the world

#[derive(Clone)]
pub struct World {
    pub store: VStore,
    pub session: Arc<Session>,
    pub handler: Arc<dyn CommitHandler>,
    pub uri: String,
    pub cfg: TableCfg,
    pub ds: Dataset,
    pub versions: BTreeMap<u64, VersionState>,
    pub latest: u64,
    pub next_uid: i64,
    pub tags: BTreeMap<String, u64>,
    pub col_counter: u32,
    /// kinds of the ops applied so far (for classification)
    pub history: Vec<String>,
    pub rebased_commits: u32,
    /// allow scalar indices on nullable columns (C19 / C12 only)
    pub index_nullable_cols: bool,
    /// generate stale row writes racing a non-nullable column add (C03 only)
    pub allow_nonnull_add_race: bool,
    /// allow NULLs in merge_insert key columns (C12 only)
    pub merge_null_keys: bool,
    /// ids of listed known findings whose exact discrepancy the model reproduces (set by the property from Env)
    pub known: std::collections::HashSet<String>,
    /// merge_insert only on the uid column (keeps uid = row identity; C07/C17/C18)
    pub merge_on_uid_only: bool,
    /// effect of the last committed step
    pub last_effect: Option<Effect>,
    /// names of dropped columns, candidates for re-use by a later add
    pub dropped_names: Vec<String>,
    /// indexed columns whose rows were rewritten by an update/merge while the index existed (stable row ids)
    pub stale_indexed_cols: BTreeSet<String>,
    /// a compaction with deferred index remap committed while an index existed (address-style row ids)
    pub deferred_remap_pending: bool,
    /// version at which a column (by identity) was last cast: the cast replaces the field, so rows written by a handle
    /// older than that version lack it
    pub last_cast: BTreeMap<u32, u64>,
}

pub enum StepOutcome {
    Committed { new_version: u64, rebased: bool },
    Rejected(String),
    /// no new version expected (reopen, rejected-by-construction no-op)
    NoOp,
}

pub fn storage_version(s: u8) -> LanceFileVersion {
    match s % 4 {
        0 => LanceFileVersion::Legacy,
        1 => LanceFileVersion::V2_0,
        2 => LanceFileVersion::V2_1,
        _ => LanceFileVersion::V2_2,
    }
}

pub fn new_session(store: &VStore) -> Arc<Session> {
    Arc::new(Session::new(64 << 20, 64 << 20, store::registry_for(store, true)))
}

pub fn handler_of(h: u8) -> Arc<dyn CommitHandler> {
    match h % 2 {
        0 => Arc::new(ConditionalPutCommitHandler),
        _ => Arc::new(RenameCommitHandler),
    }
}

fn lerr(e: lance::Error) -> String {
    format!("{e}")
}

pub fn batches_of(schema: &TableSchema, rows: &[Row], splits: &[u16]) -> Vec<RecordBatch> {
    let mut cuts: Vec<usize> = splits.iter().map(|s| idx(*s, rows.len() + 1)).collect();
    cuts.push(rows.len());
    cuts.sort_unstable();
    let mut out = vec![];
    let mut prev = 0;
    for c in cuts {
        if c > prev {
            out.push(rows_to_batch(schema, &rows[prev..c]));
        }
        prev = c;
    }
    if out.is_empty() {
        out.push(rows_to_batch(schema, &[]));
    }
    out
}

pub fn mk_write_params(handler: &Arc<dyn CommitHandler>, cfg: &TableCfg, session: &Arc<Session>, mode: WriteMode, max_rows_per_file: usize) -> WriteParams {
    WriteParams {
        mode,
        max_rows_per_file: max_rows_per_file.max(1),
        max_rows_per_group: 1024.min(max_rows_per_file.max(1)),
        commit_handler: Some(handler.clone()),
        data_storage_version: Some(storage_version(cfg.storage)),
        enable_stable_row_ids: cfg.stable_row_ids,
        enable_v2_manifest_paths: cfg.v2_manifest,
        session: Some(session.clone()),
        auto_cleanup: None,
        ..Default::default()
    }
}

impl World {
    pub fn write_params(&self, mode: WriteMode, max_rows_per_file: usize) -> WriteParams {
        mk_write_params(&self.handler, &self.cfg, &self.session, mode, max_rows_per_file)
    }

    pub fn schema_of_cfg(cfg: &TableCfg) -> TableSchema {
        TableSchema {
            cols: cfg
                .cols
                .iter()
                .enumerate()
                // the legacy (0.1) format does not store NULLs faithfully for all types (documented limitation): non-nullable there
                .map(|(i, (t, n))| ColSpec { name: format!("c{i}"), ty: ColType::ALL[*t as usize % ColType::ALL.len()], nullable: *n && cfg.storage % 4 != 0, cid: i as u32 + 1 })
                .collect(),
        }
    }

    /// create the table with `initial` rows
    pub async fn create(store: VStore, name: &str, cfg: &TableCfg, initial: &[RowSeed], max_rows_per_file: usize) -> Result<World, String> {
        let session = new_session(&store);
        let handler = handler_of(cfg.handler);
        let schema = Self::schema_of_cfg(cfg);
        let rows: Vec<Row> = initial.iter().enumerate().map(|(i, s)| row_from_seed(&schema, i as i64, s)).collect();
        let uri = store::uri(name);
        let arrow = Arc::new(schema.arrow());
        let batches = batches_of(&schema, &rows, &[]);
        let reader = RecordBatchIterator::new(batches.into_iter().map(Ok), arrow);
        let params = mk_write_params(&handler, cfg, &session, WriteMode::Create, max_rows_per_file);
        let ds = Dataset::write(reader, &uri, Some(params)).await.map_err(lerr)?;
        let v = ds.version().version;
        let mut w = World {
            store,
            session,
            handler,
            uri: uri.clone(),
            cfg: cfg.clone(),
            ds,
            versions: BTreeMap::new(),
            latest: 0,
            next_uid: rows.len() as i64,
            tags: BTreeMap::new(),
            col_counter: cfg.cols.len() as u32 + 1,
            history: vec!["create".into()],
            rebased_commits: 0,
            index_nullable_cols: false,
            allow_nonnull_add_race: false,
            merge_null_keys: false,
            known: crate::engine::ACTIVE_KNOWN.with(|k| k.borrow().clone()),
            merge_on_uid_only: false,
            last_effect: None,
            dropped_names: vec![],
            stale_indexed_cols: BTreeSet::new(),
            deferred_remap_pending: false,
            last_cast: BTreeMap::new(),
        };
        w.versions.insert(v, VersionState { schema, rows, ordered: true, config: BTreeMap::new(), indices: BTreeMap::new() });
        w.latest = v;
        Ok(w)
    }

    pub fn state(&self) -> &VersionState {
        &self.versions[&self.latest]
    }

    pub async fn open_fresh(&self, version: Option<u64>) -> Result<Dataset, String> {
        let session = new_session(&self.store);
        let mut b = DatasetBuilder::from_uri(&self.uri).with_session(session).with_commit_handler(self.handler.clone());
        if let Some(v) = version {
            b = b.with_version(v);
        }
        b.load().await.map_err(lerr)
    }

    pub async fn open_warm(&self, version: Option<u64>) -> Result<Dataset, String> {
        let mut b = DatasetBuilder::from_uri(&self.uri).with_session(self.session.clone()).with_commit_handler(self.handler.clone());
        if let Some(v) = version {
            b = b.with_version(v);
        }
        b.load().await.map_err(lerr)
    }

    /// Apply one step.  On `Ok(Committed)` the model has a new latest version.
    pub async fn apply(&mut self, step: &Step, obs: &mut Obs) -> Result<StepOutcome, Failure> {
        // pick the handle and the model state the op is computed on
        let known: Vec<u64> = self.versions.keys().copied().collect();
        let (read_version, stale) = match step.stale {
            Some(f) if known.len() > 1 && !matches!(step.op, Op::Reopen | Op::Tag { .. }) => {
                // only among the last 4 versions: older handles mostly conflict
                let lo = known.len().saturating_sub(4);
                let v = known[lo + idx(f, known.len() - lo)];
                (v, v != self.latest)
            }
            _ => (self.latest, false),
        };
        let mut handle = if stale {
            match self.ds.checkout_version(read_version).await {
                Ok(d) => d,
                Err(e) => return Ok(StepOutcome::Rejected(format!("checkout {read_version}: {e}"))),
            }
        } else {
            self.ds.clone()
        };
        let at = self.versions[&read_version].clone();
        let before_latest = self.latest;
        if stale && !self.allow_nonnull_add_race && matches!(step.op, Op::Append { .. } | Op::Update { .. } | Op::Merge(_)) {
            // Known finding C03-append-vs-nonnull-add: rows written at an older schema lack a
            // concurrently added non-nullable column and the table becomes unreadable.  Other
            // properties exclude exactly this shape; C03 reports it.
            let latest_schema = &self.versions[&self.latest].schema;
            // a non-nullable column that did not exist (as the same field) at the read version: added, or rewritten by a cast
            // ... or any column that was cast since (the field was replaced: values written under the old field are lost)
            if latest_schema.cols.iter().any(|c| (!c.nullable && !at.schema.cols.iter().any(|o| o.cid == c.cid && o.ty == c.ty)) || at.schema.cols.iter().any(|o| o.cid == c.cid && o.ty != c.ty) || self.last_cast.get(&c.cid).is_some_and(|v| *v > read_version)) {
                obs.label("excluded:stale-write-vs-nonnull-add");
                return Ok(StepOutcome::NoOp);
            }
        }

        if self.cfg.storage % 4 == 0 && matches!(step.op, Op::AddColumn { .. } | Op::AlterColumn { .. } | Op::JoinColumn { .. }) {
            // the legacy (0.1) format cannot represent NULLs of every type (documented); schema evolution, which
            // introduces nullable columns, is only exercised on the 2.x formats
            obs.label("excluded:schema-evolution-on-legacy-storage");
            return Ok(StepOutcome::NoOp);
        }
        if self.known.contains("C16-simplifier-null-tautology") {
            let risky = match &step.op {
                Op::Delete { pred } | Op::Update { pred: Some(pred), .. } => tautology_risk(&resolve_pred(pred, &at.schema), &at.schema),
                Op::Merge(m) if m.by_source % 3 == 2 => tautology_risk(&resolve_pred(&m.by_source_pred, &at.schema), &at.schema),
                _ => false,
            };
            if risky {
                obs.known_hit("C16-simplifier-null-tautology", format!("{} skipped: predicate holds a comparison and its complement on a nullable column", step.op.kind()));
                return Ok(StepOutcome::NoOp);
            }
        }
        if self.cfg.storage % 4 == 0 && self.cfg.stable_row_ids && !at.indices.is_empty() && matches!(step.op, Op::Delete { .. } | Op::Update { .. }) && self.known.contains("C16-legacy-stable-rowid-indexed-dml-panic") {
            // Known finding: legacy storage + stable row ids + a scalar index: the second indexed DELETE / UPDATE panics
            // ("row id missing from index"): the index still answers with the ids of rows deleted before.
            obs.known_hit("C16-legacy-stable-rowid-indexed-dml-panic", format!("{} on an indexed legacy table with stable row ids skipped", step.op.kind()));
            return Ok(StepOutcome::NoOp);
        }
        // Known finding C13-immediate-remap-after-deferred: a compaction that remaps indices immediately, run after a
        // compaction with deferred remap, drops the rows of the twice-moved fragments from the index.  With the
        // finding listed such compactions are generated as deferred ones instead.
        let step_owned;
        let mut step = step;
        if self.deferred_remap_pending && !self.cfg.stable_row_ids && self.known.contains("C13-immediate-remap-after-deferred") {
            let replaced = match &step.op {
                Op::Compact { target_rows, materialize, threshold_pct, defer_remap: false, max_rows_per_group } => Some(Op::Compact { target_rows: *target_rows, materialize: *materialize, threshold_pct: *threshold_pct, defer_remap: true, max_rows_per_group: *max_rows_per_group }),
                Op::CompactTasks { target_rows, materialize, threshold_pct, defer_remap: false, picks, reverse, split_commits } => Some(Op::CompactTasks { target_rows: *target_rows, materialize: *materialize, threshold_pct: *threshold_pct, defer_remap: true, picks: picks.clone(), reverse: *reverse, split_commits: *split_commits }),
                _ => None,
            };
            if let Some(op) = replaced {
                obs.known_hit("C13-immediate-remap-after-deferred", "immediate-remap compaction after a deferred one generated as deferred".to_string());
                step_owned = Step { op, stale: step.stale };
                step = &step_owned;
            }
        }
        let stale_optimize_after_rewrite = stale && self.cfg.stable_row_ids && self.history.iter().any(|k| k == "update" || k == "merge_insert");
        if matches!(step.op, Op::OptimizeIndices { .. })
            && (!self.stale_indexed_cols.is_empty() || stale_optimize_after_rewrite)
            && ((self.cfg.stable_row_ids && self.known.contains("C19-stale-index-after-update-stable-rowids")) || (!self.cfg.stable_row_ids && self.known.contains("C19-stale-index-after-inplace-rewrite")))
        {
            // Known finding: with stable row ids, optimize_indices merges the old entries of rewritten rows into the
            // new index segment, which then answers with their old values.
            obs.known_hit(if self.cfg.stable_row_ids { "C19-stale-index-after-update-stable-rowids" } else { "C19-stale-index-after-inplace-rewrite" }, format!("optimize_indices skipped; rewritten indexed columns {:?}", self.stale_indexed_cols));
            return Ok(StepOutcome::NoOp);
        }
        let (res, effect) = self.run_op(&step.op, &mut handle, &at, stale, obs).await?;
        if std::env::var("VERIF_TRACE").is_ok() {
            eprintln!("[trace] {} stale={stale} read_version={read_version} latest={} -> {:?} effect={}", step.op.kind(), self.latest, res, effect.as_ref().map(|e| e.kind).unwrap_or("-"));
        }
        let effect = match effect {
            Some(e) => e,
            None => return Ok(StepOutcome::NoOp),
        };
        match res {
            Err(msg) => {
                obs.rejected += 1;
                // the table must be unchanged
                self.refresh().await?;
                let now = self.ds.version().version;
                if now != before_latest {
                    if effect.kind == "compact" {
                        // a failed compaction may have published fragment-reservation versions;
                        // their contents must equal the pre-state (checked by the caller's verify)
                        let base = self.versions[&before_latest].clone();
                        for v in (before_latest + 1)..=now {
                            self.versions.insert(v, base.clone());
                        }
                        self.latest = now;
                        obs.label("failed-compaction-left-reservation-versions");
                        return Ok(StepOutcome::Rejected(msg));
                    }
                    return Err(Failure::new("failed-op-changed-table", format!("{} returned Err({msg}) but latest moved {before_latest} -> {now}", step.op.kind())));
                }
                Ok(StepOutcome::Rejected(msg))
            }
            Ok(()) => {
                self.refresh().await?;
                let now = self.ds.version().version;
                if now == before_latest {
                    // some ops are legitimately no-ops (delete matching nothing may still commit; compaction with nothing to do)
                    if effect.kind == "compact" || effect.kind == "optimize_indices" || effect.kind == "noop" {
                        return Ok(StepOutcome::NoOp);
                    }
                    return Err(Failure::new("ok-without-version", format!("{} returned Ok but no new version was published (latest {now})", step.op.kind())));
                }
                let base = self.versions[&before_latest].clone();
                let new_state = apply_effect(&base, &effect, &self.versions).map_err(|m| Failure::new("unserialisable-commit", format!("{}: {m}", step.op.kind())))?;
                // intermediate versions (compaction's reservation commits) equal the pre-state
                for v in (before_latest + 1)..now {
                    self.versions.insert(v, base.clone());
                }
                self.versions.insert(now, new_state);
                self.latest = now;
                self.last_effect = Some(effect.clone());
                if let Some((cid, _)) = &effect.cast {
                    self.last_cast.insert(*cid, now);
                }
                if !effect.update.is_empty() && (self.cfg.stable_row_ids || effect.in_place) {
                    let idx_cols: Vec<String> = self.versions[&before_latest].indices.values().cloned().collect();
                    self.stale_indexed_cols.extend(idx_cols);
                }
                if let Some((_, col)) = &effect.index_add {
                    self.stale_indexed_cols.remove(col);
                    if stale && self.cfg.stable_row_ids {
                        // built at an older version: rows rewritten since are indexed with their old values
                        self.stale_indexed_cols.insert(col.clone());
                    }
                }
                if effect.overwrite.is_some() || effect.restore.is_some() {
                    self.stale_indexed_cols.clear();
                    self.deferred_remap_pending = false;
                }
                if effect.kind == "compact" && !self.versions[&before_latest].indices.is_empty() {
                    if let Op::Compact { defer_remap: true, .. } | Op::CompactTasks { defer_remap: true, .. } = &step.op {
                        self.deferred_remap_pending = true;
                    }
                }
                self.history.push(step.op.kind().to_string());
                if stale {
                    self.rebased_commits += 1;
                    obs.label("rebased-commit");
                }
                Ok(StepOutcome::Committed { new_version: now, rebased: stale })
            }
        }
    }

    pub async fn refresh(&mut self) -> Result<(), Failure> {
        self.ds.checkout_latest().await.map_err(|e| Failure::new("checkout-latest-error", format!("{e}")))
    }

    /// run the op against lance; returns (lance result, model effect computed at `at`)
    async fn run_op(&mut self, op: &Op, h: &mut Dataset, at: &VersionState, stale: bool, obs: &mut Obs) -> Result<(Result<(), String>, Option<Effect>), Failure> {
        let mut e = Effect { read_schema: at.schema.clone(), ..Default::default() };
        match op {
            Op::Append { rows, splits, max_rows_per_file } => {
                e.kind = "append";
                let rs: Vec<Row> = rows.iter().map(|s| self.fresh_row(&at.schema, s)).collect();
                let arrow = Arc::new(at.schema.arrow());
                let batches = batches_of(&at.schema, &rs, splits);
                let reader = RecordBatchIterator::new(batches.into_iter().map(Ok), arrow);
                let params = self.write_params(WriteMode::Append, *max_rows_per_file as usize);
                let r = h.append(reader, Some(params)).await.map_err(lerr);
                e.insert = rs;
                Ok((r, Some(e)))
            }
            Op::Overwrite { rows, max_rows_per_file } => {
                e.kind = "overwrite";
                let rs: Vec<Row> = rows.iter().map(|s| self.fresh_row(&at.schema, s)).collect();
                let arrow = Arc::new(at.schema.arrow());
                let batches = batches_of(&at.schema, &rs, &[]);
                let reader = RecordBatchIterator::new(batches.into_iter().map(Ok), arrow);
                let params = self.write_params(WriteMode::Overwrite, *max_rows_per_file as usize);
                // Dataset::write with Overwrite on the handle's uri
                let r = lance::dataset::InsertBuilder::new(Arc::new(h.clone())).with_params(&params).execute_stream(reader).await.map(|_| ()).map_err(lerr);
                e.overwrite = Some((at.schema.clone(), rs));
                Ok((r, Some(e)))
            }
            Op::Delete { pred } => {
                e.kind = "delete";
                let p = resolve_pred(pred, &at.schema);
                let sql = p.sql();
                for r in &at.rows {
                    if eval_row(&p, &at.schema, r) == Some(true) {
                        e.delete.insert(r.uid);
                    }
                }
                obs.label(if e.delete.is_empty() { "delete-none" } else if e.delete.len() == at.rows.len() { "delete-all" } else { "delete-some" });
                let r = if stale {
                    lance::dataset::DeleteBuilder::new(Arc::new(h.clone()), sql).conflict_retries(0).execute().await.map(|_| ()).map_err(lerr)
                } else {
                    h.delete(&sql).await.map_err(lerr)
                };
                Ok((r, Some(e)))
            }
            Op::Update { pred, sets } => {
                e.kind = "update";
                let p = pred.as_ref().map(|p| resolve_pred(p, &at.schema));
                if at.schema.cols.is_empty() {
                    return Ok((Ok(()), None));
                }
                // resolve SET clauses: distinct target columns
                let mut targets: BTreeMap<usize, (String, Box<dyn Fn(&Row) -> Val>)> = BTreeMap::new();
                for (c, s) in sets {
                    let i = *c as usize % at.schema.cols.len();
                    if targets.contains_key(&i) {
                        continue;
                    }
                    let spec = at.schema.cols[i].clone();
                    let (sql, f): (String, Box<dyn Fn(&Row) -> Val>) = match s {
                        RawSet::AddInt(k)
                            if spec.ty.is_int()
                                && !matches!(spec.ty, ColType::Date32 | ColType::TsUs)
                                && at.rows.iter().all(|r| match (&r.vals[i], spec.ty.int_range()) {
                                    // arithmetic overflow is outside the property's domain: only generated when no row can overflow
                                    (Val::I(x), Some((lo, hi))) => *x + (*k as i128) >= lo && *x + (*k as i128) <= hi,
                                    _ => true,
                                }) =>
                        {
                            let k = *k as i128;
                            let (lo, hi) = spec.ty.int_range().unwrap();
                            let name = spec.name.clone();
                            // guard against overflow in SQL as the model does: CASE keeps the value at the bounds
                            let _ = (lo, hi);
                            (format!("{} + {}", quote_ident(&name), k), Box::new(move |r: &Row| match &r.vals[i] {
                                Val::I(x) => Val::I(x + k),
                                _ => Val::Null,
                            }))
                        }
                        RawSet::CopyCol(o) => {
                            let j = *o as usize % at.schema.cols.len();
                            let other = at.schema.cols[j].clone();
                            if other.ty == spec.ty && (spec.nullable || !other.nullable) && j != i {
                                (quote_ident(&other.name), Box::new(move |r: &Row| r.vals[j].clone()))
                            } else {
                                let v = finite(val_from_seed(spec.ty, spec.nullable, *o as u16));
                                (lit_sql(&v, spec.ty), Box::new(move |_r: &Row| v.clone()))
                            }
                        }
                        RawSet::Lit(_) | RawSet::AddInt(_) => {
                            let seed = match s {
                                RawSet::Lit(l) => *l,
                                RawSet::AddInt(l) => *l as u16,
                                _ => 0,
                            };
                            let v = finite(val_from_seed(spec.ty, spec.nullable, seed));
                            let sql = if v.is_null() { "NULL".to_string() } else { lit_sql(&v, spec.ty) };
                            (sql, Box::new(move |_r: &Row| v.clone()))
                        }
                    };
                    targets.insert(i, (sql, f));
                }
                let mut overflow = false;
                let mut hit_rows = 0u64;
                for r in &at.rows {
                    let hit = match &p {
                        None => true,
                        Some(p) => eval_row(p, &at.schema, r) == Some(true),
                    };
                    if hit {
                        hit_rows += 1;
                        let mut nv = r.vals.clone();
                        for (i, (_, f)) in &targets {
                            let v = f(r);
                            if let (Val::I(x), Some((lo, hi))) = (&v, at.schema.cols[*i].ty.int_range()) {
                                if *x < lo || *x > hi {
                                    overflow = true;
                                }
                            }
                            nv[*i] = v;
                        }
                        e.update.insert(r.uid, Row { uid: r.uid, vals: nv });
                    }
                }
                obs.label(if e.update.is_empty() { "update-none" } else { "update-some" });
                let mut b = UpdateBuilder::new(Arc::new(h.clone()));
                if let Some(p) = &p {
                    b = match b.update_where(&p.sql()) {
                        Ok(b) => b,
                        Err(err) => return Ok((Err(lerr(err)), Some(e))),
                    };
                }
                for (i, (sql, _)) in &targets {
                    b = match b.set(&at.schema.cols[*i].name, sql) {
                        Ok(b) => b,
                        Err(err) => return Ok((Err(lerr(err)), Some(e))),
                    };
                }
                if stale {
                    b = b.conflict_retries(0);
                }
                let r = match b.build() {
                    Ok(job) => job.execute().await.map_err(lerr),
                    Err(err) => Err(lerr(err)),
                };
                let r = match r {
                    Ok(res) => {
                        if overflow {
                            return Err(Failure::new("update-overflow-accepted", "an UPDATE whose result overflows the column type was accepted".to_string()));
                        }
                        if res.rows_updated != hit_rows {
                            return Err(Failure::new("update-rows-updated", format!("rows_updated = {} but the model updates {} rows", res.rows_updated, hit_rows)));
                        }
                        Ok(())
                    }
                    Err(m) => Err(m),
                };
                if overflow && r.is_err() {
                    obs.label("update-overflow-rejected");
                }
                Ok((r, Some(e)))
            }
            Op::Merge(m) => {
                e.kind = "merge_insert";
                self.run_merge(m, h, at, stale, obs, e).await
            }
            Op::Compact { target_rows, materialize, threshold_pct, defer_remap, max_rows_per_group } => {
                e.kind = "compact";
                // the rewritten rows get new, higher fragment ids: physical order changes
                e.reorders = true;
                let opts = CompactionOptions {
                    target_rows_per_fragment: *target_rows as usize,
                    max_rows_per_group: *max_rows_per_group as usize,
                    materialize_deletions: *materialize,
                    materialize_deletions_threshold: *threshold_pct as f32 / 100.0,
                    defer_index_remap: *defer_remap,
                    num_threads: Some(1),
                    ..Default::default()
                };
                let r = compact_files(h, opts, None).await.map(|_| ()).map_err(lerr);
                Ok((r, Some(e)))
            }
            Op::CompactTasks { target_rows, materialize, threshold_pct, defer_remap, picks, reverse, split_commits } => {
                e.kind = "compact";
                e.reorders = true;
                use lance::dataset::index::DatasetIndexRemapperOptions;
                use lance::dataset::optimize::{commit_compaction, plan_compaction};
                let mut opts = CompactionOptions {
                    target_rows_per_fragment: *target_rows as usize,
                    materialize_deletions: *materialize,
                    materialize_deletions_threshold: *threshold_pct as f32 / 100.0,
                    defer_index_remap: *defer_remap,
                    num_threads: Some(1),
                    ..Default::default()
                };
                opts.validate();
                let plan = match plan_compaction(h, &opts).await {
                    Ok(p) => p,
                    Err(err) => return Ok((Err(lerr(err)), Some(e))),
                };
                let tasks: Vec<_> = plan.compaction_tasks().collect();
                if tasks.is_empty() {
                    return Ok((Ok(()), None));
                }
                let mut chosen: Vec<usize> = if picks.is_empty() { (0..tasks.len()).collect() } else { picks.iter().map(|p| idx(*p, tasks.len())).collect() };
                chosen.sort_unstable();
                chosen.dedup();
                if *reverse {
                    chosen.reverse();
                }
                obs.label(format!("compaction-tasks-{}of{}", chosen.len().min(4), tasks.len().min(4)));
                let mut results = vec![];
                for t in &chosen {
                    match tasks[*t].execute(h).await {
                        Ok(r) => results.push(r),
                        Err(err) => return Ok((Err(lerr(err)), Some(e))),
                    }
                }
                let remap = Arc::new(DatasetIndexRemapperOptions::default());
                let r = if *split_commits && results.len() >= 2 {
                    let second = results.split_off(results.len() / 2);
                    match commit_compaction(h, results, remap.clone(), &opts).await {
                        Ok(_) => commit_compaction(h, second, remap, &opts).await.map(|_| ()).map_err(lerr),
                        Err(err) => Err(lerr(err)),
                    }
                } else {
                    commit_compaction(h, results, remap, &opts).await.map(|_| ()).map_err(lerr)
                };
                Ok((r, Some(e)))
            }
            Op::JoinColumn { keys, ty, seed } => {
                // Dataset::merge: left join on uid with a generated right side covering some rows
                e.kind = "add_column";
                self.col_counter += 1;
                let cid = self.col_counter;
                let name = match self.dropped_names.pop() {
                    Some(n) if seed % 2 == 0 => {
                        obs.label("re-added-dropped-name");
                        n
                    }
                    Some(n) => {
                        self.dropped_names.push(n);
                        format!("j{cid}")
                    }
                    None => format!("j{cid}"),
                };
                if at.schema.col(&name).is_some() {
                    return Ok((Ok(()), None));
                }
                let t = ColType::ALL[*ty as usize % ColType::ALL.len()];
                let spec = ColSpec { name: name.clone(), ty: t, nullable: true, cid };
                let mut right: BTreeMap<i64, Val> = BTreeMap::new();
                for (k, f) in keys.iter().enumerate() {
                    if at.rows.is_empty() {
                        break;
                    }
                    let r = &at.rows[idx(*f, at.rows.len())];
                    right.insert(r.uid, finite(val_from_seed(t, true, seed.wrapping_add(k as u16 * 5))));
                }
                // plus one key that matches nothing
                right.insert(-7, finite(val_from_seed(t, true, *seed)));
                let ks: Vec<i64> = right.keys().copied().collect();
                let vs: Vec<Val> = right.values().cloned().collect();
                let schema = Arc::new(arrow_schema::Schema::new(vec![arrow_schema::Field::new("rk", arrow_schema::DataType::Int64, false), arrow_schema::Field::new(&name, t.arrow(), true)]));
                let batch = RecordBatch::try_new(schema.clone(), vec![Arc::new(arrow_array::Int64Array::from(ks)), make_array(t, &mut vs.iter())]).unwrap();
                let reader = RecordBatchIterator::new(vec![Ok(batch)], schema);
                let r = h.merge(reader, UID, "rk").await.map_err(lerr);
                right.remove(&-7);
                e.add_col = Some((spec, right));
                Ok((r, Some(e)))
            }
            Op::CreateIndex { col, kind, replace } => {
                e.kind = "create_index";
                if at.schema.cols.is_empty() {
                    return Ok((Ok(()), None));
                }
                let n = at.schema.cols.len();
                let start = *col as usize % n;
                // NULL handling of indexed predicates is C19's subject: elsewhere only non-nullable columns are indexed
                let Some(c) = (0..n).map(|k| &at.schema.cols[(start + k) % n]).find(|c| self.index_nullable_cols || !c.nullable) else {
                    obs.label("create-index-skipped-nullable");
                    return Ok((Ok(()), None));
                };
                let name = format!("{}_idx", c.name);
                let params = match kind % 2 {
                    0 => ScalarIndexParams::for_builtin(lance_index::scalar::BuiltinIndexType::BTree),
                    _ => ScalarIndexParams::for_builtin(lance_index::scalar::BuiltinIndexType::Bitmap),
                };
                let ty = if kind % 2 == 0 { IndexType::BTree } else { IndexType::Bitmap };
                let r = h.create_index(&[c.name.as_str()], ty, Some(name.clone()), &params, *replace).await.map_err(lerr);
                e.index_add = Some((name, c.name.clone()));
                Ok((r, Some(e)))
            }
            Op::DropIndex { which } => {
                e.kind = "drop_index";
                if at.indices.is_empty() {
                    return Ok((Ok(()), None));
                }
                let name = at.indices.keys().nth(*which as usize % at.indices.len()).unwrap().clone();
                let r = h.drop_index(&name).await.map_err(lerr);
                e.index_drop = Some(name);
                Ok((r, Some(e)))
            }
            Op::OptimizeIndices { mode } => {
                e.kind = "optimize_indices";
                let opts = match mode % 3 {
                    0 => OptimizeOptions::append(),
                    1 => OptimizeOptions::merge(2),
                    _ => OptimizeOptions::default(),
                };
                let r = h.optimize_indices(&opts).await.map_err(lerr);
                Ok((r, Some(e)))
            }
            Op::AddColumn { kind, ty, src, lit } => {
                e.kind = "add_column";
                self.col_counter += 1;
                let name = match self.dropped_names.pop() {
                    Some(n) if lit % 2 == 0 && at.schema.col(&n).is_none() => {
                        obs.label("re-added-dropped-name");
                        n
                    }
                    Some(n) => {
                        self.dropped_names.push(n);
                        format!("n{}", self.col_counter)
                    }
                    None => format!("n{}", self.col_counter),
                };
                match kind % 4 {
                    3 => {
                        // one call adding an all-null column (CAST(NULL AS t)) and a computed one, in a generated order
                        self.col_counter += 1;
                        let name2 = format!("n{}", self.col_counter);
                        let t = [ColType::I32, ColType::I64, ColType::Utf8, ColType::F64][*ty as usize % 4];
                        let sql_ty = match t {
                            ColType::I32 => "INT",
                            ColType::I64 => "BIGINT",
                            ColType::Utf8 => "STRING",
                            _ => "DOUBLE",
                        };
                        let k = (*lit % 5) as i128;
                        let null_spec = ColSpec { name: name.clone(), ty: t, nullable: true, cid: self.col_counter - 1 };
                        let comp_spec = ColSpec { name: name2.clone(), ty: ColType::I64, nullable: false, cid: self.col_counter };
                        let vals: BTreeMap<i64, Val> = at.rows.iter().map(|r| (r.uid, Val::I(r.uid as i128 + k))).collect();
                        let null_expr = (name.clone(), format!("CAST(NULL AS {sql_ty})"));
                        let comp_expr = (name2.clone(), format!("uid + {k}"));
                        let null_first = src % 2 == 0;
                        let exprs = if null_first { vec![null_expr, comp_expr] } else { vec![comp_expr, null_expr] };
                        obs.label("add-null-and-computed-in-one-call");
                        let r = h.add_columns(NewColumnTransform::SqlExpressions(exprs), None, None).await.map_err(lerr);
                        if null_first {
                            e.add_col = Some((null_spec, BTreeMap::new()));
                            e.add_col2 = Some((comp_spec, vals));
                        } else {
                            e.add_col = Some((comp_spec, vals));
                            e.add_col2 = Some((null_spec, BTreeMap::new()));
                        }
                        Ok((r, Some(e)))
                    }
                    0 => {
                        // all nulls
                        let t = ColType::ALL[*ty as usize % ColType::ALL.len()];
                        let spec = ColSpec { name: name.clone(), ty: t, nullable: true, cid: self.col_counter };
                        let schema = Arc::new(arrow_schema::Schema::new(vec![arrow_schema::Field::new(&name, t.arrow(), true)]));
                        let r = h.add_columns(NewColumnTransform::AllNulls(schema), None, None).await.map_err(lerr);
                        e.add_col = Some((spec, BTreeMap::new()));
                        Ok((r, Some(e)))
                    }
                    1 if !at.schema.cols.is_empty() => {
                        // copy of an existing column via SQL
                        let j = *src as usize % at.schema.cols.len();
                        let s = at.schema.cols[j].clone();
                        let spec = ColSpec { name: name.clone(), ty: s.ty, nullable: s.nullable, cid: self.col_counter };
                        let vals: BTreeMap<i64, Val> = at.rows.iter().map(|r| (r.uid, r.vals[j].clone())).collect();
                        let r = h.add_columns(NewColumnTransform::SqlExpressions(vec![(name.clone(), quote_ident(&s.name))]), None, None).await.map_err(lerr);
                        e.add_col = Some((spec, vals));
                        Ok((r, Some(e)))
                    }
                    _ => {
                        // literal expression over uid: uid + k  (Int64)
                        let k = (*lit % 5) as i128;
                        let spec = ColSpec { name: name.clone(), ty: ColType::I64, nullable: false, cid: self.col_counter };
                        let vals: BTreeMap<i64, Val> = at.rows.iter().map(|r| (r.uid, Val::I(r.uid as i128 + k))).collect();
                        let r = h.add_columns(NewColumnTransform::SqlExpressions(vec![(name.clone(), format!("uid + {k}"))]), None, None).await.map_err(lerr);
                        e.add_col = Some((spec, vals));
                        Ok((r, Some(e)))
                    }
                }
            }
            Op::DropColumn { col } => {
                e.kind = "drop_column";
                if at.schema.cols.len() <= 1 {
                    return Ok((Ok(()), None));
                }
                let c = at.schema.cols[*col as usize % at.schema.cols.len()].clone();
                let r = h.drop_columns(&[c.name.as_str()]).await.map_err(lerr);
                if r.is_ok() {
                    self.dropped_names.push(c.name.clone());
                }
                e.drop_col = Some(c.cid);
                Ok((r, Some(e)))
            }
            Op::AlterColumn { col, action } => {
                e.kind = "alter_column";
                if at.schema.cols.is_empty() {
                    return Ok((Ok(()), None));
                }
                let c = at.schema.cols[*col as usize % at.schema.cols.len()].clone();
                if action % 4 == 3 {
                    // cast within a family; a lossy cast must be rejected (CastOptions { safe: false })
                    let to = match c.ty {
                        ColType::I8 => ColType::I32,
                        ColType::I16 => ColType::I64,
                        ColType::I32 => ColType::I64,
                        ColType::I64 => ColType::I32,
                        ColType::U8 => ColType::U32,
                        ColType::U32 => ColType::U8,
                        ColType::F32 => ColType::F64,
                        ColType::Utf8 => ColType::LargeUtf8,
                        ColType::LargeUtf8 => ColType::Utf8,
                        _ => return Ok((Ok(()), None)),
                    };
                    let (ci, _) = at.schema.col(&c.name).unwrap();
                    let lossy = at.rows.iter().any(|r| match (&r.vals[ci], to.int_range()) {
                        (Val::I(x), Some((lo, hi))) => *x < lo || *x > hi,
                        _ => false,
                    });
                    let mut alteration = ColumnAlteration::new(c.name.clone()).cast_to(to.arrow());
                    if action % 8 == 7 {
                        // rename and cast in one alteration
                        self.col_counter += 1;
                        let to_name = format!("r{}", self.col_counter);
                        alteration = alteration.rename(to_name.clone());
                        e.rename = Some((c.cid, to_name));
                        obs.label("rename-and-cast-in-one-alteration");
                    }
                    let r = h.alter_columns(&[alteration]).await.map_err(lerr);
                    if r.is_ok() && lossy {
                        return Err(Failure::new("lossy-cast-accepted", format!("cast of {} from {:?} to {:?} accepted although a value does not fit", c.name, c.ty, to)));
                    }
                    obs.label(if lossy { "cast-lossy" } else { "cast-lossless" });
                    e.cast = Some((c.cid, to));
                    return Ok((r, Some(e)));
                }
                match action % 3 {
                    0 => {
                        self.col_counter += 1;
                        let to = format!("r{}", self.col_counter);
                        let r = h.alter_columns(&[ColumnAlteration::new(c.name.clone()).rename(to.clone())]).await.map_err(lerr);
                        e.rename = Some((c.cid, to));
                        Ok((r, Some(e)))
                    }
                    1 => {
                        // make nullable (always legal)
                        if c.nullable {
                            return Ok((Ok(()), None));
                        }
                        let r = h.alter_columns(&[ColumnAlteration::new(c.name.clone()).set_nullable(true)]).await.map_err(lerr);
                        e.set_nullable = Some((c.cid, true));
                        Ok((r, Some(e)))
                    }
                    _ => {
                        // make non-nullable: must be rejected when the column holds a NULL
                        if !c.nullable {
                            return Ok((Ok(()), None));
                        }
                        let (i, _) = at.schema.col(&c.name).unwrap();
                        let has_null = at.rows.iter().any(|r| r.vals[i].is_null());
                        let r = h.alter_columns(&[ColumnAlteration::new(c.name.clone()).set_nullable(false)]).await.map_err(lerr);
                        if r.is_ok() && has_null {
                            obs.label("alter-non-nullable-with-nulls-accepted");
                        }
                        e.set_nullable = Some((c.cid, false));
                        Ok((r, Some(e)))
                    }
                }
            }
            Op::UpdateConfig { key, val } => {
                e.kind = "update_config";
                let k = format!("verif.k{}", key % 3);
                let v = val.map(|v| format!("v{v}"));
                let r = h.update_config([(k.as_str(), v.as_deref())]).await.map(|_| ()).map_err(lerr);
                e.config_set.insert(k, v);
                Ok((r, Some(e)))
            }
            Op::Restore { v } => {
                e.kind = "restore";
                let known: Vec<u64> = self.versions.keys().copied().collect();
                let target = known[idx(*v, known.len())];
                if target == self.latest {
                    return Ok((Ok(()), None));
                }
                let mut old = match self.ds.checkout_version(target).await {
                    Ok(d) => d,
                    Err(err) => return Ok((Err(lerr(err)), Some(e))),
                };
                let r = old.restore().await.map_err(lerr);
                e.restore = Some(target);
                Ok((r, Some(e)))
            }
            Op::Tag { action, name, v } => {
                let known: Vec<u64> = self.versions.keys().copied().collect();
                let target = known[idx(*v, known.len())];
                let tag = format!("t{}", name % 3);
                match action % 3 {
                    0 => {
                        let r = self.ds.tags().create(&tag, target).await;
                        match (r, self.tags.contains_key(&tag)) {
                            (Ok(()), false) => {
                                self.tags.insert(tag, target);
                            }
                            (Ok(()), true) => return Err(Failure::new("tag-create-duplicate-accepted", format!("tag {tag} created twice"))),
                            (Err(_), true) => obs.rejected += 1,
                            (Err(err), false) => return Err(Failure::new("tag-create-error", format!("create tag {tag} -> {target}: {err}"))),
                        }
                    }
                    1 => {
                        let r = self.ds.tags().update(&tag, target).await;
                        match (r, self.tags.contains_key(&tag)) {
                            (Ok(()), true) => {
                                self.tags.insert(tag, target);
                            }
                            (Ok(()), false) => return Err(Failure::new("tag-update-missing-accepted", format!("update of missing tag {tag} accepted"))),
                            (Err(_), false) => obs.rejected += 1,
                            (Err(err), true) => return Err(Failure::new("tag-update-error", format!("update tag {tag} -> {target}: {err}"))),
                        }
                    }
                    _ => {
                        let r = self.ds.tags().delete(&tag).await;
                        match (r, self.tags.contains_key(&tag)) {
                            (Ok(()), true) => {
                                self.tags.remove(&tag);
                            }
                            (Ok(()), false) => return Err(Failure::new("tag-delete-missing-accepted", format!("delete of missing tag {tag} accepted"))),
                            (Err(_), false) => obs.rejected += 1,
                            (Err(err), true) => return Err(Failure::new("tag-delete-error", format!("delete tag {tag}: {err}"))),
                        }
                    }
                }
                self.history.push("tag".into());
                Ok((Ok(()), None))
            }
            Op::Reopen => {
                self.session = new_session(&self.store);
                self.ds = self.open_warm(None).await.map_err(|m| Failure::new("reopen-error", m))?;
                self.history.push("reopen".into());
                Ok((Ok(()), None))
            }
        }
    }

    /// merge_insert against the SQL MERGE model (DESIGN C12)
    async fn run_merge(&mut self, m: &MergeSpec, h: &mut Dataset, at: &VersionState, stale: bool, obs: &mut Obs, mut e: Effect) -> Result<(Result<(), String>, Option<Effect>), Failure> {
        use lance::dataset::{MergeInsertBuilder, WhenMatched, WhenNotMatched, WhenNotMatchedBySource};
        let ncols = at.schema.cols.len();
        // key column: uid or a column; NULL keys only when enabled (C12)
        let n = ncols + 1;
        let start = if self.merge_on_uid_only { ncols } else { m.key as usize % n };
        let mut key_idx: Option<usize> = None; // None = uid
        let mut found = false;
        for k in 0..n {
            let i = (start + k) % n;
            if i == ncols {
                key_idx = None;
                found = true;
                break;
            }
            let c = &at.schema.cols[i];
            if c.ty.is_float() {
                continue; // float join keys (NaN, -0.0) are not a sound merge key domain
            }
            if self.merge_null_keys || !c.nullable {
                key_idx = Some(i);
                found = true;
                break;
            }
        }
        if !found {
            return Ok((Ok(()), None));
        }
        let key_name = key_idx.map(|i| at.schema.cols[i].name.clone()).unwrap_or_else(|| UID.to_string());
        let key_of = |r: &Row| -> Val { key_idx.map(|i| r.vals[i].clone()).unwrap_or(Val::I(r.uid as i128)) };
        // source rows
        let mut src: Vec<Row> = vec![];
        for (seed, copy) in &m.src {
            let mut r = self.fresh_row(&at.schema, seed);
            if let (Some(f), false) = (copy, at.rows.is_empty()) {
                let t = &at.rows[idx(*f, at.rows.len())];
                match key_idx {
                    Some(i) => r.vals[i] = t.vals[i].clone(),
                    None => r.uid = t.uid,
                }
            }
            src.push(r);
        }
        // sub-schema: key + chosen columns (uid is not part of a sub-schema source unless it is the key)
        let partial_cols: Option<Vec<usize>> = m.partial.as_ref().map(|p| {
            let mut v: Vec<usize> = p.iter().filter(|_| ncols > 0).map(|c| *c as usize % ncols.max(1)).filter(|i| Some(*i) != key_idx).collect();
            v.sort_unstable();
            v.dedup();
            v
        });
        let matched_mode = m.matched % 3;
        let by_source_pred = resolve_pred(&m.by_source_pred, &at.schema);
        // ---- model (SQL MERGE) ----
        let mut expect_err: Option<&'static str> = None;
        let mut n_upd = 0u64;
        let mut n_ins = 0u64;
        let mut n_del = 0u64;
        let mut matched_source = vec![false; src.len()];
        let mut null_key_seen = false;
        for t in &at.rows {
            let tk = key_of(t);
            let ms: Vec<usize> = src.iter().enumerate().filter(|(_, s)| !tk.is_null() && sql_cmp(&key_of(s), &tk) == Some(std::cmp::Ordering::Equal)).map(|(i, _)| i).collect();
            if tk.is_null() {
                null_key_seen = true;
            }
            for i in &ms {
                matched_source[*i] = true;
            }
            if !ms.is_empty() {
                match matched_mode {
                    0 => {
                        if ms.len() > 1 {
                            expect_err = Some("ambiguous");
                        }
                        let srow = &src[ms[0]];
                        let new = match &partial_cols {
                            None => srow.clone(),
                            Some(cols) => {
                                let mut nr = t.clone();
                                for c in cols {
                                    nr.vals[*c] = srow.vals[*c].clone();
                                }
                                nr
                            }
                        };
                        e.update.insert(t.uid, new);
                        n_upd += 1;
                    }
                    1 => {}
                    _ => expect_err = Some("fail-on-match"),
                }
            } else {
                let mut del = match m.by_source % 3 {
                    0 => false,
                    1 => true,
                    _ => eval_row(&by_source_pred, &at.schema, t) == Some(true),
                };
                if del && tk.is_null() && self.known.contains("C12-merge-null-key-source-dropped") {
                    // same known finding: a row whose key is NULL is invisible to merge_insert on either side
                    obs.known_hit("C12-merge-null-key-source-dropped", format!("target row {:?} with NULL key not deleted by the by-source clause", t));
                    del = false;
                }
                if del {
                    e.delete.insert(t.uid);
                    n_del += 1;
                }
            }
        }
        if src.iter().any(|s| key_of(s).is_null()) {
            null_key_seen = true;
        }
        if m.insert_not_matched {
            for (i, srow) in src.iter().enumerate() {
                if !matched_source[i] {
                    if key_of(srow).is_null() {
                        // Known finding C12-merge-null-key-source-dropped: lance ignores source rows whose key is NULL
                        // (SQL MERGE inserts them: a NULL key matches nothing).
                        if self.known.contains("C12-merge-null-key-source-dropped") {
                            obs.known_hit("C12-merge-null-key-source-dropped", format!("source row {:?}", srow));
                            continue;
                        }
                    }
                    let mut r = srow.clone();
                    if let Some(cols) = &partial_cols {
                        // columns absent from a sub-schema source are NULL in inserted rows
                        for (c, v) in r.vals.iter_mut().enumerate() {
                            if !cols.contains(&c) && Some(c) != key_idx {
                                *v = Val::Null;
                            }
                        }
                    }
                    e.insert.push(r);
                    n_ins += 1;
                }
            }
        }
        if null_key_seen {
            obs.label("merge-null-key");
        }
        obs.label(format!("merge-m{}-i{}-d{}{}", matched_mode, m.insert_not_matched as u8, m.by_source % 3, if partial_cols.is_some() { "-partial" } else { "" }));
        e.in_place = partial_cols.is_some();
        if n_upd > 0 && n_ins > 0 {
            obs.label("merge-updates-and-inserts");
        }
        // ---- lance ----
        let (src_schema, batch) = match &partial_cols {
            None => (at.schema.clone(), rows_to_batch(&at.schema, &src)),
            Some(cols) => {
                // sub-schema: [uid if key] + key col + chosen cols, in table order
                let mut sub = TableSchema::default();
                let mut keep: Vec<usize> = cols.clone();
                if let Some(k) = key_idx {
                    keep.push(k);
                }
                keep.sort_unstable();
                keep.dedup();
                for i in &keep {
                    sub.cols.push(at.schema.cols[*i].clone());
                }
                let rows: Vec<Row> = src.iter().map(|r| Row { uid: r.uid, vals: keep.iter().map(|i| r.vals[*i].clone()).collect() }).collect();
                let full = rows_to_batch(&sub, &rows);
                if key_idx.is_none() {
                    (sub, full)
                } else {
                    // drop uid from the source
                    let idxs: Vec<usize> = (1..full.num_columns()).collect();
                    (sub, full.project(&idxs).unwrap())
                }
            }
        };
        let _ = src_schema;
        let mut b = match MergeInsertBuilder::try_new(Arc::new(h.clone()), vec![key_name.clone()]) {
            Ok(b) => b,
            Err(err) => return Ok((Err(lerr(err)), Some(e))),
        };
        b.when_matched(match matched_mode {
            0 => WhenMatched::UpdateAll,
            1 => WhenMatched::DoNothing,
            _ => WhenMatched::Fail,
        });
        b.when_not_matched(if m.insert_not_matched { WhenNotMatched::InsertAll } else { WhenNotMatched::DoNothing });
        match m.by_source % 3 {
            0 => {
                b.when_not_matched_by_source(WhenNotMatchedBySource::Keep);
            }
            1 => {
                b.when_not_matched_by_source(WhenNotMatchedBySource::Delete);
            }
            _ => match WhenNotMatchedBySource::delete_if(h, &by_source_pred.sql()) {
                Ok(x) => {
                    b.when_not_matched_by_source(x);
                }
                Err(err) => return Ok((Err(lerr(err)), Some(e))),
            },
        }
        b.use_index(m.use_index);
        if stale {
            b.conflict_retries(0);
        }
        let job = match b.try_build() {
            Ok(j) => j,
            Err(err) => return Ok((Err(lerr(err)), Some(e))),
        };
        let schema = batch.schema();
        let reader = RecordBatchIterator::new(vec![Ok(batch)], schema);
        let r = job.execute_reader(reader).await;
        match r {
            Ok((_ds, stats)) => {
                if let Some(why) = expect_err {
                    return Err(Failure::new(format!("merge-accepted:{why}"), format!("merge_insert on {key_name} succeeded although the model requires failure ({why}); stats {stats:?}")));
                }
                if (stats.num_updated_rows, stats.num_inserted_rows, stats.num_deleted_rows) != (n_upd, n_ins, n_del) {
                    return Err(Failure::new(
                        "merge-stats",
                        format!("merge_insert on {key_name}: stats updated/inserted/deleted = {}/{}/{} but the model says {n_upd}/{n_ins}/{n_del}", stats.num_updated_rows, stats.num_inserted_rows, stats.num_deleted_rows),
                    ));
                }
                Ok((Ok(()), Some(e)))
            }
            Err(err) => {
                if expect_err.is_some() {
                    obs.label("merge-expected-failure");
                }
                Ok((Err(lerr(err)), Some(e)))
            }
        }
    }

    fn fresh_row(&mut self, schema: &TableSchema, seed: &RowSeed) -> Row {
        let uid = self.next_uid;
        self.next_uid += 1;
        row_from_seed(schema, uid, seed)
    }
}

// ---------------------------------------------------------------------------
// observations

pub async fn scan_rows(ds: &Dataset, schema: &TableSchema, ordered: bool) -> Result<Vec<Row>, String> {
    let mut sc = ds.scan();
    if ordered {
        sc.scan_in_order(true);
    }
    let stream = sc.try_into_stream().await.map_err(lerr)?;
    let batches: Vec<RecordBatch> = stream.try_collect().await.map_err(lerr)?;
    batches_to_rows(&batches, &schema.names())
}

pub fn sorted(mut rows: Vec<Row>) -> Vec<Row> {
    rows.sort();
    rows
}

pub fn diff_rows(got: &[Row], want: &[Row]) -> String {
    let g: BTreeSet<&Row> = got.iter().collect();
    let w: BTreeSet<&Row> = want.iter().collect();
    let extra: Vec<&&Row> = g.difference(&w).take(5).collect();
    let missing: Vec<&&Row> = w.difference(&g).take(5).collect();
    format!("got {} rows, want {}; unexpected {:?}; missing {:?}", got.len(), want.len(), extra, missing)
}

/// compare the dataset's schema with the model's
pub fn check_schema(ds: &Dataset, want: &TableSchema) -> Result<(), Failure> {
    let arrow: arrow_schema::Schema = ds.schema().into();
    let got: Vec<(String, arrow_schema::DataType, bool)> = arrow.fields().iter().map(|f| (f.name().clone(), f.data_type().clone(), f.is_nullable())).collect();
    let mut exp = vec![(UID.to_string(), arrow_schema::DataType::Int64, false)];
    for c in &want.cols {
        exp.push((c.name.clone(), c.ty.arrow(), c.nullable));
    }
    if got != exp {
        return Err(Failure::new("schema-mismatch", format!("dataset schema {got:?} but model {exp:?}")));
    }
    Ok(())
}

/// full comparison of one dataset handle against a model state
pub async fn verify_state(ds: &Dataset, st: &VersionState, what: &str) -> Result<(), Failure> {
    check_schema(ds, &st.schema)?;
    let got = scan_rows(ds, &st.schema, st.ordered).await.map_err(|m| Failure::new("scan-error", format!("{what}: {m}")))?;
    if st.ordered {
        if got != st.rows {
            return Err(Failure::new("rows-mismatch-ordered", format!("{what}: {}", diff_rows(&got, &st.rows))));
        }
    } else if sorted(got.clone()) != sorted(st.rows.clone()) {
        return Err(Failure::new("rows-mismatch", format!("{what}: {}", diff_rows(&got, &st.rows))));
    }
    let n = ds.count_rows(None).await.map_err(|e| Failure::new("count-rows-error", format!("{what}: {e}")))?;
    if n != st.rows.len() {
        return Err(Failure::new("count-rows-mismatch", format!("{what}: count_rows = {n}, model {}", st.rows.len())));
    }
    let cfg: BTreeMap<String, String> = ds.config().iter().filter(|(k, _)| k.starts_with("verif.")).map(|(k, v)| (k.clone(), v.clone())).collect();
    if cfg != st.config {
        return Err(Failure::new("config-mismatch", format!("{what}: config {cfg:?}, model {:?}", st.config)));
    }
    Ok(())
}



/// (uid, _rowid, _row_created_at_version, _row_last_updated_at_version) of every visible row
pub async fn scan_meta(ds: &Dataset) -> Result<Vec<(i64, u64, Option<u64>, Option<u64>)>, String> {
    use arrow_array::{Array, Int64Array, UInt64Array};
    let mut sc = ds.scan();
    sc.project(&[UID, "_row_created_at_version", "_row_last_updated_at_version"]).map_err(lerr)?;
    sc.with_row_id();
    let batches: Vec<RecordBatch> = sc.try_into_stream().await.map_err(lerr)?.try_collect().await.map_err(lerr)?;
    let mut out = vec![];
    for b in &batches {
        let uid = b.column_by_name(UID).and_then(|c| c.as_any().downcast_ref::<Int64Array>().cloned()).ok_or("no uid column")?;
        let rid = b.column_by_name("_rowid").and_then(|c| c.as_any().downcast_ref::<UInt64Array>().cloned()).ok_or("no _rowid column")?;
        let cr = b.column_by_name("_row_created_at_version").and_then(|c| c.as_any().downcast_ref::<UInt64Array>().cloned()).ok_or_else(|| format!("no _row_created_at_version column in {:?}", b.schema()))?;
        let up = b.column_by_name("_row_last_updated_at_version").and_then(|c| c.as_any().downcast_ref::<UInt64Array>().cloned()).ok_or("no _row_last_updated_at_version column")?;
        for i in 0..b.num_rows() {
            out.push((uid.value(i), rid.value(i), if cr.is_null(i) { None } else { Some(cr.value(i)) }, if up.is_null(i) { None } else { Some(up.value(i)) }));
        }
    }
    Ok(out)
}


/// uids returned by a filtered scan with scalar index use forced on or off
pub async fn filtered_uids(ds: &Dataset, sql: &str, use_index: bool) -> Result<Vec<i64>, String> {
    use arrow_array::Int64Array;
    let mut sc = ds.scan();
    sc.project(&[UID]).map_err(lerr)?;
    sc.filter(sql).map_err(lerr)?;
    sc.use_scalar_index(use_index);
    let batches: Vec<RecordBatch> = sc.try_into_stream().await.map_err(lerr)?.try_collect().await.map_err(lerr)?;
    let mut out = vec![];
    for b in &batches {
        let u = b.column_by_name(UID).and_then(|c| c.as_any().downcast_ref::<Int64Array>().cloned()).ok_or("no uid column")?;
        out.extend(u.values().iter().copied());
    }
    out.sort_unstable();
    Ok(out)
}

pub async fn plan_uses_scalar_index(ds: &Dataset, sql: &str) -> bool {
    let mut sc = ds.scan();
    if sc.filter(sql).is_err() {
        return false;
    }
    sc.use_scalar_index(true);
    sc.explain_plan(false).await.map(|p| p.contains("ScalarIndexQuery")).unwrap_or(false)
}

/// For every scalar-indexed column of `st`, a panel of predicates built from `seeds` must return the
/// same uid set with the index, without it, and in the model.  `negations`: also generate <>, NOT, NOT IN.
pub async fn check_indexed_queries(ds: &Dataset, st: &VersionState, seeds: &[u16], negations: bool, obs: &mut Obs, what: &str) -> Result<usize, Failure> {
    check_indexed_queries_opts(ds, st, seeds, negations, None, obs, what).await
}

/// `known_null_neg`: id of the listed known finding "a negation over an exact index answer re-admits NULL rows";
/// when given, exactly that discrepancy is counted as a known hit instead of failing.
pub async fn check_indexed_queries_opts(ds: &Dataset, st: &VersionState, seeds: &[u16], negations: bool, known_null_neg: Option<&str>, obs: &mut Obs, what: &str) -> Result<usize, Failure> {
    let mut used = 0;
    let mut cols: Vec<String> = st.indices.values().cloned().collect();
    cols.sort();
    cols.dedup();
    for col in cols {
        let Some((_, spec)) = st.schema.col(&col) else { continue };
        let ty = spec.ty;
        let lit = |s: u16| finite(lit_from_seed(ty, s));
        let mut preds: Vec<BExpr> = vec![];
        for (k, s) in seeds.iter().enumerate() {
            if ty == ColType::Bool {
                preds.push(BExpr::Cmp { col: col.clone(), ty, op: CmpOp::Eq, lit: Val::B(s % 2 == 0) });
                continue;
            }
            let op = CmpOp::ALL[(*s as usize + k) % 6];
            if op != CmpOp::Ne || negations {
                preds.push(BExpr::Cmp { col: col.clone(), ty, op, lit: lit(*s) });
            }
            if k % 3 == 1 {
                preds.push(BExpr::Between { col: col.clone(), ty, lo: lit(*s), hi: lit(s.wrapping_add(5)), negated: negations && k % 2 == 0 });
            }
            if k % 3 == 2 {
                preds.push(BExpr::InList { col: col.clone(), ty, list: vec![lit(*s), lit(s.wrapping_add(3))], negated: negations && k % 2 == 1 });
            }
            if negations && k % 4 == 3 {
                preds.push(BExpr::Not(Box::new(BExpr::Cmp { col: col.clone(), ty, op: CmpOp::Eq, lit: lit(*s) })));
            }
        }
        preds.push(BExpr::IsNull { col: col.clone() });
        if negations {
            preds.push(BExpr::IsNotNull { col: col.clone() });
        }
        for p in preds {
            let sql = p.sql();
            if sql.contains("NaN") {
                continue;
            }
            let mut want: Vec<i64> = st.rows.iter().filter(|r| eval_row(&p, &st.schema, r) == Some(true)).map(|r| r.uid).collect();
            want.sort_unstable();
            let with = match filtered_uids(ds, &sql, true).await {
                Ok(v) => v,
                Err(m) => {
                    // the un-indexed scan decides whether this is a planner rejection
                    if filtered_uids(ds, &sql, false).await.is_err() {
                        obs.rejected += 1;
                        continue;
                    }
                    return Err(Failure::new("indexed-scan-error", format!("{what}: {sql:?} fails only with the index: {m}")));
                }
            };
            let without = filtered_uids(ds, &sql, false).await.map_err(|m| Failure::new("unindexed-scan-error", format!("{what}: {sql:?}: {m}")))?;
            obs.inner += 1;
            // floats with NaN / -0.0: only the metamorphic relation is asserted
            let float_special = ty.is_float() && crate::model::NAN_MODE.with(|m| m.get());
            if without != want && !float_special {
                return Err(Failure::new("unindexed-vs-model", format!("{what}: {sql:?} without index returns uids {without:?}, model {want:?}")));
            }
            if with != without {
                // classify: the indexed answer is a superset whose extra rows all hold NULL in the indexed column, under a negation
                let (ci, _) = st.schema.col(&col).unwrap();
                let extra: Vec<i64> = with.iter().filter(|u| !without.contains(u)).copied().collect();
                let missing = without.iter().any(|u| !with.contains(u));
                let extra_all_null = !extra.is_empty() && extra.iter().all(|u| st.rows.iter().any(|r| r.uid == *u && r.vals[ci].is_null()));
                let simplifies_to_not = matches!(&p, BExpr::Cmp { ty: ColType::Bool, .. });
                if !missing && extra_all_null && (p.has_negation() || simplifies_to_not) {
                    if let Some(id) = known_null_neg {
                        obs.known_hit(id, format!("{what}: {sql:?} with index also returns NULL rows {extra:?}"));
                        continue;
                    }
                    return Err(Failure::new("indexed-vs-unindexed:null-under-negation", format!("{what}: {sql:?} with index returns uids {with:?}, without {without:?} (extra rows hold NULL)")));
                }
                return Err(Failure::new("indexed-vs-unindexed", format!("{what}: {sql:?} with index returns uids {with:?}, without {without:?}")));
            }
            if plan_uses_scalar_index(ds, &sql).await {
                used += 1;
            }
        }
    }
    if used > 0 {
        obs.label("index-actually-used");
    }
    Ok(used)
}


/// Known finding C16-simplifier-null-tautology: DataFusion's simplifier (used by lance's planner) folds an OR chain
/// that contains a comparison and its complement on the same column (`x <> a OR ... OR x = a`) to TRUE even when
/// x is nullable.  True if `p` contains such a pair (same column, same literal, complementary operators) or the
/// AND-dual, on a nullable column.
/// Known finding C16-legacy-inlist-contradiction: on the legacy (0.1) storage path a column that appears in an IN list
/// and in another atom of the same predicate is mis-simplified whatever its nullability
/// (`NOT (x IN (5)) AND x IN (5)` returns the rows with x = 5).
pub fn inlist_pair_risk(p: &BExpr) -> bool {
    fn walk(p: &BExpr, out: &mut std::collections::BTreeMap<String, (usize, usize)>) {
        match p {
            BExpr::Cmp { col, .. } | BExpr::Between { col, .. } => out.entry(col.clone()).or_insert((0, 0)).0 += 1,
            BExpr::InList { col, .. } => {
                let e = out.entry(col.clone()).or_insert((0, 0));
                e.0 += 1;
                e.1 += 1;
            }
            BExpr::Not(a) => walk(a, out),
            BExpr::And(a, b) | BExpr::Or(a, b) => {
                walk(a, out);
                walk(b, out);
            }
            _ => {}
        }
    }
    let mut m = std::collections::BTreeMap::new();
    walk(p, &mut m);
    m.values().any(|(atoms, lists)| *lists >= 1 && *atoms >= 2)
}

pub fn tautology_risk(p: &BExpr, schema: &TableSchema) -> bool {
    // observed trigger: a nullable column that appears in an IN / NOT IN list and in at least one more
    // comparison or list of the same expression (the simplifier's in-list merging rules ignore NULL)
    fn walk(p: &BExpr, out: &mut std::collections::BTreeMap<String, (usize, usize)>) {
        match p {
            BExpr::Cmp { col, .. } | BExpr::Between { col, .. } => out.entry(col.clone()).or_insert((0, 0)).0 += 1,
            BExpr::InList { col, .. } => {
                let e = out.entry(col.clone()).or_insert((0, 0));
                e.0 += 1;
                e.1 += 1;
            }
            BExpr::Not(a) => walk(a, out),
            BExpr::And(a, b) | BExpr::Or(a, b) => {
                walk(a, out);
                walk(b, out);
            }
            _ => {}
        }
    }
    let mut m = std::collections::BTreeMap::new();
    walk(p, &mut m);
    // (first observed on nullable columns only - hence the finding's name - but `NOT (x IN (5)) AND x IN (5)` is folded
    // wrongly on non-nullable columns as well: finding C16-inlist-contradiction; the shape is excluded for both)
    let _ = schema;
    m.iter().any(|(_col, (atoms, lists))| *lists >= 1 && *atoms >= 2)
}
