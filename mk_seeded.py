#!/usr/bin/env python3
"""Collects the seeded mutants (from /tmp/mut-out) and the results of running the checks against them
(/tmp/mutres, written by mutrun.sh) into /verif/seeded/<id>/ and prints the catch matrix as markdown."""
import json, os, re, shutil, sys, glob
OUT = '/verif/seeded'
confirm = {}
if os.path.exists('/tmp/mutconf/results.json'):
    confirm = json.load(open('/tmp/mutconf/results.json'))
rows = []
for d in sorted(glob.glob('/tmp/mut-out/C*-M*-*')):
    name = os.path.basename(d)
    res = '/tmp/mutres/%s.txt' % name
    if not os.path.exists(d + '/patch.diff') or not os.path.exists(res):
        continue
    txt = open(res).read()
    try:
        meta = json.load(open(d + '/meta.json'))
    except Exception:
        meta = {}
    checks = re.findall(r'CHECK (C\d\d) exit=(\d+) wall=(\d+)s', txt)
    caught = [c for c, rc, _ in checks if rc == '1']
    kinds = re.findall(r'failure kind=(\S+)', txt)
    status = 'apply-failed' if 'APPLY-FAILED' in txt else 'build-failed' if 'BUILD-FAILED' in txt else ('caught' if caught else 'missed')
    my = {
        'property': meta.get('property', name.split('-')[0]),
        'breaks': meta.get('breaks'),
        'needs_to_manifest': meta.get('needs_to_manifest'),
        'agent_demo_cmd': meta.get('demo_cmd'),
        'agent_existing_tests_run': meta.get('existing_tests_run'),
        'agent_existing_tests_result': meta.get('existing_tests_result'),
        'checks_run': [{'check': c, 'exit': int(rc), 'wall_s': int(w)} for c, rc, w in checks],
        'checks_cmd': '/verif/mutrun.sh <slot> /tmp/mut-out/%s %s   (patch applied to a scratch worktree of /repo, harness rebuilt against it, quick tier, VERIF_SEED=1)' % (name, ' '.join(c for c, _, _ in checks)),
        'status': status,
        'caught_by': caught,
        'failure_kinds': kinds[:4],
        'confirmed_by_me': confirm.get(name),
    }
    od = os.path.join(OUT, name)
    os.makedirs(od, exist_ok=True)
    shutil.copy(d + '/patch.diff', od + '/patch.diff')
    if os.path.exists(d + '/demo.diff'):
        shutil.copy(d + '/demo.diff', od + '/demo.diff')
    json.dump(my, open(od + '/meta.json', 'w'), indent=1)
    rows.append((name, my))
print('| mutant | property | what it changes | status | caught by (failure kind) |')
print('|---|---|---|---|---|')
for name, m in rows:
    what = (m['breaks'] or '')[:160].replace('|', '/').replace('\n', ' ')
    print('| %s | %s | %s | %s | %s |' % (name, m['property'], what, m['status'], ', '.join('%s' % c for c in m['caught_by']) + (' (' + ', '.join(m['failure_kinds'][:2]) + ')' if m['failure_kinds'] else '')))
n = len(rows); c = sum(1 for _, m in rows if m['status'] == 'caught')
print('\n%d mutants run, %d caught' % (n, c), file=sys.stderr)
