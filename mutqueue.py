#!/usr/bin/env python3
"""Runs mutrun.sh for every mutant directory given (or all under /tmp/mut-out) on the free slots a-d in parallel."""
import os, sys, subprocess, threading, queue, glob, json
EXTRA = {'C14':['C43'], 'C01':['C33'], 'C13':['C17'], 'C15':['C34'], 'C34':['C15'], 'C12':['C05'], 'C24':['C03'], 'C10':['C02'], 'C17':['C13'], 'C18':['C15'],
         'C07':['C18'], 'C04':['C03'], 'C27':['C25'], 'C26':['C25'], 'C29':['C20'], 'C06':['C05'], 'C08':['C42']}
def checks_for(name):
    pid = name.split('-')[0]
    return [pid] + EXTRA.get(pid, [])
dirs = sys.argv[1:] or sorted(d for d in glob.glob('/tmp/mut-out/C*-M*-*') if os.path.exists(d+'/patch.diff'))
dirs = [d for d in dirs if not os.path.exists('/tmp/mutres/%s.txt' % os.path.basename(d)) or os.environ.get('FORCE')]
q = queue.Queue()
for d in dirs: q.put(d)
def worker(slot):
    while True:
        try: d = q.get_nowait()
        except queue.Empty: return
        name = os.path.basename(d)
        subprocess.run(['/verif/mutrun.sh', slot, d] + checks_for(name))
        print(name, open('/tmp/mutres/%s.txt' % name).read().replace('\n', ' | ')[:300], flush=True)
ts = [threading.Thread(target=worker, args=(s,)) for s in os.environ.get('SLOTS','a b c d').split()]
[t.start() for t in ts]; [t.join() for t in ts]
