#!/bin/bash
# mutrun.sh <slot> <mutant-dir> <check> [<check>...]
# Applies <mutant-dir>/patch.diff to the slot's scratch worktree, rebuilds the slot's copy of the
# harness against it and runs the given checks (quick tier, VERIF_SEED default 1).  Results go to
# /tmp/mutres/<mutant>.txt.  Never touches /repo or /verif.
slot=$1; mdir=$2; shift 2
name=$(basename $mdir)
repo=/tmp/sh-$slot-repo; h=/tmp/sh-$slot
out=/tmp/mutres/$name.txt
: > $out
git -C $repo checkout -q -- . && git -C $repo clean -fdq
git -C $repo checkout -q --detach $(git -C /repo rev-parse main)
if ! git -C $repo apply $mdir/patch.diff 2>>$out; then
  if ! git -C $repo apply -3 $mdir/patch.diff 2>>$out; then echo "APPLY-FAILED" >> $out; exit 0; fi
fi
rsync -a --delete /verif/harness/src/ $h/src/
if ! (cd $h && cargo build --offline --bin lv >$h/build.log 2>&1); then
  echo "BUILD-FAILED" >> $out; tail -30 $h/build.log >> $out
  git -C $repo checkout -q -- . ; git -C $repo clean -fdq; exit 0
fi
mkdir -p $h/ev $h/viol
for c in "$@"; do
  start=$(date +%s)
  VERIF_SEED=${VERIF_SEED:-1} VERIF_EVIDENCE_DIR=$h/ev VERIF_VIOL_DIR=$h/viol/$name timeout 2400 $h/target/debug/lv $c quick > $h/run.log 2>&1
  rc=$?
  echo "CHECK $c exit=$rc wall=$(( $(date +%s) - start ))s" >> $out
  grep -E "^failure|^VIOLATION" $h/run.log | cut -c1-400 | head -6 >> $out
done
git -C $repo checkout -q -- . ; git -C $repo clean -fdq
